# Reproduction of findings reported by the static checks (documentation only; not run by any check).
# Run: /venv/bin/python c01_c03_more_setters.py   (scratch files go to /tmp/geoh5py-verif-repro, delete afterwards)
import os, shutil; shutil.rmtree("/tmp/geoh5py-verif-repro", ignore_errors=True); os.makedirs("/tmp/geoh5py-verif-repro")
import numpy as np
from geoh5py import Workspace
from geoh5py.objects import Points, BlockModel
from geoh5py.groups import ContainerGroup
ws = Workspace.create('/tmp/geoh5py-verif-repro/m.geoh5')
p = Points.create(ws, vertices=np.random.rand(4,3), name='p')
d = p.add_data({'d': {'values': np.arange(4.)}})
pg = p.add_data_to_group(d, 'old_name')
pg.name = 'new_name'                       # C01.PGW
g = ContainerGroup.create(ws, name='g')
g.entity_type.allow_move_content = False   # C03.W1 GroupType flag
d.association = 'OBJECT'                   # C03.W1 Data.association
b = BlockModel.create(ws, u_cell_delimiters=np.arange(3.), v_cell_delimiters=np.arange(3.), z_cell_delimiters=np.arange(3.), name='b')
ws.close()
ws2 = Workspace('/tmp/geoh5py-verif-repro/m.geoh5')
p2 = ws2.get_entity('p')[0]
print('property group name after re-open:', [x.name for x in p2.property_groups])
print('group type flag after re-open   :', ws2.get_entity('g')[0].entity_type.allow_move_content)
print('data association after re-open  :', ws2.get_entity('d')[0].association)
b2 = ws2.get_entity('b')[0]
print('BlockModel.cell_delimiters on a freshly opened model:', b2.cell_delimiters)
