# Reproduction of a finding reported by the static checks (documentation only; not run by any check).
# Run: /venv/bin/python c01_data_metadata_container.py   (scratch files go to /tmp/geoh5py-verif-repro, delete afterwards)
import os, shutil; shutil.rmtree("/tmp/geoh5py-verif-repro", ignore_errors=True); os.makedirs("/tmp/geoh5py-verif-repro")
import numpy as np, h5py
from geoh5py import Workspace
from geoh5py.objects import Points
ws = Workspace.create('/tmp/geoh5py-verif-repro/dm.geoh5')
p = Points.create(ws, vertices=np.random.rand(4,3), name='p')
d = p.add_data({'d': {'values': np.arange(4.)}})
d.metadata = {"a": 1}          # accepted, written under Data/<uid>/Metadata
p.metadata = {"b": 2}
print('live:', d.metadata, p.metadata)
ws.close()
with h5py.File('/tmp/geoh5py-verif-repro/dm.geoh5') as f:
    print('on file under Data node:', [k for k in f['GEOSCIENCE/Data'][list(f['GEOSCIENCE/Data'])[0]]])
ws2 = Workspace('/tmp/geoh5py-verif-repro/dm.geoh5')
print('re-opened: data metadata =', ws2.get_entity('d')[0].metadata, '| object metadata =', ws2.get_entity('p')[0].metadata)
