"""C01: `entity.uid = <new>` on a stored entity is accepted but only changes the attribute: registry and file stay keyed by the old
uid, later writes are dropped and close() writes a second node -> the re-opened file holds the old entity AND the re-identified
one.  Same for a stored property group (two groups after re-opening).  A refusal (exception, nothing changed) is fine.
exit 1 = defect present."""
import sys, tempfile, uuid
from pathlib import Path
import numpy as np
from geoh5py.objects import Points
from geoh5py.workspace import Workspace

bad = 0
path = Path(tempfile.mkdtemp()) / "uid.geoh5"
with Workspace.create(path) as ws:
    p = Points.create(ws, name="p", vertices=np.random.randn(5, 3))
    p.add_data({"a": {"values": np.arange(5.0)}}, property_group="pg")
    pg = p.property_groups[0]
    try:
        p.uid = uuid.uuid4()
    except AttributeError as exc:
        print("entity: refused:", exc)
    p.name = "renamed"
    pg.add_properties(p.add_data({"b": {"values": np.arange(5.0)}}))
    live_objects = sorted((str(q.uid), q.name) for q in ws.objects)
    live_groups = sorted((str(g.uid), len(g.properties)) for g in p.property_groups)
with Workspace(path) as ws:
    objects = sorted((str(q.uid), q.name) for q in ws.objects)
    groups = sorted((str(g.uid), len(g.properties)) for q in ws.objects for g in (q.property_groups or []))
print("objects live", live_objects, "re-opened", objects)
print("groups  live", live_groups, "re-opened", groups)
if objects != live_objects:
    bad = 1
if groups != live_groups:
    bad = 1
sys.exit(bad)
