# Reproduction of a C01.LAZY finding (documentation only; not run by any check).
# ConcatenatedObject.create_property_group reads self._property_groups directly; on a re-opened hole it is None
# until .property_groups was touched, so the duplicate-name check is skipped.
import os, shutil; shutil.rmtree("/tmp/geoh5py-verif-repro", ignore_errors=True); os.makedirs("/tmp/geoh5py-verif-repro")
import warnings; warnings.simplefilter("ignore")
import numpy as np
from geoh5py import Workspace
from geoh5py.groups import DrillholeGroup
from geoh5py.objects import Drillhole
path = '/tmp/geoh5py-verif-repro/t6.geoh5'
with Workspace.create(path) as ws:
    dg = DrillholeGroup.create(ws)
    w = Drillhole.create(ws, parent=dg, collar=[0, 0, 0], surveys=np.c_[[0, 10, 20], [0, 0, 0], [-90, -90, -90]].astype(float), name='w0')
    w.add_data({'a': {'depth': np.arange(5.), 'values': np.arange(5.)}}, property_group='pg')
    try:
        w.create_property_group(name='pg')
        print("live: duplicate accepted")
    except KeyError as e:
        print("live: refused:", e)
with Workspace(path) as ws:
    w = ws.get_entity('w0')[0]
    try:
        w.create_property_group(name='pg')
        print("re-opened: duplicate accepted; groups:", [g.name for g in w.property_groups])
    except KeyError as e:
        print("re-opened: refused:", e)
