"""C01: the node of a detached, garbage-collected entity is adopted as is by a new entity created with the same uid:
the live object shows the new name / vertices, the re-opened file the old ones (exit 1 = defect present)."""
import gc, sys, tempfile, uuid
from pathlib import Path
import numpy as np
from geoh5py.objects import Points
from geoh5py.workspace import Workspace

path = Path(tempfile.mkdtemp()) / "stale_entity.geoh5"
U = uuid.uuid4()
with Workspace.create(path) as ws:
    p = Points.create(ws, uid=U, name="old", vertices=np.zeros((3, 3)))
    ws.root.remove_children([p])  # detach: the link goes, the node stays in Objects/
    del p
    gc.collect()
    q = Points.create(ws, uid=U, name="new", vertices=np.ones((4, 3)))
    live = (q.name, q.n_vertices)
with Workspace(path) as ws:
    q = ws.get_entity(U)[0]
    stored = (q.name, q.n_vertices)
print("live", live, "re-opened", stored)
sys.exit(0 if live == stored else 1)
