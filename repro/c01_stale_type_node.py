"""C01: a type node left in the file by a removed data is adopted as is by a new type with the same uid (exit 1 = defect present)."""
import gc, sys, tempfile, uuid
from pathlib import Path
import numpy as np
from geoh5py.objects import Points
from geoh5py.workspace import Workspace

path = Path(tempfile.mkdtemp()) / "stale_type.geoh5"
U = uuid.uuid4()
with Workspace.create(path) as ws:
    p = Points.create(ws, vertices=np.random.randn(5, 3))
    a = p.add_data({"a": {"values": np.arange(5.0), "entity_type": {"primitive_type": "FLOAT", "uid": U, "name": "old", "units": "m"}}})
    ws.remove_entity(a)
    del a
    gc.collect()
    b = p.add_data({"b": {"values": np.arange(5.0), "entity_type": {"primitive_type": "FLOAT", "uid": U, "name": "new", "units": "s"}}})
    live = (b.entity_type.name, b.entity_type.units)
with Workspace(path) as ws:
    b = ws.get_entity("b")[0]
    stored = (b.entity_type.name, b.entity_type.units)
print("live", live, "re-opened", stored)
sys.exit(0 if live == stored else 1)
