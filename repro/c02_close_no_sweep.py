"""C02 (genuine, repairable): an entity detached from its parent (public ObjectBase.remove_children, documented as "becomes inactive ...
removed from the workspace by remove_none_referents") and then dropped by the caller is never swept when the workspace is closed:
Workspace.close() only lists the groups, so dead Data / Objects referents keep their node in the flat container with no parent at all.
Exit 1 = orphan on file after close()."""
import os, sys, tempfile
import h5py, numpy as np
from geoh5py.groups import ContainerGroup
from geoh5py.objects import Points
from geoh5py.workspace import Workspace

path = os.path.join(tempfile.mkdtemp(), "orphan.geoh5")
with Workspace.create(path) as ws:
    grp = ContainerGroup.create(ws, name="grp")
    pts = Points.create(ws, vertices=np.random.rand(5, 3), parent=grp)
    a = pts.add_data({"a": {"values": np.random.rand(5)}})
    other = Points.create(ws, vertices=np.random.rand(5, 3), name="other", parent=grp)
    a_uid, other_uid = "{%s}" % a.uid, "{%s}" % other.uid
    pts.remove_children([a])   # detach the data from its object ...
    grp.remove_children([other])  # ... and an object from its group
    del a, other               # ... and drop every reference: both are "inactive"
with h5py.File(path, "r") as h5:
    project = h5[list(h5)[0]]
    linked = set()
    project.visit(lambda name: linked.add(name.split("/")[-1]) if name.count("/") >= 3 else None)
    orphans = [(c, u) for c, u in (("Data", a_uid), ("Objects", other_uid)) if u in project[c] and u not in linked]
print("nodes left in the flat containers without any parent after close():", orphans)
sys.exit(1 if orphans else 0)
