"""C02 item 1 (genuine): a version-2 DrillholeGroup (Concatenator) also holds REGULAR children (its comments: a Data of association
OBJECT, stored in the flat Data container and hard-linked under Groups/{group}/Data).  Concatenator.remove_children treats every child
as concatenated: it never unlinks such a child from the group on file.  Workspace.remove_entity(group.comments) then deletes the flat
node only: the group's Data entry points at a node that is no longer in the flat container (and with holes in the group the call
fails half-way).  Exit 1 = the group keeps a child entry without flat node, or the removal raised."""
import os, sys, tempfile
import h5py, numpy as np
from geoh5py.groups import DrillholeGroup
from geoh5py.objects import Drillhole
from geoh5py.workspace import Workspace


def run(with_hole):
    path = os.path.join(tempfile.mkdtemp(), "dh.geoh5")
    with Workspace.create(path) as ws:
        group = DrillholeGroup.create(ws, name="dh")
        if with_hole:
            Drillhole.create(ws, name="well", parent=group, collar=np.r_[0.0, 0.0, 0.0], surveys=np.c_[np.r_[0.0, 10.0], np.zeros(2), np.zeros(2)])
        group.add_comment("hello")
        guid = "{%s}" % group.uid
    err = None
    with Workspace(path) as ws:
        group = ws.get_entity("dh")[0]
        try:
            ws.remove_entity(group.comments)
        except Exception as exc:  # pylint: disable=broad-except
            err = repr(exc)
    with h5py.File(path, "r") as h5:
        project = h5[list(h5)[0]]
        node = project["Groups"][guid]
        left = [uid for uid in node["Data"] if uid not in project["Data"]] if "Data" in node else []
    return left, err


bad = False
for with_hole in (False, True):
    left, err = run(with_hole)
    print(f"group with{'' if with_hole else 'out'} a hole: entries of the group's Data container without a flat node: {left}; exception: {err}")
    bad = bad or bool(left) or err is not None
sys.exit(1 if bad else 0)
