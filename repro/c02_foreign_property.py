# Reproduction of a finding reported by the static checks (documentation only; not run by any check).
# Run: /venv/bin/python c02_foreign_property.py   (scratch files go to /tmp/geoh5py-verif-repro, delete afterwards)
import os, shutil; shutil.rmtree("/tmp/geoh5py-verif-repro", ignore_errors=True); os.makedirs("/tmp/geoh5py-verif-repro")
import numpy as np, h5py
from geoh5py import Workspace
from geoh5py.objects import Points
ws = Workspace.create('/tmp/geoh5py-verif-repro/c02.geoh5')
a = Points.create(ws, vertices=np.random.rand(4,3), name='a')
b = Points.create(ws, vertices=np.random.rand(4,3), name='b')
db = b.add_data({'on_b': {'values': np.arange(4.)}})
pg = a.create_property_group(name='bad', properties=[db.uid])
print('group on a lists data of b:', pg.properties, [c.name for c in a.children])
ws.close()
with h5py.File('/tmp/geoh5py-verif-repro/c02.geoh5') as f:
    for k, o in f['GEOSCIENCE/Objects'].items():
        if 'PropertyGroups' in o:
            for g in o['PropertyGroups'].values():
                print(o.attrs['Name'], dict(g.attrs)['Properties'], 'children on file:', list(o['Data']))
