"""C02 item 2 (triage, documented behaviour): ObjectBase.remove_children([data]) unlinks the child under its parent on file and keeps
the node in the flat Data container while the caller still holds the entity ("inactive" entity, see the method's docstring).  If the
caller keeps its reference through close(), the orphan is in the closed file.  Exit 1 = orphan on file."""
import os, sys, tempfile
import h5py, numpy as np
from geoh5py.objects import Points
from geoh5py.workspace import Workspace

path = os.path.join(tempfile.mkdtemp(), "orphan.geoh5")
with Workspace.create(path) as ws:
    pts = Points.create(ws, vertices=np.random.rand(5, 3))
    a = pts.add_data({"a": {"values": np.random.rand(5)}})
    a_uid, pts_uid = "{%s}" % a.uid, "{%s}" % pts.uid
    pts.remove_children([a])
with h5py.File(path, "r") as h5:
    project = h5[list(h5)[0]]
    orphan = a_uid in project["Data"] and a_uid not in project["Objects"][pts_uid]["Data"]
print("orphan with the reference kept through close():", orphan)
sys.exit(1 if orphan else 0)
