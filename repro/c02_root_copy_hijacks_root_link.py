# Reproduction of a side finding reported by a red-team agent (documentation only; not run by any check).
# Copying a workspace's root group into another workspace creates a second RootGroup there; write_entity
# re-points the target file's Root link at the copy and the original root (with everything under it) is orphaned.
import tempfile, warnings
from pathlib import Path
import h5py, numpy as np
warnings.simplefilter("ignore")
from geoh5py.objects import Points
from geoh5py.workspace import Workspace
d = Path(tempfile.mkdtemp())
ws1 = Workspace.create(d / "a.geoh5"); Points.create(ws1, vertices=np.random.rand(3, 3), name="in_a")
ws2 = Workspace.create(d / "b.geoh5"); Points.create(ws2, vertices=np.random.rand(3, 3), name="in_b")
root2 = ws2.root.uid
ws1.root.copy(parent=ws2)
ws1.close(); ws2.close()
with h5py.File(d / "b.geoh5") as f:
    link = f["GEOSCIENCE/Root"].attrs["ID"]
    print("Root link of b.geoh5 still points at its own root:", str(root2) in str(link))
with Workspace(d / "b.geoh5") as ws:
    print("objects reachable after re-open:", sorted(o.name for o in ws.objects))
