# Reproduction of a finding reported by the static checks (documentation only; not run by any check).
# Run: /venv/bin/python c03_colormap_valuemap.py   (scratch files go to /tmp/geoh5py-verif-repro, delete afterwards)
import os, shutil; shutil.rmtree("/tmp/geoh5py-verif-repro", ignore_errors=True); os.makedirs("/tmp/geoh5py-verif-repro")
import numpy as np, h5py, traceback
from geoh5py import Workspace
from geoh5py.objects import Points
ws = Workspace.create('/tmp/geoh5py-verif-repro/t3.geoh5')
p = Points.create(ws, vertices=np.random.rand(4,3))
d = p.add_data({'a': {'values': np.arange(4.)}})
r = p.add_data({'r': {'values': np.array([1,2,1,2],dtype=np.int32), 'type':'referenced', 'value_map': {1:'A',2:'B'}}})
d.entity_type.color_map = np.c_[np.arange(3.), np.zeros((3,4))]
try:
    d.entity_type.color_map.values = np.c_[np.arange(3.)+10, np.ones((3,4))]
except Exception as e:
    traceback.print_exc()
try:
    d.entity_type.color_map.name = 'abc.TBL'
except Exception as e:
    traceback.print_exc()
r.value_map[2] = 'C'
print(r.value_map.map)
ws.close()
ws2 = Workspace('/tmp/geoh5py-verif-repro/t3.geoh5')
print(ws2.get_entity('a')[0].entity_type.color_map.values, ws2.get_entity('a')[0].entity_type.color_map.name)
print(ws2.get_entity('r')[0].value_map.map)
