"""C03: FilenameData.file_name = "renamed.txt" on a re-opened entity wipes the stored name. exit 1 = defect present"""
import os, sys, tempfile
import numpy as np
from geoh5py import Workspace
from geoh5py.objects import Points
d = tempfile.mkdtemp(); p = os.path.join(d, "a.geoh5")
src = os.path.join(d, "orig.txt"); open(src, "wb").write(b"hello")
with Workspace.create(p) as ws:
    pts = Points.create(ws, vertices=np.zeros((3, 3)), name="pts")
    pts.add_file(src)
with Workspace(p, mode="r+") as ws:
    f = [c for c in ws.get_entity("pts")[0].children if hasattr(c, "file_name")][0]
    f.file_name = "renamed.txt"
    mem = f.file_name
with Workspace(p, mode="r") as ws:
    f = [c for c in ws.get_entity("pts")[0].children if hasattr(c, "file_name")][0]
    stored = (f.file_name, f.values)
print("memory:", mem, " stored:", stored)
bad = stored[0] != "renamed.txt" or stored[1] != b"hello"
print("C03 VIOLATED" if bad else "OK")
sys.exit(1 if bad else 0)
