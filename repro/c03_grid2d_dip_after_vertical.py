"""C03 (fixed by 433f158): Grid2D.dip = 90 followed by dip = 30 left dip == 90 in memory and on file (the setter never cleared
the vertical flag, which shadows the stored dip in the getter).
Run: PYTHONPATH=<tree> /venv/bin/python /verif/repro/c03_grid2d_dip_after_vertical.py   (exit 1 = defect present)"""
import sys
import numpy as np, tempfile, os
from geoh5py import Workspace
from geoh5py.objects import Grid2D
d=tempfile.mkdtemp(); p=os.path.join(d,"a.geoh5")
with Workspace.create(p) as ws:
    g=Grid2D.create(ws, origin=[0,0,0], u_cell_size=1., v_cell_size=1., u_count=3, v_count=2, name="g")
    g.dip=90
    g.dip=30
    print("in memory:", g.dip, g.vertical)
with Workspace(p, mode="r") as ws:
    g=ws.get_entity("g")[0]
    print("on file  :", g.dip, g.vertical)
    sys.exit(0 if g.dip == 30.0 else 1)
