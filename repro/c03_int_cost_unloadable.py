"""(related, reader side) an integer cost written to file makes the drillhole unloadable. exit 1 = defect present"""
import os, sys, tempfile
from geoh5py import Workspace
from geoh5py.objects import Drillhole
p = os.path.join(tempfile.mkdtemp(), "a.geoh5")
with Workspace.create(p) as ws:
    dh = Drillhole.create(ws, collar=[0.0, 0.0, 0.0], name="dh")
    dh.cost = 5
try:
    with Workspace(p, mode="r") as ws:
        got = ws.get_entity("dh")[0]
        cost = None if got is None else got.cost
    print("loaded cost:", cost); bad = cost != 5
except Exception as e:
    print("load failed:", type(e).__name__, e); bad = True
print("DEFECT" if bad else "OK")
sys.exit(1 if bad else 0)
