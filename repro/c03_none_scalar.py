"""C03: assigning None to a stored scalar attribute never reaches the file (write_attributes skips None, never deletes). exit 1 = defect present"""
import os, sys, tempfile
import numpy as np
from geoh5py import Workspace
from geoh5py.objects import Points, Drillhole
p = os.path.join(tempfile.mkdtemp(), "a.geoh5")
with Workspace.create(p) as ws:
    pts = Points.create(ws, vertices=np.zeros((3, 3)), name="pts")
    d = pts.add_data({"d": {"values": np.arange(3.0)}})
    d.entity_type.units = "m"
    d.entity_type.description = "desc"
    dh = Drillhole.create(ws, collar=[0.0, 0.0, 0.0], name="dh")
    dh.end_of_hole = 10.0
with Workspace(p, mode="r+") as ws:
    d = ws.get_entity("d")[0]
    d.entity_type.units = None
    d.entity_type.description = None
    dh = ws.get_entity("dh")[0]
    dh.end_of_hole = None
    mem = (d.entity_type.units, d.entity_type.description, dh.end_of_hole)
with Workspace(p, mode="r") as ws:
    d = ws.get_entity("d")[0]
    dh = ws.get_entity("dh")[0]
    stored = (d.entity_type.units, d.entity_type.description, dh.end_of_hole)
print("memory:", mem, " stored:", stored)
# description: once the stale attribute is gone the constructor default ("Entity") is what a reader gets; not counted here
bad = [s for s in (stored[0], stored[2]) if s is not None]
print("C03 VIOLATED" if bad else "OK")
sys.exit(1 if bad else 0)
