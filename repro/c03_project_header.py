"""C03: project header fields assigned on an existing file are not persisted. exit 1 = defect present"""
import os, sys, tempfile
from geoh5py import Workspace
p = os.path.join(tempfile.mkdtemp(), "a.geoh5")
Workspace.create(p).close()
with Workspace(p, mode="r+") as ws:
    ws.distance_unit = "feet"
    ws.ga_version = "9.9"
    ws.contributors = ["alice", "bob"]
    ws.version = 2.0
with Workspace(p, mode="r") as ws:
    got = (ws.distance_unit, ws.ga_version, list(ws.contributors), float(ws.version))
want = ("feet", "9.9", ["alice", "bob"], 2.0)
print("stored:", got, "wanted:", want)
print("C03 VIOLATED" if got != want else "OK")
sys.exit(1 if got != want else 0)
