# Reproduction of a finding reported by the static checks (documentation only; not run by any check).
# Run: /venv/bin/python c03_setters_not_persisted.py   (scratch files go to /tmp/geoh5py-verif-repro, delete afterwards)
import os, shutil; shutil.rmtree("/tmp/geoh5py-verif-repro", ignore_errors=True); os.makedirs("/tmp/geoh5py-verif-repro")
import numpy as np, h5py
from geoh5py import Workspace
from geoh5py.objects import Points, Octree, DrapeModel
ws = Workspace.create('/tmp/geoh5py-verif-repro/t1.geoh5')
p = Points.create(ws, vertices=np.random.rand(4,3))
d = p.add_data({'a': {'values': np.arange(4.)}})
d.entity_type.units = 'm'
o = Octree.create(ws, u_count=4, v_count=4, w_count=4, u_cell_size=1., v_cell_size=1., w_cell_size=1.)
o.origin = [1,2,3]
ws.distance_unit = 'feet'
p.last_focus = 'xx'
ws.close()
ws2 = Workspace('/tmp/geoh5py-verif-repro/t1.geoh5')
print('units', ws2.get_entity('a')[0].entity_type.units)
print('origin', ws2.get_entity('Octree')[0].origin)
print('dist', ws2.distance_unit)
print('lf', ws2.get_entity('Points')[0].last_focus)
ws2.close()
with h5py.File('/tmp/geoh5py-verif-repro/t1.geoh5') as f:
    t = f['GEOSCIENCE/Types/Data types']
    for k in t: print(dict(t[k].attrs))
