"""C03: VisualParameters.values = "<xml>" is ignored once the xml cache is populated. exit 1 = defect present"""
import os, sys, tempfile
import numpy as np
from geoh5py import Workspace
from geoh5py.objects import Points
p = os.path.join(tempfile.mkdtemp(), "a.geoh5")
new = '<IParameterList Version="1.0"><Colour>255</Colour></IParameterList>'
with Workspace.create(p) as ws:
    pts = Points.create(ws, vertices=np.zeros((3, 3)), name="pts")
    vp = pts.add_default_visual_parameters()
    vp.colour = [10, 20, 30]          # populates the xml cache
    before = vp.values
    vp.values = new
    mem = vp.values
with Workspace(p, mode="r") as ws:
    stored = ws.get_entity("pts")[0].visual_parameters.values
print("memory:", mem, "\nstored:", stored)
bad = ("255" not in (mem or "")) or ("255" not in (stored or ""))
print("C03 VIOLATED" if bad else "OK")
sys.exit(1 if bad else 0)
