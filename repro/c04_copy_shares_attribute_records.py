# Reproduction of a C04.FRESH finding (documentation only; not run by any check).
# Concatenator.copy (cross-workspace fast path) hands the source's concatenated_attributes dict to the copy:
# removing data in the COPY drops its record from the SOURCE as well (in memory, and on file after close).
import os, shutil; shutil.rmtree("/tmp/geoh5py-verif-repro", ignore_errors=True); os.makedirs("/tmp/geoh5py-verif-repro")
import warnings; warnings.simplefilter("ignore")
import numpy as np
from geoh5py import Workspace
from geoh5py.groups import DrillholeGroup
from geoh5py.objects import Drillhole
a, b = '/tmp/geoh5py-verif-repro/a.geoh5', '/tmp/geoh5py-verif-repro/b.geoh5'
ws = Workspace.create(a)
dg = DrillholeGroup.create(ws, name="dg")
w = Drillhole.create(ws, parent=dg, collar=[0, 0, 0], surveys=np.c_[[0, 10, 20], [0, 0, 0], [-90, -90, -90]].astype(float), name='w0')
w.add_data({'a': {'depth': np.arange(5.), 'values': np.arange(5.)}, 'b': {'depth': np.arange(5.), 'values': np.arange(5.) * 2}})
n_before = len(dg.concatenated_attributes["Attributes"])
ws2 = Workspace.create(b)
dg2 = dg.copy(parent=ws2)
print("same dict object shared by source and copy:", dg2.concatenated_attributes is dg.concatenated_attributes)
w2 = dg2.children[0]
ws2.remove_entity(w2.get_data('a')[0])
print("records in the SOURCE before / after removing data in the COPY:", n_before, len(dg.concatenated_attributes["Attributes"]))
ws.close(); ws2.close()
