# Reproduction of the C04.NAMEKEY finding (documentation only; not run by any check).
# Concatenator.update_array_attribute decides "attribute of the entity" vs "values of a data set" with
# hasattr(entity, f"_{field}"), and for data `field` is the user-chosen name: a data set named "values"
# (or "surveys", "name", ...) takes the wrong branch.
import os, shutil; shutil.rmtree("/tmp/geoh5py-verif-repro", ignore_errors=True); os.makedirs("/tmp/geoh5py-verif-repro")
import warnings; warnings.simplefilter("ignore")
import numpy as np
from geoh5py import Workspace
from geoh5py.groups import DrillholeGroup
from geoh5py.objects import Drillhole
path = '/tmp/geoh5py-verif-repro/n.geoh5'
with Workspace.create(path) as ws:
    dg = DrillholeGroup.create(ws, name="dg")
    w = Drillhole.create(ws, parent=dg, collar=[0, 0, 0], surveys=np.c_[[0, 10, 20], [0, 0, 0], [-90, -90, -90]].astype(float), name='w0')
    w.add_data({"values": {'depth': np.arange(5.), 'values': np.arange(5.) + 1}})
    print("live:", w.get_data("values")[0].values)
    for bad in ("surveys", "name"):
        try:
            w.add_data({bad: {'depth': np.arange(5.), 'values': np.arange(5.)}})
        except Exception as e:
            print(f"adding data named {bad!r} ->", type(e).__name__)
try:
    with Workspace(path) as ws:
        print("re-opened:", ws.get_entity("w0")[0].get_data("values")[0].values)
except Exception as e:
    print("re-opened: reading the data named 'values' ->", type(e).__name__, str(e)[:60])
