# Reproduction of a finding reported by the static checks (documentation only; not run by any check).
# Run: /venv/bin/python c04_rename_concatenated_data.py   (scratch files go to /tmp/geoh5py-verif-repro, delete afterwards)
import os, shutil; shutil.rmtree("/tmp/geoh5py-verif-repro", ignore_errors=True); os.makedirs("/tmp/geoh5py-verif-repro")
import numpy as np, h5py
from geoh5py import Workspace
from geoh5py.groups import DrillholeGroup
from geoh5py.objects import Drillhole
ws = Workspace.create('/tmp/geoh5py-verif-repro/t2.geoh5')
dg = DrillholeGroup.create(ws)
w = Drillhole.create(ws, parent=dg, collar=[0,0,0], surveys=np.c_[[0,10,20],[0,0,0],[-90,-90,-90]].astype(float), name='w1')
w.add_data({'a': {'depth': np.arange(5.), 'values': np.arange(5.)+10}}, property_group='pg')
w2 = Drillhole.create(ws, parent=dg, collar=[0,0,0], surveys=np.c_[[0,10,20],[0,0,0],[-90,-90,-90]].astype(float), name='w2')
w2.add_data({'a': {'depth': np.arange(3.), 'values': np.arange(3.)+20}}, property_group='pg')
d = w.get_data('a')[0]
print(type(d).__mro__[:4])
d.name = 'b'
print('live', d.values, w.get_data_list())
ws.close()
ws2 = Workspace('/tmp/geoh5py-verif-repro/t2.geoh5')
w = ws2.get_entity('w1')[0]
print(w.get_data_list())
for n in w.get_data_list():
    x = w.get_data(n)
    print(n, x, x[0].values if x else None)
with h5py.File('/tmp/geoh5py-verif-repro/t2.geoh5') as f:
    g = f['GEOSCIENCE/Groups']
    for k in g:
        if 'Concatenated Data' in g[k]:
            print(list(g[k]['Concatenated Data/Data']), list(g[k]['Concatenated Data/Index']))
            for r in g[k]['Concatenated Data/Attributes Jsons'][()]: print(r)
