"""C04 (c): a concatenated data set whose name is changed by the KEY_MAP / INV_KEY_MAP round trip ('Text', 'cells', ...):
the Index dataset is written, the Data dataset is not; re-opening the file fails.  exit 1 = defect present."""
import os, sys, tempfile
import numpy as np
from geoh5py.groups import DrillholeGroup
from geoh5py.objects import Drillhole
from geoh5py.workspace import Workspace

bad = []
for data_name in ("Text", "cells"):
    path = os.path.join(tempfile.mkdtemp(), "c.geoh5")
    ws = Workspace.create(path, version=2.0)
    grp = DrillholeGroup.create(ws, name="G")
    hole = Drillhole.create(ws, parent=grp, name="h0", collar=np.r_[0.0, 0, 0], surveys=np.c_[np.linspace(0, 10, 3), np.zeros(3), -90 * np.ones(3)])
    hole.add_data({data_name: {"depth": np.arange(3.0), "values": np.r_[1.0, 2.0, 3.0]}}, property_group="pg")
    ws.close()
    try:
        with Workspace(path) as ws2:
            values = ws2.get_entity("h0")[0].get_data(data_name)[0].values
        if values is None or not np.allclose(values, [1.0, 2.0, 3.0]):
            bad.append(f"{data_name!r}: reads back {values}")
    except Exception as error:  # pylint: disable=broad-except
        bad.append(f"{data_name!r}: re-opening fails with {type(error).__name__}: {error}")
for b in bad:
    print("PROPERTY C04 VIOLATED:", b)
print("defect present" if bad else "ok")
sys.exit(1 if bad else 0)
