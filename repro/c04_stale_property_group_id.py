# Reproduction of the C04.PAIR finding for property groups (documentation only; not run by any check).
# Removing a concatenated property group leaves its uid in the group's 'Property Group IDs' list.
import os, shutil; shutil.rmtree("/tmp/geoh5py-verif-repro", ignore_errors=True); os.makedirs("/tmp/geoh5py-verif-repro")
import warnings; warnings.simplefilter("ignore")
import numpy as np, h5py
from geoh5py import Workspace
from geoh5py.groups import DrillholeGroup
from geoh5py.objects import Drillhole
ws = Workspace.create('/tmp/geoh5py-verif-repro/t5.geoh5')
dg = DrillholeGroup.create(ws)
w = Drillhole.create(ws, parent=dg, collar=[0, 0, 0], surveys=np.c_[[0, 10, 20], [0, 0, 0], [-90, -90, -90]].astype(float), name='w0')
w.add_data({'a': {'depth': np.arange(5.), 'values': np.arange(5.)}}, property_group='pg')
pg = w.property_groups[0]
uid = pg.uid
print("before:", dg.property_group_ids)
ws.remove_entity(pg)
print("after removal, hole property groups:", w.property_groups, "| group's id list still holds the uid:", any(str(uid) in str(x) for x in (dg.property_group_ids or [])))
ws.close()
with h5py.File('/tmp/geoh5py-verif-repro/t5.geoh5') as f:
    g = f['GEOSCIENCE/Groups']
    for k in g:
        if 'Concatenated Data' in g[k]:
            c = g[k]['Concatenated Data']
            print("on file:", {n: c['Data'][n][()] for n in c['Data'] if 'Group' in n}, {n: c['Index'][n][()] for n in c['Index'] if 'Group' in n})
