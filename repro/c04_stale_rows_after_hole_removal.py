# Reproduction of a finding reported by the static checks (documentation only; not run by any check).
# Run: /venv/bin/python c04_stale_rows_after_hole_removal.py   (scratch files go to /tmp/geoh5py-verif-repro, delete afterwards)
import os, shutil; shutil.rmtree("/tmp/geoh5py-verif-repro", ignore_errors=True); os.makedirs("/tmp/geoh5py-verif-repro")
import numpy as np, h5py
from geoh5py import Workspace
from geoh5py.groups import DrillholeGroup
from geoh5py.objects import Drillhole
ws = Workspace.create('/tmp/geoh5py-verif-repro/t4.geoh5')
dg = DrillholeGroup.create(ws)
hs=[]
for i in range(3):
    w = Drillhole.create(ws, parent=dg, collar=[i,0,0], surveys=np.c_[[0,10,20],[0,0,0],[-90,-90,-90]].astype(float), name=f'w{i}')
    w.add_data({'a': {'depth': np.arange(5.), 'values': np.arange(5.)+10*i}}, property_group='pg')
    hs.append(w)
ws.remove_entity(hs[1])
ws.close()
with h5py.File('/tmp/geoh5py-verif-repro/t4.geoh5') as f:
    g = f['GEOSCIENCE/Groups']
    for k in g:
        if 'Concatenated Data' in g[k]:
            c = g[k]['Concatenated Data']
            print(g[k]['Concatenated object IDs'][()])
            for n in c['Index']:
                print(n, c['Index'][n][()])
            print(len(c['Attributes Jsons'][()]))
