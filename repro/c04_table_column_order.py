"""C04 (d): DrillholesGroupTable.depth_table_by_name(('b', 'a')) labels the columns ('b', 'a') but fills them in the order of
the property group.  exit 1 = defect present."""
import os, sys, tempfile
import numpy as np
from geoh5py.groups import DrillholeGroup
from geoh5py.objects import Drillhole
from geoh5py.workspace import Workspace

path = os.path.join(tempfile.mkdtemp(), "d.geoh5")
ws = Workspace.create(path, version=2.0)
grp = DrillholeGroup.create(ws, name="G")
hole = Drillhole.create(ws, parent=grp, name="h0", collar=np.r_[0.0, 0, 0], surveys=np.c_[np.linspace(0, 10, 3), np.zeros(3), -90 * np.ones(3)])
hole.add_data({"a": {"depth": np.arange(3.0), "values": np.r_[0.0, 1.0, 2.0]}, "b": {"depth": np.arange(3.0), "values": np.r_[100.0, 101.0, 102.0]}}, property_group="pg")
table = grp.drillholes_tables["pg"].depth_table_by_name(("b", "a"))
ws.close()
ok = list(table["b"]) == [100.0, 101.0, 102.0] and list(table["a"]) == [0.0, 1.0, 2.0]
if not ok:
    print("PROPERTY C04 VIOLATED: columns", table.dtype.names, "column 'b' lists", list(table["b"]), "column 'a' lists", list(table["a"]))
print("ok" if ok else "defect present")
sys.exit(0 if ok else 1)
