"""C05 / item E (+ the same defect on concatenated objects): x.remove_children(x.children) — the request IS self._children.
exit 1 = defect present."""
import sys, tempfile
from pathlib import Path
import numpy as np
from geoh5py.groups import DrillholeGroup
from geoh5py.objects import Drillhole, Points
from geoh5py.workspace import Workspace

bad = []
tmp = Path(tempfile.mkdtemp())
with Workspace.create(tmp / "e.geoh5") as ws:
    pts = Points.create(ws, name="pts", vertices=np.random.rand(5, 3))
    pts.add_data({n: {"values": np.arange(5.0)} for n in "abcd"})
    pts.remove_children(pts.children)
    left = [c.name for c in pts.children]
    if left:
        bad.append(f"ObjectBase: still listed in memory: {left}")
with Workspace(tmp / "e.geoh5") as ws:
    left = sorted(c.name for c in ws.get_entity("pts")[0].children)
    if left:
        bad.append(f"ObjectBase: listed again after re-opening: {left}")

with Workspace.create(tmp / "h.geoh5", version=2.0) as ws:
    g = DrillholeGroup.create(ws, name="DH")
    w = Drillhole.create(ws, parent=g, name="w", collar=np.r_[0.0, 0.0, 0.0],
                         surveys=np.c_[np.linspace(0, 100, 5), np.ones(5) * 45.0, np.ones(5) * -80.0])
    for n in "abcd":
        w.add_data({n: {"association": "OBJECT", "values": np.arange(3.0)}})
    before = [c.name for c in w.children]
    w.remove_children(w.children)
    left = [getattr(c, "name", c) for c in w.children]
    if left:
        bad.append(f"ConcatenatedObject: of {before} still listed in memory: {left}")
for b in bad:
    print("DEFECT:", b)
print("ok" if not bad else f"{len(bad)} defect(s)")
sys.exit(1 if bad else 0)
