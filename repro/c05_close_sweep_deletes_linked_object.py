"""C05 / C09 (regression of repair 24a60de, taken back by 50664af): Workspace.close swept every dead reference.

A regular object created under a drillhole group is not kept among the group's children in memory (Concatenator.add_children only
keeps concatenated children), so it has no live reference once the caller drops it — although it is still linked under the group in the
file.  With the close-time sweep, a writable open + close deleted its flat node and left a dangling link under the group.
Run: PYTHONPATH=<tree> /venv/bin/python /verif/repro/c05_close_sweep_deletes_linked_object.py   (exit 1 = defect present)
"""
import gc
import os
import sys
import tempfile

import h5py
import numpy as np

from geoh5py import Workspace
from geoh5py.groups import DrillholeGroup
from geoh5py.objects import Points

path = os.path.join(tempfile.mkdtemp(), "dh.geoh5")
with Workspace.create(path) as ws:
    group = DrillholeGroup.create(ws, name="DH")
    pts = Points.create(ws, name="collars", vertices=np.random.rand(4, 3), parent=group)
    uid = str(pts.uid)
    del pts
gc.collect()
with Workspace(path, mode="r+") as ws:  # a writable session that touches nothing
    pass
with h5py.File(path, "r") as h5:
    project = h5[list(h5)[0]]
    present = any(uid in key for key in project["Objects"])
print("flat node of the object linked under the drillhole group still in the file:", present)
sys.exit(0 if present else 1)
