"""C05 / item B (third part): removing a concatenated drillhole leaves the rows of its own arrays (Surveys / Trace) in the
concatenated data and index of the drillhole group: on file after re-opening, even once the hole is gone from the group's children.
exit 1 = defect present."""
import gc, sys, tempfile
from pathlib import Path
import numpy as np
from geoh5py.groups import DrillholeGroup
from geoh5py.objects import Drillhole
from geoh5py.workspace import Workspace

tmp = Path(tempfile.mkdtemp())
with Workspace.create(tmp / "b.geoh5", version=2.0) as ws:
    g = DrillholeGroup.create(ws, name="DH")
    ft = np.c_[np.arange(0.0, 5.0), np.arange(1.0, 6.0)]
    for i in range(3):
        w = Drillhole.create(ws, parent=g, name=f"w{i}", collar=np.r_[i, 0.0, 0.0],
                             surveys=np.c_[np.linspace(0, 100, 5), np.ones(5) * 45.0, np.ones(5) * -80.0])
        w.add_data({"intB": {"from-to": ft, "values": np.arange(5.0) + 1000 * i}}, property_group="pgB")
bad = []
with Workspace(tmp / "b.geoh5") as ws:
    g = ws.get_entity("DH")[0]
    w1 = ws.get_entity("w1")[0]
    uid = w1.uid
    n_before = len(g.data["Surveys"])
    g.remove_children(w1)
    if w1 in g._children:  # the separate, known defect (C05.SIBLING): keep it from re-saving the hole at close
        g._children.remove(w1)
    del w1
    gc.collect()
    oid = ("{%s}" % uid).encode()
    if oid in list(g.index["Surveys"]["Object ID"]):
        bad.append("in session: index['Surveys'] still has the rows of the removed hole")
with Workspace(tmp / "b.geoh5") as ws:
    g = ws.get_entity("DH")[0]
    if oid in list(g.index["Surveys"]["Object ID"]):
        bad.append(f"after re-opening: index['Surveys'] still has the removed hole ({len(g.data['Surveys'])} of {n_before} survey rows kept)")
    # the survivors are intact
    for name in ("w0", "w2"):
        w = ws.get_entity(name)[0]
        if w is None or w.surveys is None or len(w.surveys) < 5:
            bad.append(f"survivor {name} lost its surveys")
for b in bad:
    print("DEFECT:", b)
print("ok" if not bad else f"{len(bad)} defect(s)")
sys.exit(1 if bad else 0)
