# Reproduction of a finding reported by the static checks (documentation only; not run by any check).
# Run: /venv/bin/python c05_iterate_while_removing.py   (scratch files go to /tmp/geoh5py-verif-repro, delete afterwards)
import os, shutil; shutil.rmtree("/tmp/geoh5py-verif-repro", ignore_errors=True); os.makedirs("/tmp/geoh5py-verif-repro")
import numpy as np, h5py
from geoh5py import Workspace
from geoh5py.objects import Points
ws = Workspace.create('/tmp/geoh5py-verif-repro/t5.geoh5')
p = Points.create(ws, vertices=np.random.rand(4,3))
ds = [p.add_data({f'd{i}': {'values': np.arange(4.)}}) for i in range(4)]
g1 = p.add_data_to_group(ds[0], 'g1')
g2 = p.add_data_to_group(ds[0], 'g2')
p.add_data_to_group(ds[1], 'g2')
print([ (g.name, g.properties) for g in p.property_groups])
p.remove_children([ds[0]])
print('after remove d0:', [ (g.name, [str(u)[:4] for u in g.properties]) for g in p.property_groups], 'd0=', str(ds[0].uid)[:4])
q = Points.create(ws, vertices=np.random.rand(4,3), name='q')
qs = [q.add_data({f'e{i}': {'values': np.arange(4.)}}) for i in range(4)]
ws.remove_entity(q)
print('q children after removal', [c.name for c in q.children])
del q, qs
ws.close()
with h5py.File('/tmp/geoh5py-verif-repro/t5.geoh5') as f:
    print('Data on file:', len(f['GEOSCIENCE/Data']), 'Objects:', len(f['GEOSCIENCE/Objects']))
    for k,o in f['GEOSCIENCE/Objects'].items():
        if 'PropertyGroups' in o:
            for pg in o['PropertyGroups'].values(): print(dict(pg.attrs))
