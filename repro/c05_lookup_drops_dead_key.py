"""C05 / item D (second half): a lookup by uid (weakref_utils.get_clean_ref) forgets the dead key of a removed entity WITHOUT
deleting its node, so no later sweep can delete it.  exit 1 = defect present."""
import gc, sys, tempfile
from pathlib import Path
import numpy as np
from geoh5py.objects import Points
from geoh5py.workspace import Workspace

bad = []
tmp = Path(tempfile.mkdtemp())
with Workspace.create(tmp / "d2.geoh5") as ws:
    pts = Points.create(ws, name="pts", vertices=np.random.rand(5, 3))
    a = pts.add_data({"a": {"values": np.arange(5.0)}})
    uid = a.uid
    pts.remove_children(a)
    del a
    gc.collect()
    ws.get_entity(uid)  # a lookup of the removed entity ...
    _ = ws.data  # ... then the listing that is supposed to sweep
with Workspace(tmp / "d2.geoh5") as ws:
    if ws.load_entity(uid, "data") is not None:
        bad.append("D2: a lookup by uid before the listing dropped the dead key without deleting the node: still on file after the sweep")
for b in bad:
    print("DEFECT:", b)
print("ok" if not bad else f"{len(bad)} defect(s)")
sys.exit(1 if bad else 0)
