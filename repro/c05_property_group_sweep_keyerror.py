"""C05 (fixed by a6f0147): after a property group was removed and collected, Workspace.property_groups raised KeyError.

Workspace.remove_none_referents(self._property_groups, "PropertyGroups") asked H5Writer.remove_entity to delete the dead uid from
<project>/PropertyGroups — a container the file layout does not have (property groups live under their object).
Run: PYTHONPATH=<tree> /venv/bin/python /verif/repro/c05_property_group_sweep_keyerror.py   (exit 1 = defect present)
"""
import gc
import os
import sys
import tempfile

import numpy as np

from geoh5py import Workspace
from geoh5py.objects import Points

d = tempfile.mkdtemp()
with Workspace.create(os.path.join(d, "a.geoh5")) as ws:
    pts = Points.create(ws, vertices=np.random.rand(4, 3))
    a = pts.add_data({"a": {"values": np.arange(4.0)}})
    pg = pts.create_property_group(name="g", properties=[a.uid])
    pts.remove_children([pg])
    del pg
    gc.collect()
    try:
        names = [g.name for g in ws.property_groups]
    except KeyError as e:
        print("DEFECT: Workspace.property_groups raised", e)
        sys.exit(1)
    print("property groups after removal:", names)
    sys.exit(0 if names == [] else 1)
