"""C05 / item D (first half): removal through the parent leaves the deletion of the node to the weak-reference sweep, but the
sweep of Data / Objects never runs when the file is closed without a listing call: the node stays on file and is found by uid
after re-opening.  exit 1 = defect present."""
import gc, sys, tempfile
from pathlib import Path
import numpy as np
from geoh5py.objects import Points
from geoh5py.workspace import Workspace

bad = []
tmp = Path(tempfile.mkdtemp())
with Workspace.create(tmp / "d1.geoh5") as ws:
    pts = Points.create(ws, name="pts", vertices=np.random.rand(5, 3))
    a = pts.add_data({"a": {"values": np.arange(5.0)}})
    uid = a.uid
    pts.remove_children(a)
    del a
    gc.collect()
with Workspace(tmp / "d1.geoh5") as ws:
    if ws.load_entity(uid, "data") is not None or [e for e in ws.get_entity(uid) if e is not None]:
        bad.append("D1: data removed through its parent is still found by uid after re-opening (no sweep at close)")

for b in bad:
    print("DEFECT:", b)
print("ok" if not bad else f"{len(bad)} defect(s)")
sys.exit(1 if bad else 0)
