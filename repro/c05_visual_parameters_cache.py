"""C05 / item C: obj.remove_children(obj.visual_parameters) leaves the child in obj._visual_parameters: after the caller dropped
its references the object still returns it and the workspace still finds it by uid.  exit 1 = defect present."""
import gc, sys, tempfile
from pathlib import Path
import numpy as np
from geoh5py.groups import DrillholeGroup
from geoh5py.objects import Drillhole, Points
from geoh5py.workspace import Workspace

bad = []
tmp = Path(tempfile.mkdtemp())
with Workspace.create(tmp / "c.geoh5") as ws:
    pts = Points.create(ws, vertices=np.random.rand(4, 3))
    vp = pts.add_default_visual_parameters()
    uid = vp.uid
    pts.remove_children(vp)
    del vp
    gc.collect()
    if pts.visual_parameters is not None:
        bad.append("Points: obj.visual_parameters still returns the removed child")
    if [e for e in ws.get_entity(uid) if e is not None]:
        bad.append("Points: workspace.get_entity(uid) still yields the removed child")
try:
    with Workspace.create(tmp / "h.geoh5", version=2.0) as ws:
        g = DrillholeGroup.create(ws, name="DH")
        w = Drillhole.create(ws, parent=g, name="w", collar=np.r_[0.0, 0.0, 0.0],
                             surveys=np.c_[np.linspace(0, 100, 5), np.ones(5) * 45.0, np.ones(5) * -80.0])
        vp = w.add_default_visual_parameters()
        if vp is not None:
            w.remove_children(vp)
            del vp
            gc.collect()
            if w.visual_parameters is not None:
                bad.append("ConcatenatedDrillhole: obj.visual_parameters still returns the removed child")
        else:
            print("note: concatenated drillhole: add_default_visual_parameters returned None")
except Exception as exc:  # the concatenated variant is secondary
    print("note: concatenated variant not exercised:", repr(exc)[:200])
for b in bad:
    print("DEFECT:", b)
print("ok" if not bad else f"{len(bad)} defect(s)")
sys.exit(1 if bad else 0)
