# Reproduction of a finding reported by the static checks (documentation only; not run by any check).
# Run: /venv/bin/python c05_workspace_remove_concatenated.py   (scratch files go to /tmp/geoh5py-verif-repro, delete afterwards)
import os, shutil; shutil.rmtree("/tmp/geoh5py-verif-repro", ignore_errors=True); os.makedirs("/tmp/geoh5py-verif-repro")
import numpy as np, h5py
from geoh5py import Workspace
from geoh5py.groups import DrillholeGroup
from geoh5py.objects import Drillhole
ws = Workspace.create('/tmp/geoh5py-verif-repro/t6.geoh5')
dg = DrillholeGroup.create(ws)
w = Drillhole.create(ws, parent=dg, collar=[0,0,0], surveys=np.c_[[0,10,20],[0,0,0],[-90,-90,-90]].astype(float), name='w')
w.add_data({'a': {'depth': np.arange(5.), 'values': np.arange(5.)}, 'b': {'depth': np.arange(5.), 'values': np.arange(5.)}}, property_group='pg')
a = w.get_data('a')[0]
ws.remove_entity(a)
print('children after ws.remove_entity(a):', [c.name for c in w.children], w.get_data_list())
b = w.get_data('b')[0]
w.remove_children([b])
print('children after w.remove_children(b):', [c.name for c in w.children], w.get_data_list())
ws.remove_entity(w)
print('dg children after ws.remove_entity(w):', [c.name for c in dg.children])
