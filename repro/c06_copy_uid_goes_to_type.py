"""C06: copy with a caller-supplied identifier.  `entity.copy(uid=X)` applies X to the copy AND to its entity type
(copy_to_parent overrides every key the two attribute dictionaries share with the kwargs): an object copy is not made at all
(None returned: no object class owns type X), a data copy gets a brand-new data type whose uid equals the data's uid.
exit 1 = defect present."""
import sys, tempfile, uuid, warnings
from pathlib import Path
import numpy as np
from geoh5py.objects import Points
from geoh5py.workspace import Workspace

warnings.simplefilter("ignore")
tmp = Path(tempfile.mkdtemp())
bad = []
with Workspace.create(tmp / "a.geoh5") as ws:
    p = Points.create(ws, vertices=np.random.rand(4, 3), name="p")
    d = p.add_data({"d": {"values": np.arange(4.0)}})
    x, y = uuid.uuid4(), uuid.uuid4()
    c = p.copy(uid=x, copy_children=False)
    if c is None:
        bad.append("object.copy(uid=X) made no copy (returned None)")
    else:
        if c.uid != x:
            bad.append("object copy did not get the requested identifier")
        if c.entity_type is not p.entity_type:
            bad.append("object copy does not share the type of its class")
    e = d.copy(uid=y)
    if e is None or e.uid != y:
        bad.append("data.copy(uid=Y) did not give the requested identifier")
    elif e.entity_type.uid == y or e.entity_type is not d.entity_type and e.entity_type.uid != d.entity_type.uid:
        bad.append(f"data copy got a new data type with uid {e.entity_type.uid} (the data's own uid: {e.entity_type.uid == y})")
    if ws.find_type(x, type(p.entity_type).__mro__[1]) is not None or any(t.uid in (x, y) for t in ws.types):
        bad.append("a type was registered under the identifier requested for the copy")
for b in bad:
    print("C06 DEFECT:", b)
sys.exit(1 if bad else 0)
