"""C06: copying a drillhole group (concatenated objects) twice into the same other workspace.
The second copy must get fresh identifiers for what is already in use there (or keep those that are free);
instead the fast path hands every concatenated identifier over unchecked: the copy is refused half-way
(RuntimeError) and an empty duplicate group is left in the target.   exit 1 = defect present."""
import sys, tempfile, warnings
from pathlib import Path
import numpy as np
from geoh5py.groups import DrillholeGroup
from geoh5py.objects import Drillhole
from geoh5py.workspace import Workspace

warnings.simplefilter("ignore")
tmp = Path(tempfile.mkdtemp())
bad = []
with Workspace.create(tmp / "a.geoh5") as wa, Workspace.create(tmp / "b.geoh5") as wb:
    dg = DrillholeGroup.create(wa, name="dg")
    well = Drillhole.create(wa, parent=dg, name="w", collar=[0, 0, 0],
                            surveys=np.c_[np.linspace(0, 10, 5), np.ones(5) * 45, np.ones(5) * -89])
    well.add_data({"assay": {"depth": np.linspace(0, 10, 5), "values": np.arange(5.0)}})
    first = dg.copy(parent=wb)
    if [c.uid for c in first.children] != [well.uid]:
        bad.append("first copy into an empty workspace did not keep the identifiers")
    try:
        second = dg.copy(parent=wb)
    except RuntimeError as err:
        bad.append(f"second copy refused half-way: {err}; groups left in target: {[g.name for g in wb.groups]}")
    else:
        uids = [o.uid for o in wb.objects]
        if len(set(uids)) != len(uids) or len(uids) != 2:
            bad.append(f"objects of the target after two copies: {uids}")
        names = [o.get_data_list() for o in wb.objects]
        if any("assay" not in n for n in names):
            bad.append(f"data of the copies: {names}")
for b in bad:
    print("C06 DEFECT:", b)
sys.exit(1 if bad else 0)
