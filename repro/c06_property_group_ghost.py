# Reproduction of a C06.EFFECT finding (documentation only; not run by any check).
# A refused PropertyGroup creation (explicit uid already in use) leaves a ghost group in the parent's list.
import warnings

import numpy as np

warnings.simplefilter("ignore")
from geoh5py.objects import Points
from geoh5py.workspace import Workspace

ws = Workspace()
p = Points.create(ws, vertices=np.random.rand(4, 3))
p2 = Points.create(ws, vertices=np.random.rand(4, 3))
g = p.find_or_create_property_group(name="g1")
try:
    p2.create_property_group(name="g2", uid=g.uid)
except RuntimeError as e:
    print("refused:", e)
print("p2.property_groups after the refused creation:", [x.name for x in (p2.property_groups or [])])
