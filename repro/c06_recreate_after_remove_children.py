"""C06 triage (d): remove a data from its parent, let it die, re-create a data under the same caller-supplied identifier.
With remove_children (documented: "the target entities remain present on file") the old record answers after re-opening;
with remove_entity the new one does.  exit 1 = the identifier gives the OLD record after re-open (remove_children variant)."""
import gc, sys, tempfile, warnings
from pathlib import Path
import numpy as np
from geoh5py.objects import Points
from geoh5py.workspace import Workspace
warnings.simplefilter("ignore")
out = {}
for how in ("remove_children", "remove_entity"):
    tmp = Path(tempfile.mkdtemp())
    ws = Workspace.create(tmp / "a.geoh5")
    p = Points.create(ws, vertices=np.random.rand(4, 3), name="p")
    d = p.add_data({"d": {"values": np.arange(4.0)}})
    x = d.uid
    if how == "remove_children":
        p.remove_children([d])
    else:
        ws.remove_entity(d)
    del d; gc.collect()
    p.add_data({"new": {"values": np.ones(4) * 7, "uid": x}})
    ws.close()
    with Workspace(tmp / "a.geoh5", mode="r") as ws2:
        r = ws2.get_entity(x)[0]
        out[how] = (r.name, list(r.values))
        print(how, "->", out[how])
sys.exit(1 if out["remove_children"][0] != "new" else 0)
