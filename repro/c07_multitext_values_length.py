"""C07 (c'): MultiTextData.values stores an array of any length for a VERTEX association.  exit 1 = defect present."""
import os, sys, tempfile, warnings
import numpy as np
from geoh5py.objects import Points
from geoh5py.workspace import Workspace

warnings.simplefilter("ignore")
p = os.path.join(tempfile.mkdtemp(), "m.geoh5")
xyz = np.arange(18.0).reshape(6, 3)
with Workspace.create(p) as ws:
    pts = Points.create(ws, name="p", vertices=xyz)
    try:
        m = pts.add_data({"m": {"values": np.array(["a;b"] * 9, dtype=object), "association": "VERTEX", "type": "MULTI_TEXT"}})
    except Exception as exc:
        print("could not create multi-text data through add_data:", repr(exc)); sys.exit(0)
    print(type(m).__name__, "n_values", m.n_values, "len(values)", len(m.values))
    sys.exit(1 if type(m).__name__ == "MultiTextData" and len(m.values) != m.n_values else 0)
