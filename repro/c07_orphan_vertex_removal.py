"""C07 (a): removing a vertex that no cell uses from a curve raises AFTER the vertices and vertex data were rewritten;
the cells are never renumbered: they reference a vertex that no longer exists.  exit 1 = defect present."""
import os, sys, tempfile, warnings
import numpy as np
from geoh5py.objects import Curve
from geoh5py.workspace import Workspace

warnings.simplefilter("ignore")
p = os.path.join(tempfile.mkdtemp(), "a.geoh5")
xyz = np.arange(18.0).reshape(6, 3)
cells = np.array([[0, 1], [3, 4], [4, 5]])
raised = None
with Workspace.create(p) as ws:
    c = Curve.create(ws, name="c", vertices=xyz, cells=cells)
    c.add_data({"v": {"values": np.arange(6.0), "association": "VERTEX"}, "k": {"values": np.arange(3.0), "association": "CELL"}})
    before = xyz[c.cells].copy()
    try:
        c.remove_vertices([2])  # vertex 2 is used by no cell
    except Exception as exc:  # noqa
        raised = exc
with Workspace(p) as ws:
    c = ws.get_entity("c")[0]
    ok = (c.cells.max() < c.n_vertices and np.allclose(c.vertices[c.cells], before)
          and len(c.get_data("v")[0].values) == c.n_vertices and len(c.get_data("k")[0].values) == c.n_cells)
    print("raised:", repr(raised), "| n_vertices", c.n_vertices, "cells", c.cells.tolist(), "| consistent:", ok)
sys.exit(0 if ok else 1)
