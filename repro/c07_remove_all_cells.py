"""C07 (b) [outside the stated quantifier: 'all-but-one' is the extreme it names]: after removing EVERY cell of a curve that has
CELL data the data cannot be read back (H5Reader.fetch_values indexes values[0] of an empty dataset).  exit 1 = defect present."""
import os, sys, tempfile, warnings
import numpy as np
from geoh5py.objects import Curve
from geoh5py.workspace import Workspace

warnings.simplefilter("ignore")
p = os.path.join(tempfile.mkdtemp(), "b.geoh5")
xyz = np.arange(18.0).reshape(6, 3)
with Workspace.create(p) as ws:
    c = Curve.create(ws, name="c", vertices=xyz)
    c.add_data({"dc": {"values": np.arange(5.0), "association": "CELL"}})
    c.remove_cells([0, 1, 2, 3, 4])
with Workspace(p) as ws:
    c = ws.get_entity("c")[0]
    try:
        v = c.get_data("dc")[0].values
        print("read back", v, "n_cells", c.n_cells)
        sys.exit(0 if v is None or len(v) == c.n_cells else 1)
    except Exception as exc:
        print("reading cell data raised", repr(exc))
        sys.exit(1)
