"""C07 (d): the 'fewer values' refusal of the vertices / cells setters looks at the cached array only: on an object that was
just opened (geometry not read yet) a shorter geometry is accepted and the data keep their old length.  exit 1 = defect present."""
import os, sys, tempfile, warnings
import numpy as np
from geoh5py.objects import Curve, Points
from geoh5py.workspace import Workspace

warnings.simplefilter("ignore")
d = tempfile.mkdtemp()
xyz = np.arange(18.0).reshape(6, 3)
bad = []
p = os.path.join(d, "d.geoh5")
with Workspace.create(p) as ws:
    pts = Points.create(ws, name="p", vertices=xyz)
    pts.add_data({"v": {"values": np.arange(6.0), "association": "VERTEX"}})
    cur = Curve.create(ws, name="c", vertices=xyz)
    cur.add_data({"k": {"values": np.arange(5.0), "association": "CELL"}})
    for obj, attr, new in ((pts, "vertices", xyz[:3]), (cur, "cells", cur.cells[:2])):
        try:
            setattr(obj, attr, new)
            bad.append(f"loaded {attr}: accepted")
        except ValueError:
            pass  # refused while the geometry is cached: the intended behaviour
with Workspace(p) as ws:
    pts, cur = ws.get_entity("p")[0], ws.get_entity("c")[0]
    for obj, attr, new, data in ((pts, "vertices", xyz[:3], "v"), (cur, "cells", np.array([[0, 1], [1, 2]]), "k")):
        try:
            setattr(obj, attr, new)
        except ValueError:
            continue
        n = getattr(obj, "n_" + attr)
        stored = len(ws.fetch_values(obj.get_data(data)[0]))
        print(f"freshly opened: {attr} shrunk to {n} rows without refusal; {data} still has {stored} values")
        bad.append(attr)
print("DEFECT" if bad else "ok", bad)
sys.exit(1 if bad else 0)
