"""C07 (c): TextData.values has no length handling: a VERTEX-associated text channel on 6 vertices accepts 9 values (not
refused) and 2 values (not padded); both are written and read back with the wrong length.  exit 1 = defect present."""
import os, sys, tempfile, warnings
import numpy as np
from geoh5py.objects import Points
from geoh5py.workspace import Workspace

warnings.simplefilter("ignore")
d = tempfile.mkdtemp()
xyz = np.arange(18.0).reshape(6, 3)
bad = []
for n in (9, 2):
    p = os.path.join(d, f"c{n}.geoh5")
    with Workspace.create(p) as ws:
        pts = Points.create(ws, name="p", vertices=xyz)
        t = pts.add_data({"t": {"values": np.array(list("abcdef")), "association": "VERTEX"}})
        try:
            t.values = np.array(["x"] * n)
        except ValueError:
            continue  # refused: fine for the longer array
    with Workspace(p) as ws:
        pts = ws.get_entity("p")[0]
        got = len(pts.get_data("t")[0].values)
        print(f"assigned {n} text values on {pts.n_vertices} vertices -> read back {got}")
        if got != pts.n_vertices:
            bad.append(n)
print("DEFECT" if bad else "ok", bad)
sys.exit(1 if bad else 0)
