"""C08: a value-map key above 2**32-1 passes ReferenceValueMap's validation and wraps in the '<u4' field written by
H5Writer.write_value_map (np.int64(2**32 + 2) is stored as key 2).  exit 1 = defect present, exit 0 = the key is rejected (or kept)."""
import sys, tempfile, warnings
from pathlib import Path

import numpy as np

from geoh5py.objects import Points
from geoh5py.workspace import Workspace

warnings.simplefilter("ignore")
big = np.int64(2**32 + 2)
path = Path(tempfile.mkdtemp()) / "vm.geoh5"
try:
    with Workspace.create(path) as ws:
        pts = Points.create(ws, vertices=np.random.randn(4, 3), name="pts")
        pts.add_data({"ref": {"type": "referenced", "values": np.array([1, 2, 1, 2]), "value_map": {1: "a", big: "overflowing key"}}})
except (KeyError, ValueError, OverflowError, TypeError) as exc:
    print("rejected:", type(exc).__name__, exc)
    sys.exit(0)
with Workspace(path, mode="r") as ws:
    stored = ws.get_entity("ref")[0].value_map.map
print("read back:", stored)
if int(big) in stored and stored[int(big)] == "overflowing key":
    sys.exit(0)
print("DEFECT: label 'overflowing key' written under key", int(big), "is read back under key", [k for k, v in stored.items() if v == "overflowing key"])
sys.exit(1)
