# Reproduction of a C09.HANDLE finding (documentation only; not run by any check).
# H5Writer.fetch_handle returns the PROJECT group for any entity whose name equals the project name:
# renaming a group to "GEOSCIENCE" writes that group's attributes (ID, Name, flags) onto the project header.
import tempfile, warnings
from pathlib import Path

import h5py

warnings.simplefilter("ignore")
from geoh5py.groups import ContainerGroup
from geoh5py.workspace import Workspace

path = Path(tempfile.mkdtemp()) / "p.geoh5"
with Workspace.create(path) as ws:
    g = ContainerGroup.create(ws, name="plain")
    before = None
with h5py.File(path) as f:
    before = dict(f["GEOSCIENCE"].attrs)
with Workspace(path) as ws:
    g = ws.get_entity("plain")[0]
    g.name = "GEOSCIENCE"   # same as the project group's name
    g.public = False
with h5py.File(path) as f:
    after = dict(f["GEOSCIENCE"].attrs)
    node = dict(f["GEOSCIENCE/Groups"][list(k for k in f["GEOSCIENCE/Groups"] if k != list(f["GEOSCIENCE/Groups"])[0] or True)[0]].attrs)
print("project header before:", sorted(before))
print("project header after :", sorted(after))
print("header gained entity attributes:", sorted(set(after) - set(before)))
