"""C09 (PREEXISTING item 1) — the dead-reference sweep of the type registry deletes, from the FILE, data types that stored
concatenated data still point to.

A drillhole group is copied into another workspace (fast path of Concatenator.copy: the data types are saved, but only a weak
reference to them is kept: the concatenated data that use them are not instantiated).  Removing an UNRELATED entity of the
target workspace in the same session ends with `remove_none_referents(self._types, "Types")`, which purges the collected
types from the file.  exit 1 = defect present."""
import gc
import sys
import tempfile
from pathlib import Path

import numpy as np

from geoh5py.groups import DrillholeGroup
from geoh5py.objects import Drillhole, Points
from geoh5py.workspace import Workspace

d = Path(tempfile.mkdtemp())
with Workspace.create(d / "one.geoh5") as ws1:
    dhg = DrillholeGroup.create(ws1, name="DH")
    a = Drillhole.create(ws1, name="A", parent=dhg, collar=[0, 0, 0], surveys=np.c_[[0, 10], [0, 0], [-90, -90]])
    a.add_data({"Au": {"values": np.r_[1.0, 2.0, 3.0], "depth": np.r_[1.0, 2.0, 3.0]}})
    with Workspace.create(d / "two.geoh5") as ws2:
        pts = Points.create(ws2, vertices=np.zeros((2, 3)), name="pts")
        dhg.copy(parent=ws2)
        gc.collect()
        before = sorted(ws2.geoh5["GEOSCIENCE/Types/Data types"].keys())
        ws2.remove_entity(pts)  # has nothing to do with the drillholes
        after = sorted(ws2.geoh5["GEOSCIENCE/Types/Data types"].keys())
print("data types stored before the removal of 'pts':", len(before), "after:", len(after))
ok = after == before
if ok:
    with Workspace(d / "two.geoh5", mode="r") as ws:
        print("copied values:", ws.get_entity("A")[0].get_data("Au")[0].values)
else:
    print("DEFECT: removing 'pts' deleted data types the copied drillhole data refer to")
sys.exit(0 if ok else 1)
