"""C09 (PREEXISTING item 3) — A.remove_children([<property group of B>]) changes nothing in memory (the group is not a
child of A) but deletes B's property group from the file: Workspace.remove_children does not consult the parent it is given
when the child is a property group.  exit 1 = defect present."""
import sys
import tempfile
from pathlib import Path

import numpy as np

from geoh5py.objects import Points
from geoh5py.workspace import Workspace

p = Path(tempfile.mkdtemp()) / "t.geoh5"
with Workspace.create(p) as ws:
    a = Points.create(ws, vertices=np.random.randn(4, 3), name="A")
    b = Points.create(ws, vertices=np.random.randn(4, 3), name="B")
    b.add_data_to_group(b.add_data({"x": {"values": np.arange(4.0)}}), "grp_b")
with Workspace(p) as ws:
    a, b = ws.get_entity("A")[0], ws.get_entity("B")[0]
    a.remove_children([b.get_property_group("grp_b")[0]])
    print("in memory, B's groups:", [g.name for g in b.property_groups])
with Workspace(p, mode="r") as ws:
    on_file = [g.name for g in (ws.get_entity("B")[0].property_groups or [])]
print("on file,   B's groups:", on_file)
if on_file != ["grp_b"]:
    print("DEFECT: an operation on A removed B's property group from the file")
    sys.exit(1)
# the legitimate request still works
with Workspace(p) as ws:
    b = ws.get_entity("B")[0]
    b.remove_children([b.get_property_group("grp_b")[0]])
with Workspace(p, mode="r") as ws:
    left = [g.name for g in (ws.get_entity("B")[0].property_groups or [])]
print("after B.remove_children([grp_b]):", left)
sys.exit(0 if not left else 1)
