"""C09 (PREEXISTING item 2) — a data type shared by the data of two drillholes is deleted from the file while the data of
the second hole (never loaded in the session) still refer to it.

Session 2 loads only hole A's data, removes them (the type loses its last LOADED user and is collected), then removes an
unrelated entity: the sweep at the end of Workspace.remove_entity purges the type from the file.  exit 1 = defect present."""
import gc
import sys
import tempfile
from pathlib import Path

import h5py
import numpy as np

from geoh5py.groups import DrillholeGroup
from geoh5py.objects import Drillhole, Points
from geoh5py.workspace import Workspace

p = Path(tempfile.mkdtemp()) / "t.geoh5"
srv = np.c_[[0, 10], [0, 0], [-90, -90]]
with Workspace.create(p) as ws:
    dhg = DrillholeGroup.create(ws, name="DH")
    a = Drillhole.create(ws, name="A", parent=dhg, collar=[0, 0, 0], surveys=srv)
    b = Drillhole.create(ws, name="B", parent=dhg, collar=[1, 0, 0], surveys=srv)
    da = a.add_data({"Au": {"values": np.r_[1.0, 2.0, 3.0], "depth": np.r_[1.0, 2.0, 3.0]}})
    b.add_data({"Au": {"values": np.r_[4.0, 5.0], "depth": np.r_[1.0, 2.0], "entity_type": da.entity_type}})
    tuid = "{%s}" % da.entity_type.uid
    Points.create(ws, vertices=np.zeros((2, 3)), name="pts")
with Workspace(p) as ws:
    a = ws.get_entity("A")[0]
    au = a.get_data("Au")[0]
    a.remove_children([au])
    del au
    gc.collect()
    ws.remove_entity(ws.get_entity("pts")[0])  # unrelated
with h5py.File(p, "r") as f:
    there = tuid in f["GEOSCIENCE/Types/Data types"]
print("shared type still stored:", there)
if there:
    with Workspace(p, mode="r") as ws:
        print("B's data:", ws.get_entity("B")[0].get_data("Au")[0].values)
else:
    print("DEFECT: the type of B's (never loaded) data was deleted by operations on A's data and on 'pts'")
sys.exit(0 if there else 1)
