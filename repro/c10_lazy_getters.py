"""Getters with lazy writes on a read-only workspace: do they change the file (violation) or raise (permitted by C10: a call that
would have to write fails with an error)?  exit 1 = file bytes changed."""
import gc, hashlib, sys, tempfile, warnings
from pathlib import Path
import numpy as np
from geoh5py.objects import GeoImage, Points
from geoh5py.workspace import Workspace
warnings.simplefilter("ignore")
path = Path(tempfile.mkdtemp()) / "p.geoh5"
with Workspace.create(path) as ws:
    Points.create(ws, vertices=np.random.rand(4, 3), name="pts")
    GeoImage.create(ws, name="img", image=np.random.randint(0, 255, (16, 16)).astype("uint8"))
digest = lambda: hashlib.sha256(path.read_bytes()).hexdigest()
before = digest()
with Workspace(path, mode="r") as ws:
    img = ws.get_entity("img")[0]
    img._vertices = None
    for label, call in {"GeoImage.vertices": lambda: img.vertices, "ws.objects after gc": lambda: (gc.collect(), ws.objects), "ws.types": lambda: ws.types}.items():
        try:
            call()
            print(label, ": returned")
        except Exception as e:
            print(label, ": raised", type(e).__name__, str(e)[:70])
print("bytes changed:", digest() != before)
sys.exit(1 if digest() != before else 0)
