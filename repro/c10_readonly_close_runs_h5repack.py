"""C10 (fixed): closing a workspace opened 'r' ran h5repack + unlink + move when a refused edit had set the repack flag.

A stand-in `h5repack` on PATH records whether it was invoked (the real tool is not needed)."""
import os, stat, tempfile
import numpy as np
from geoh5py import Workspace
from geoh5py.groups import DrillholeGroup
from geoh5py.objects import Drillhole

d = tempfile.mkdtemp()
log = os.path.join(d, "invoked.log")
fake = os.path.join(d, "h5repack")
with open(fake, "w") as fh:
    fh.write(f"#!/bin/sh\necho \"$@\" >> {log}\nexit 1\n")
os.chmod(fake, os.stat(fake).st_mode | stat.S_IEXEC)
os.environ["PATH"] = d + os.pathsep + os.environ["PATH"]
path = os.path.join(d, "a.geoh5")
with Workspace.create(path) as ws:
    g = DrillholeGroup.create(ws, name="dhg")
    Drillhole.create(ws, parent=g, name="hole", collar=[0, 0, 0], surveys=np.c_[[0.0, 10.0], [0.0, 0.0], [-90.0, -90.0]])
if os.path.exists(log):
    os.remove(log)
with Workspace(path, mode="r") as ws:
    hole = ws.get_entity("hole")[0]
    try:
        hole.name = "renamed"
    except UserWarning:
        pass  # refused, as it should be; but the in-memory edit has set workspace.repack
print("h5repack invoked while closing a read-only workspace:", os.path.exists(log))
