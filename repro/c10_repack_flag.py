"""Refused setters on a read-only workspace set workspace.repack = True in memory; does closing (or re-opening 'r' and closing)
then change the file?  exit 1 = file bytes changed while the workspace was only ever opened 'r'."""
import hashlib, sys, tempfile, warnings
from pathlib import Path
import numpy as np
from geoh5py.groups import DrillholeGroup
from geoh5py.objects import Drillhole
from geoh5py.workspace import Workspace
warnings.simplefilter("ignore")
path = Path(tempfile.mkdtemp()) / "dh.geoh5"
with Workspace.create(path) as ws:
    grp = DrillholeGroup.create(ws, name="g")
    well = Drillhole.create(ws, parent=grp, name="well", collar=np.r_[0.0, 0, 0], surveys=np.c_[np.linspace(0, 100, 5), np.zeros(5), -90 * np.ones(5)])
    well.add_data({"log": {"depth": np.arange(0, 50.0), "values": np.random.randn(50)}})
digest = lambda: hashlib.sha256(path.read_bytes()).hexdigest()
before = digest()
ws = Workspace(path, mode="r")
well = ws.get_entity("well")[0]
for call in (lambda: setattr(well, "name", "x"), lambda: ws.remove_entity(well.get_data("log")[0])):
    try:
        call()
        print("NOT refused")
    except Exception as e:
        print("refused:", type(e).__name__)
print("repack flag after refused edits:", ws.repack)
ws.close()
changed1 = digest() != before
ws.open(mode="r")
print("repack flag after re-open 'r':", ws.repack)
ws.close()
changed2 = digest() != before
print("bytes changed after close:", changed1, "| after re-open r / close:", changed2)
sys.exit(1 if changed1 or changed2 else 0)
