"""
UNMODIFIED library: a workspace opened with mode 'r' is writable when the same file is
already open 'r+' elsewhere in the same process (HDF5 shares the file object, h5py
reports mode 'r+' for the second handle, so Workspace._io_call lets writers through and
Workspace.close() flushes through it).  Exit 1 when the violation is observed.
"""
import sys
import tempfile
import warnings
from pathlib import Path

import numpy as np

from geoh5py import Workspace
from geoh5py.objects import Points
from geoh5py.ui_json.utils import path2workspace

warnings.simplefilter("ignore")
path = Path(tempfile.mkdtemp()) / "project.geoh5"
with Workspace.create(path) as workspace:
    Points.create(workspace, vertices=np.random.rand(4, 3), name="points")

writer = Workspace(path)  # somebody's 'r+' session, makes no change at all
reader = Workspace(path, mode="r")  # what path2workspace() / InputFile does
print("mode reported by the mode='r' workspace:", reader.geoh5.mode)
try:
    reader.get_entity("points")[0].name = "renamed through the read-only workspace"
    accepted = True
except UserWarning:
    accepted = False
reader.close()
writer.close()

helper = None
writer = Workspace(path)
helper = path2workspace(str(path))  # opens 'r', closes -> close() takes the 'writable' branch
writer.close()

with Workspace(path, mode="r") as check:
    names = [obj.name for obj in check.objects]
print("setter accepted:", accepted, "| names on file:", names)
sys.exit(1 if accepted or names != ["points"] else 0)
