import numpy as np, tempfile, os, hashlib
from geoh5py import Workspace
from geoh5py.objects import IntegratorPoints, NeighbourhoodSurface
d=tempfile.mkdtemp(); path=os.path.join(d,"a.geoh5")
with Workspace.create(path) as ws:
    IntegratorPoints.create(ws, vertices=np.zeros((2,3)), name="a")
    IntegratorPoints.create(ws, vertices=np.zeros((2,3)), name="b")
try:
    with Workspace(path, mode="r") as ws:
        print("opened read-only:", [o.name for o in ws.objects])
except Exception as e:
    print("open(mode='r') FAILED:", type(e).__name__, str(e)[:120])
