"""C11: Workspace.close() has no try/finally around the final flush: when the final save raises (I/O error of the
device, an entity that cannot be serialised, ...) File.close() is skipped: the with-block was left through close(), yet
the HDF5 handle stays open and the file stays locked (exit 1 = defect present).
The failure of the device is simulated by making the writer's save raise OSError once the block is left."""
import sys
import tempfile
from pathlib import Path
from unittest import mock

import h5py
import numpy as np

from geoh5py.io import H5Writer
from geoh5py.objects import Points
from geoh5py.workspace import Workspace

path = Path(tempfile.mkdtemp()) / "t.geoh5"
error = None
try:
    with Workspace.create(path) as ws:
        Points.create(ws, vertices=np.random.rand(4, 3))
        patcher = mock.patch.object(H5Writer, "save_entity", side_effect=OSError(28, "No space left on device"))
        patcher.start()  # from here on every save fails: the next one is the final save of close()
except OSError as exc:  # the error escapes the with-block: fine, but the file must have been released
    error = exc
finally:
    patcher.stop()
print("close raised:", repr(error))
if error is None:
    print("the final save did not raise: scenario not reached")
    sys.exit(2)
handle = ws._geoh5
still_open = bool(handle)
print("handle still open after the with-block:", still_open)
if still_open:
    try:
        h5py.File(path, "r+").close()
        print("(the file could still be opened by somebody else)")
    except OSError as exc:
        print("the file is locked for everybody else:", str(exc)[:90])
    handle.close()
    sys.exit(1)
print("OK")
