"""C11: Workspace.repack is a public setter ("repack the file after data deletion") that also gates the flush of the pending
concatenated drillhole attributes in close(): `ws.repack = False` before the close drops them; the file is left invalid and
cannot be opened again (exit 1 = defect present)."""
import sys
import tempfile
from pathlib import Path

import numpy as np

from geoh5py.groups import DrillholeGroup
from geoh5py.objects import Drillhole
from geoh5py.workspace import Workspace

path = Path(tempfile.mkdtemp()) / "t.geoh5"
with Workspace.create(path) as ws:
    group = DrillholeGroup.create(ws, name="holes")
    Drillhole.create(ws, name="A", parent=group, collar=np.r_[1.0, 2, 3])
    ws.repack = False  # "do not run h5repack for me"
try:
    with Workspace(path, mode="r") as check:
        names = [o.name for o in check.objects]
except Exception as error:  # pylint: disable=broad-except
    print("the closed file cannot be opened again:", repr(error))
    sys.exit(1)
print(names)
if "A" not in names:
    print("the drillhole created before the close is not in the file")
    sys.exit(1)
print("OK")
