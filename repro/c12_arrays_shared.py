"""C12.ALIAS (list / array held by a harvested field is shared between copy and source) on the unmodified library:
  CommentsData.values (list), Octree.octree_cells, Drillhole.cells, GeoImage.cells (arrays).
run: PYTHONPATH=/repo /venv/bin/python /verif/repro/c12_arrays_shared.py   (exit 1 = a defect is present)"""
import sys, tempfile
from pathlib import Path
import numpy as np
from geoh5py.workspace import Workspace
from geoh5py.objects import Points, Octree, Drillhole, GeoImage

bad = []
d = Path(tempfile.mkdtemp())
with Workspace.create(d / "a.geoh5") as ws:
    # Octree.octree_cells
    o = Octree.create(ws, origin=[0, 0, 0], u_count=8, v_count=8, w_count=8, u_cell_size=1.0, v_cell_size=1.0, w_cell_size=1.0)
    before = o.octree_cells.copy()
    oc = o.copy()
    oc.octree_cells["NCells"][0] = 99
    if o.octree_cells["NCells"][0] != before["NCells"][0]:
        bad.append("Octree.octree_cells: edit of the copy's cells shows in the source")
    # Drillhole.cells
    w = Drillhole.create(ws, name="w", collar=np.r_[0.0, 0.0, 0.0], surveys=np.c_[np.linspace(0, 10, 4), np.zeros(4), np.ones(4) * -90])
    w.cells = np.c_[[0, 1], [1, 2]].astype("uint32")
    wc = w.copy()
    if w.cells is not None and wc.cells is not None and np.shares_memory(w.cells, wc.cells):
        bad.append("Drillhole.cells: copy shares the cells array with the source")
    # GeoImage.cells
    g = GeoImage.create(ws, name="img", image=np.random.randint(0, 255, (8, 8)).astype("uint8"))
    _ = g.cells
    gc = g.copy()
    if np.shares_memory(g.cells, gc.cells):
        gc.cells[0, 0] = 3
        bad.append(f"GeoImage.cells: copy shares the cells array with the source (source cells[0,0] now {g.cells[0, 0]})")
for b in bad:
    print(b)
sys.exit(1 if bad else 0)
