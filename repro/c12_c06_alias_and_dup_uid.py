# Reproduction of a finding reported by the static checks (documentation only; not run by any check).
# Run: /venv/bin/python c12_c06_alias_and_dup_uid.py   (scratch files go to /tmp/geoh5py-verif-repro, delete afterwards)
import os, shutil; shutil.rmtree("/tmp/geoh5py-verif-repro", ignore_errors=True); os.makedirs("/tmp/geoh5py-verif-repro")
import numpy as np, h5py, uuid
from geoh5py import Workspace
from geoh5py.objects import Points, Curve
from geoh5py.groups import UIJsonGroup
ws = Workspace.create('/tmp/geoh5py-verif-repro/t7.geoh5')
p = Points.create(ws, vertices=np.random.rand(4,3))
p.metadata = {"a": 1}
c = p.copy()
c.metadata = {"b": 2}
print('source metadata after editing copy:', p.metadata, c.metadata is p.metadata)
g = UIJsonGroup.create(ws, options={"x": {"y": 1}})
g2 = g.copy()
g2.options["x"]["y"] = 5
print('options alias', g.options, g2.options is g.options)
t = p.add_data({'t': {'values': np.array(['a','b','c','d']), 'type': 'text'}})
t2 = t.copy()
print('text values alias', t2.values is t.values)
# dup uid
U = uuid.uuid4()
q = Points.create(ws, vertices=np.random.rand(4,3), name='q', uid=U)
try:
    r = Points.create(ws, vertices=np.random.rand(3,3), name='r', uid=U)
except Exception as e:
    print('refused:', type(e).__name__, e)
print('root children names', [c.name for c in ws.root.children])
d = q.add_data({'dd': {'values': np.arange(4.), 'uid': U}})
print('data with same uid as object:', d.uid == q.uid, ws.get_entity(U))
ws.close()
with h5py.File('/tmp/geoh5py-verif-repro/t7.geoh5') as f:
    print(list(f['GEOSCIENCE/Root/Objects'].keys()), len(f['GEOSCIENCE/Objects']))
