"""A plain Curve / Surface loses a child that happens to be named "Transmitter ID" (or "A-B Cell ID") on copy: CellObject.copy skips
children by name for EVERY cell object, not only for the surveys that use these names for their link data.  exit 1 = defect present"""
import sys, tempfile
from pathlib import Path
import numpy as np
from geoh5py.workspace import Workspace
from geoh5py.objects import Curve
d = Path(tempfile.mkdtemp())
with Workspace.create(d / "a.geoh5") as ws:
    cu = Curve.create(ws, vertices=np.random.rand(4, 3), name="crv")
    cu.add_data({"Transmitter ID": {"values": np.arange(4.0)}, "A-B Cell ID": {"values": np.arange(4.0)}, "other": {"values": np.arange(4.0)}})
    got = sorted(k.name for k in cu.copy().children)
    print("children of the copy:", got)
    sys.exit(0 if got == ["A-B Cell ID", "Transmitter ID", "other"] else 1)
