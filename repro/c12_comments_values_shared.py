"""C12.ALIAS (list / array held by a harvested field is shared between copy and source) on the unmodified library:
  CommentsData.values (list), Octree.octree_cells, Drillhole.cells, GeoImage.cells (arrays).
run: PYTHONPATH=/repo /venv/bin/python /verif/repro/c12_comments_values_shared.py   (exit 1 = a defect is present)"""
import sys, tempfile
from pathlib import Path
import numpy as np
from geoh5py.workspace import Workspace
from geoh5py.objects import Points, Octree, Drillhole, GeoImage

bad = []
d = Path(tempfile.mkdtemp())
with Workspace.create(d / "a.geoh5") as ws:
    # CommentsData.values
    p = Points.create(ws, vertices=np.random.rand(4, 3), name="pts")
    p.add_comment("original", "me")
    c = p.copy()
    c.comments.values[0]["Text"] = "edited on the copy"
    if p.comments.values[0]["Text"] != "original":
        bad.append("CommentsData.values: edit of the copy's comment shows in the source")
for b in bad:
    print(b)
sys.exit(1 if bad else 0)
