"""C12.ALIAS|UIJsonGroup|options|_options (a dict) is shared by reference between source and copy
run: cd /repo && /venv/bin/python /verif/repro/c12_copy_shares_options_dict.py   (exit 1 = defect present)"""
import os, sys, tempfile
from geoh5py import Workspace
from geoh5py.groups import UIJsonGroup
with Workspace.create(os.path.join(tempfile.mkdtemp(), "a.geoh5")) as ws:
    g = UIJsonGroup.create(ws, name="g", options={"a": {"b": 1}})
    g2 = g.copy()
    print("copy.options is source.options:", g2.options is g.options)
    g2.options["a"]["b"] = 2
    print("source options after editing the copy:", g.options)
    sys.exit(1 if g.options["a"]["b"] != 1 else 0)
