import numpy as np, tempfile, os
from geoh5py import Workspace
from geoh5py.objects import Points
from geoh5py.data.color_map import ColorMap
try:
    cm=ColorMap(values=np.c_[np.arange(3.), np.zeros((3,4))])
    print("ColorMap ctor ok", cm.values.shape)
except Exception as e:
    print("ColorMap ctor ERR", type(e).__name__, e)
d=tempfile.mkdtemp()
with Workspace.create(os.path.join(d,"a.geoh5")) as ws, Workspace.create(os.path.join(d,"b.geoh5")) as ws2:
    pts=Points.create(ws, vertices=np.random.rand(4,3))
    ref=pts.add_data({"r":{"type":"referenced","values":np.array([1,2,1,2]),"value_map":{1:"a",2:"b"}}})
    fl=pts.add_data({"f":{"values":np.arange(4.)}})
    fl.entity_type.color_map = np.c_[np.arange(3.), np.zeros((3,4))]
    print("cm parent is source type:", fl.entity_type.color_map.parent is fl.entity_type)
    cp=pts.copy(parent=ws2)
    r2=[c for c in cp.children if c.name=="r"][0]
    f2=[c for c in cp.children if c.name=="f"][0]
    r2.entity_type.value_map.map = {1:"X",2:"Y"}
    print("source map after editing the copy:", ref.entity_type.value_map.map)
    print("source colour map's parent is now the COPY's type:", fl.entity_type.color_map.parent is f2.entity_type)
