# Reproduction of a C12.SHAPE finding (documentation only; not run by any check).
# Drillhole._depths holds the DEPTH FloatData child; copy_to_parent harvests it and the `depths` setter stores it by
# reference: the copy's .depths IS the source's DEPTH data (until the copy's own children are consulted).
import warnings; warnings.simplefilter("ignore")
import numpy as np
from geoh5py.objects import Drillhole
from geoh5py.workspace import Workspace
ws = Workspace()
dh = Drillhole.create(ws, collar=[0, 0, 0], surveys=np.c_[[0, 10, 20], [0, 0, 0], [-90, -90, -90]].astype(float), name="w")
dh.add_data({"a": {"depth": np.arange(5.), "values": np.arange(5.)}})
src_depths = dh.depths
c = dh.copy(copy_children=False)
print("copy.depths is the SOURCE's DEPTH data:", c.depths is src_depths, "| its parent:", c.depths.parent.name if c.depths is not None else None, "| copy children:", [x.name for x in c.children])
c2 = dh.copy()
print("with children copied: copy.depths is the source's:", c2.depths is src_depths)
