"""C12.NESTED|BaseEMSurvey|copy|entries of the source's metadata reach <other entity>.edit_em_metadata(..) without a copy
run: cd /repo && /venv/bin/python /verif/repro/c12_em_copy_shares_nested_metadata.py   (exit 1 = defect present)"""
import os, sys, tempfile
import numpy as np
from geoh5py import Workspace
from geoh5py.objects import AirborneTEMReceivers, AirborneTEMTransmitters
with Workspace.create(os.path.join(tempfile.mkdtemp(), "a.geoh5")) as ws:
    rx = AirborneTEMReceivers.create(ws, vertices=np.random.rand(4, 3))
    tx = AirborneTEMTransmitters.create(ws, vertices=np.random.rand(4, 3))
    rx.transmitters = tx
    rx.waveform = np.c_[np.arange(3.0), np.ones(3)]
    rx.timing_mark = 1.0
    c = rx.copy()
    print("copy's Waveform entry is the source's:", c.metadata["EM Dataset"]["Waveform"] is rx.metadata["EM Dataset"]["Waveform"])
    c.timing_mark = 5.0
    print("source timing mark after editing the copy:", rx.timing_mark)
    sys.exit(1 if rx.timing_mark != 1.0 else 0)
