"""group.copy(parent=group) recurses until RecursionError (the children loop sees the copy that was just created under the group).
exit 1 = defect present"""
import sys, tempfile
from pathlib import Path
import numpy as np
from geoh5py.workspace import Workspace
from geoh5py.groups import ContainerGroup
from geoh5py.objects import Points
d = Path(tempfile.mkdtemp())
with Workspace.create(d / "a.geoh5") as ws:
    g = ContainerGroup.create(ws, name="grp")
    Points.create(ws, parent=g, vertices=np.random.rand(3, 3), name="pts")
    sys.setrecursionlimit(400)
    try:
        c = g.copy(parent=g)
    except RecursionError:
        print("group.copy(parent=group) -> RecursionError")
        sys.exit(1)
    names = sorted(k.name for k in c.children)
    print("copy under itself has children", names, "| the group now has", sorted(k.name for k in g.children))
    sys.exit(0 if names == ["pts"] else 1)
