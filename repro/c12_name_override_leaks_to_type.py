"""copy(parent=<other workspace>, name="X") names the object TYPE created in the target workspace "X" (the override meant for the
entity is applied to the type's attributes as well).  exit 1 = defect present"""
import sys, tempfile
from pathlib import Path
import numpy as np
from geoh5py.workspace import Workspace
from geoh5py.objects import Points
d = Path(tempfile.mkdtemp())
with Workspace.create(d / "a.geoh5") as ws, Workspace.create(d / "b.geoh5") as ws2:
    p = Points.create(ws, vertices=np.random.rand(4, 3), name="pts")
    x = p.copy(parent=ws2, name="X")
    print("copy:", x.name, "| its type:", x.entity_type.name, "| source type:", p.entity_type.name)
    sys.exit(1 if x.entity_type.name != p.entity_type.name or x.name != "X" else 0)
