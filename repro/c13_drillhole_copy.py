"""C13 (B): copying a drillhole by extent must yield exactly the selection made on its collar.
Drillhole.mask_by_extent returns a 1-entry mask over the COLLAR; EntityContainer.copy_from_extent hands it to Points.copy,
which indexes the depth VERTICES with it:
  * collar outside the selection (inverse=True with the collar in the box): mask [False] is not None -> the whole hole is copied;
  * hole with depth data: ValueError 'Mask must be an array of shape (n_vertices,)' even when the collar is plainly selected.
exit 1 = defect present."""
import sys
import tempfile
from pathlib import Path

import numpy as np

from geoh5py.objects import Drillhole
from geoh5py.workspace import Workspace

bad = []
with Workspace.create(Path(tempfile.mkdtemp()) / "dh.geoh5") as ws:
    box = np.array([[-1.0, 9.0], [1.0, 11.0]])
    bare = Drillhole.create(ws, collar=[0.0, 10.0, 10.0], name="bare")
    if bare.copy_from_extent(box, inverse=True) is not None:
        bad.append("inverse selection, collar inside the box: nothing qualifies, yet the hole is copied")
    if bare.copy_from_extent(box) is None:
        bad.append("collar inside the box: the hole is not copied")
    well = Drillhole.create(ws, collar=[0.0, 10.0, 10.0], name="with data",
                            surveys=np.c_[np.linspace(0, 100, 5), np.ones(5) * 45.0, np.ones(5) * -80.0])
    well.add_data({"d": {"depth": np.arange(0, 50.0, 10), "values": np.arange(5.0)}})
    try:
        copy = well.copy_from_extent(box)
        if copy is None or len(copy.children) == 0 or not np.allclose(copy.get_data("d")[0].values, np.arange(5.0)):
            bad.append("collar inside the box, hole with depth data: the copy does not carry the hole's data")
    except ValueError as exc:
        bad.append(f"collar inside the box, hole with depth data: ValueError {exc}")
    try:
        if well.copy_from_extent(box, inverse=True) is not None:
            bad.append("inverse selection on a hole with depth data: copied although the collar is inside the box")
    except ValueError as exc:
        bad.append(f"inverse selection on a hole with depth data: ValueError {exc}")
    far = np.array([[100.0, 100.0], [110.0, 110.0]])
    if well.copy_from_extent(far) is not None:
        bad.append("box far from the collar: the hole is copied")
for b in bad:
    print("DEFECT:", b)
print("defect present" if bad else "ok: drillholes are copied exactly when their collar is selected")
sys.exit(1 if bad else 0)
