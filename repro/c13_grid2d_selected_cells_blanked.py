"""C13 (fixed by the commit recorded in known_findings.json): Grid2D.copy_from_extent blanked cells it had selected.

Cells whose centre lies exactly on a face of the box were selected (the sub-grid covers them) and then blanked: the blanking mask
was recomputed from the centroids of the COPY (shifted origin -> different float rounding) instead of the selection on the source.
Run: PYTHONPATH=<tree> /venv/bin/python /verif/repro/c13_grid2d_selected_cells_blanked.py   (exit 1 = defect present)
"""
import sys
import tempfile
from pathlib import Path

import numpy as np

from geoh5py.objects import Grid2D
from geoh5py.workspace import Workspace

with Workspace.create(Path(tempfile.mkdtemp()) / "pre.geoh5") as ws:
    grid = Grid2D.create(ws, origin=[0.3, 0.3, 0.0], u_cell_size=0.7, v_cell_size=0.7, u_count=12, v_count=7)
    vals = np.arange(84.0)
    grid.add_data({"v": {"values": vals}})
    cx, cy = np.unique(grid.centroids[:, 0]), np.unique(grid.centroids[:, 1])
    box = np.array([[cx[6], cy[4]], [cx[11], cy[6]]])  # corners ARE cell centres
    mask = grid.mask_by_extent(box)
    clip = grid.copy_from_extent(box)
    got = clip.children[0].values
    print("expected:", vals[mask])
    print("got     :", got, f"({clip.u_count}x{clip.v_count})")
    sys.exit(0 if np.array_equal(got, vals[mask]) else 1)
