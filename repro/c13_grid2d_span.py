"""C13 (A): Grid2D.copy_from_extent must return the SMALLEST SUB-GRID COVERING the selected cells.
When the selected cells leave columns / rows between them empty (thin box across a rotated grid) the library packs the
selected columns side by side: the sub-grid is too small and kept values sit at the coordinates of other cells.
exit 1 = defect present."""
import sys
import tempfile
from pathlib import Path

import numpy as np

from geoh5py.objects import Grid2D
from geoh5py.workspace import Workspace


def inside(xyz, extent):
    n = extent.shape[1]
    return np.all((xyz[:, :n] >= extent[0]) & (xyz[:, :n] <= extent[1]), axis=1)


bad = []
with Workspace.create(Path(tempfile.mkdtemp()) / "span.geoh5") as ws:
    grid = Grid2D.create(ws, origin=[0, 0, 0], u_cell_size=1.0, v_cell_size=1.0, u_count=8, v_count=8,
                         rotation=-np.rad2deg(np.arctan2(1, 2)))
    grid.add_data({"id": {"values": np.arange(64.0)}})
    y_0 = grid.centroids[1 * 8 + 2, 1]
    box = np.array([[-100.0, y_0 - 0.05], [100.0, y_0 + 0.05]])
    sel = inside(grid.centroids, box).reshape(8, 8)
    rows, cols = np.where(sel)
    want = (cols.max() - cols.min() + 1, rows.max() - rows.min() + 1)
    sub = grid.copy_from_extent(box)
    if (sub.u_count, sub.v_count) != want:
        bad.append(f"sub-grid is {sub.u_count} x {sub.v_count}, the covering sub-grid is {want[0]} x {want[1]}")
    values = sub.children[0].values
    kept = ~np.isnan(values)
    if sorted(values[kept]) != sorted(np.arange(64.0)[sel.flatten()]):
        bad.append(f"kept values {sorted(values[kept])} are not the selected cells {sorted(np.arange(64.0)[sel.flatten()])}")
    for value, xyz in zip(values, sub.centroids):
        if not np.isnan(value) and not np.allclose(xyz, grid.centroids[int(value)]):
            bad.append(f"value of cell {int(value)} sits at {xyz.round(3)}, the cell is at {grid.centroids[int(value)].round(3)}")
for b in bad:
    print("DEFECT:", b)
print("defect present" if bad else "ok: smallest covering sub-grid, values in place")
sys.exit(1 if bad else 0)
