"""C14: an integer parameter whose value does not fit 64 bits makes write_ui_json crash (inf2str hands a Python int to np.isfinite).
exit 1 = defect present."""
import sys, tempfile, warnings
from copy import deepcopy
from pathlib import Path

from geoh5py import Workspace
from geoh5py.ui_json import InputFile, templates
from geoh5py.ui_json.constants import default_ui_json

warnings.simplefilter("ignore")
d = Path(tempfile.mkdtemp())
ws = Workspace.create(d / "w.geoh5")
bad = 0
for n in (2**63, 2**64, 2**70, -(2**80)):
    ui = deepcopy(default_ui_json)
    ui["geoh5"] = ws
    ui["x"] = templates.integer_parameter(value=n)
    try:
        f = InputFile(ui_json=ui)
        out = f.write_ui_json("big.ui.json", path=d)
        back = InputFile.read_ui_json(out).data["x"]
        if back != n:
            print(n, ": read back", back)
            bad = 1
    except Exception as exc:  # noqa
        print(n, ":", type(exc).__name__, str(exc)[:120])
        bad = 1
print("DEFECT PRESENT" if bad else "ok")
sys.exit(bad)
