"""C14: an optional, disabled member of a groupOptional group that comes BEFORE the group's switch in the file gets the
stale form value instead of None after one write + read (the switch, processed later, re-enables every member).
exit 1 = defect present."""
import sys, tempfile, warnings
from copy import deepcopy
from pathlib import Path

from geoh5py import Workspace
from geoh5py.ui_json import InputFile, templates
from geoh5py.ui_json.constants import default_ui_json

warnings.simplefilter("ignore")
d = Path(tempfile.mkdtemp())
ws = Workspace.create(d / "w.geoh5")


def forms(member_first):
    switch = templates.string_parameter(value="x", optional="enabled")
    switch.update(group="G", groupOptional=True)
    member = templates.float_parameter(value=5.0, optional="disabled")
    member["group"] = "G"
    return {"member": member, "switch": switch} if member_first else {"switch": switch, "member": member}


bad = 0
for member_first in (False, True):
    ui = deepcopy(default_ui_json)
    ui["geoh5"] = ws
    ui.update(forms(member_first))
    f = InputFile(ui_json=ui)
    before = {k: f.data[k] for k in ("switch", "member")}
    out = f.write_ui_json(f"g{int(member_first)}.ui.json", path=d)
    after = {k: InputFile.read_ui_json(out).data[k] for k in ("switch", "member")}
    if before != after:
        print("member first" if member_first else "switch first", ": wrote", before, "read", after)
        bad = 1
print("DEFECT PRESENT" if bad else "ok")
sys.exit(bad)
