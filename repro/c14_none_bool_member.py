"""C14: a form whose boolean member (optional / enabled / main) is None cannot be read back after writing.
templates.drillhole_group_data(...) with its defaults produces such a form ("optional": None).
exit 1 = defect present."""
import sys, tempfile, warnings
from copy import deepcopy
from pathlib import Path

from geoh5py import Workspace
from geoh5py.groups import DrillholeGroup
from geoh5py.ui_json import InputFile, templates
from geoh5py.ui_json.constants import default_ui_json

warnings.simplefilter("ignore")
d = Path(tempfile.mkdtemp())
ws = Workspace.create(d / "w.geoh5")
dh = DrillholeGroup.create(ws)
bad = 0
forms = {
    "template": templates.drillhole_group_data(value=["a"], group_value=dh.uid),
    "main_none": dict(templates.float_parameter(value=1.5), main=None),
}
for name, form in forms.items():
    ui = deepcopy(default_ui_json)
    ui["geoh5"] = ws
    ui["p"] = deepcopy(form)
    f = InputFile(ui_json=ui)
    before = f.data["p"]
    out = f.write_ui_json(name + ".ui.json", path=d)
    try:
        g = InputFile.read_ui_json(out)
        after = g.data["p"]
        if after != before:
            print(name, ": wrote", before, "read", after)
            bad = 1
    except Exception as exc:  # noqa
        print(name, ": written file cannot be read back:", type(exc).__name__, str(exc)[:160])
        bad = 1
print("DEFECT PRESENT" if bad else "ok")
sys.exit(bad)
