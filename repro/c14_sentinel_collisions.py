# Reproduction of the C14.COLLIDE findings (documentation only; not run by any check).
# String values that coincide with the sentinel encodings of None / inf / UUID / workspace path do not round-trip.
import tempfile, warnings
from copy import deepcopy
from pathlib import Path

warnings.simplefilter("ignore")
from geoh5py.ui_json import InputFile, templates
from geoh5py.ui_json.constants import default_ui_json
from geoh5py.workspace import Workspace

d = Path(tempfile.mkdtemp())
ws = Workspace.create(d / "w.geoh5")
other = Workspace.create(d / "other.geoh5")
other.close()
uj = deepcopy(default_ui_json)
uj["geoh5"] = ws
originals = {}
for name, val in (("empty", ""), ("inf_text", "inf"), ("uuid_text", "{12345678-1234-5678-1234-567812345678}"), ("path_text", str(d / "other.geoh5"))):
    uj[name] = templates.string_parameter(value=val)
    originals[name] = val
ifile = InputFile(ui_json=uj, validate=False)
ifile.write_ui_json(name="t.ui.json", path=d)
back = InputFile.read_ui_json(d / "t.ui.json", validate=False)
for name in ("empty", "inf_text", "uuid_text", "path_text"):
    print(name, "string given", repr(originals[name]), "-> value after write + read", repr(back.data[name]))
