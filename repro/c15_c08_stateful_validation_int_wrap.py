# Reproduction of a finding reported by the static checks (documentation only; not run by any check).
# Run: /venv/bin/python c15_c08_stateful_validation_int_wrap.py   (scratch files go to /tmp/geoh5py-verif-repro, delete afterwards)
import os, shutil; shutil.rmtree("/tmp/geoh5py-verif-repro", ignore_errors=True); os.makedirs("/tmp/geoh5py-verif-repro")
import numpy as np
from geoh5py.ui_json.parameters import StringParameter, Parameter
from geoh5py.ui_json.enforcers import EnforcerPool, TypeEnforcer, ValueEnforcer
from geoh5py.ui_json.validation import InputValidation
from geoh5py.objects import DrapeModel
from geoh5py.data import IntegerData
from geoh5py import Workspace
p = StringParameter("x", "ok")
try: p.value = 5
except Exception as e: print("rejected", type(e).__name__)
print("stored after rejection:", p.value)
pool = EnforcerPool("x", [TypeEnforcer({str}), ValueEnforcer({"a"})])
try: pool.enforce(5)
except Exception as e: print("bad ->", type(e).__name__)
try:
    pool.enforce("a"); print("good accepted")
except Exception as e: print("good value after bad ->", type(e).__name__)
v = InputValidation(validations={"a": {"one_of": "g", "types":[int, type(None)]}, "b": {"one_of": "g", "types":[int, type(None)]}})
for i in range(2):
    try:
        v.validate_data({"a": None, "b": None}); print("call", i, "accepted")
    except Exception as e: print("call", i, "rejected", type(e).__name__)
ws = Workspace()
from geoh5py.objects import Points
pt = Points.create(ws, vertices=np.random.rand(2,3))
d = pt.add_data({'i': {'values': np.array([2**40, 3], dtype=np.int64)}})
print('int wrap:', d.values)
