"""InputFile.data (getter) switches validation_options["update_enabled"] off around the lazy validation of the flattened form and
restores it only on success: after a REJECTED .data the option stays False for the life of the object, so later accepted
assignments no longer update the `enabled` member of the form (the form then differs from what a fresh object produces for the
same calls).  exit 1 = defect present."""
import sys, tempfile
from copy import deepcopy
from pathlib import Path

from geoh5py import Workspace
from geoh5py.shared.exceptions import BaseValidationError
from geoh5py.ui_json import InputFile
from geoh5py.ui_json.constants import default_ui_json

tmp = Path(tempfile.mkdtemp())
with Workspace.create(tmp / "x.geoh5") as ws:

    def make(count):
        ui = deepcopy(default_ui_json)
        ui["geoh5"] = ws
        ui["count"] = {"label": "count", "choiceList": ["a", "b"], "value": count}
        ui["extra"] = {"label": "extra", "value": 2, "optional": True, "enabled": False}
        return ui

    hist = InputFile(ui_json=make("c"))           # value outside the choice list: the lazy validation must reject it
    before = dict(hist.validation_options)
    try:
        hist.data
        rejected = False
    except BaseValidationError:
        rejected = True
    after = dict(hist.validation_options)
    print("rejected:", rejected, "| options before:", before.get("update_enabled", True), "after:", after.get("update_enabled", True))
    # repair the form and go on: same calls on an object without the rejected access
    hist.ui_json = make("a")
    fresh = InputFile(ui_json=make("a"))
    for ifile in (hist, fresh):
        ifile.data
        ifile.set_data_value("extra", 5)
    e_h, e_f = hist.ui_json["extra"]["enabled"], fresh.ui_json["extra"]["enabled"]
    print("extra.enabled after set_data_value(extra, 5): history", e_h, "| fresh", e_f)
    sys.exit(1 if (after.get("update_enabled", True) != before.get("update_enabled", True) or e_h != e_f) else 0)
