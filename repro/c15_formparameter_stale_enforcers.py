"""FormParameter.validations is computed once (memoised in self._validations) and self.enforcers once in __init__: a member
registered later (group_optional) does not change what validate() enforces, so the same current form is accepted on an object
with history and rejected on a fresh object.  exit 1 = defect present."""
import sys
from geoh5py.ui_json.forms import StringFormParameter


def verdict(form):
    try:
        form.validate()
        return "accepted"
    except Exception as exc:  # noqa
        return type(exc).__name__


history = StringFormParameter("p", label="P", value="x")
history.register({"group_optional": True})          # now the form carries groupOptional but no group
fresh = StringFormParameter("p", label="P", value="x", group_optional=True)
print("forms equal:", history.form() == fresh.form(), history.form())
v_h, v_f = verdict(history), verdict(fresh)
print("object with history:", v_h, dict(history.validations))
print("fresh object       :", v_f, dict(fresh.validations))
sys.exit(1 if v_h != v_f else 0)
