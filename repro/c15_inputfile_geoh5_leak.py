# Reproduction of a finding reported by C15.COMMIT (documentation only; not run by any check).
# A rejected `InputFile.data = ...` assignment leaves InputFile.geoh5 set from the rejected dictionary.
import tempfile, warnings
from copy import deepcopy
from pathlib import Path

warnings.simplefilter("ignore")
from geoh5py.ui_json import InputFile, templates
from geoh5py.ui_json.constants import default_ui_json
from geoh5py.workspace import Workspace

d = Path(tempfile.mkdtemp())
ws1 = Workspace.create(d / "a.geoh5")
uj = deepcopy(default_ui_json)
uj["x"] = templates.integer_parameter(value=1)
ifile = InputFile(ui_json=uj)
assert ifile._geoh5 is None
bad = {k: (v["value"] if isinstance(v, dict) and "value" in v else v) for k, v in uj.items()}
bad["geoh5"] = ws1
bad["x"] = "not an int"
try:
    ifile.data = bad
except Exception as e:  # TypeValidationError
    print("rejected:", type(e).__name__)
print("geoh5 taken from the rejected assignment:", ifile._geoh5 is ws1, "| data stored:", ifile._data is not None)
