"""SetDict.update(value) rewrites the dictionary it is GIVEN (value[key] = merged set).  FormParameter.validations / UIJson.validations pass the
class-level `static_validations` to it.  On the library's own classes this only turns the class-level lists into equal sets (no key is shared
between the dynamic and the static tables), so no verdict changes: exit 0 when only that is observed.  With a static table that shares a key
with the dynamic one (a user subclass declaring a static "required" rule) what ONE instance infers leaks into the class and decides the verdict
of every later instance: exit 1 when that leak is observed."""
import sys
from geoh5py.ui_json.forms import FormParameter, StringFormParameter

before = type(FormParameter.static_validations["required_form_members"]).__name__
StringFormParameter("p", label="P", value="x").validations
after = type(FormParameter.static_validations["required_form_members"]).__name__
print("class-level FormParameter.static_validations['required_form_members']:", before, "->", after, "(same members)")


class Labelled(StringFormParameter):
    static_validations = {"required": ["label"], "required_form_members": ["label", "value"]}


def verdict(form):
    try:
        form.validate()
        return "accepted"
    except Exception as exc:  # noqa
        return type(exc).__name__


fresh_first = verdict(Labelled("a", label="A", value="x"))
Labelled("b", label="B", value="x", group_optional=True).validations          # an instance with groupOptional infers required: group
later = verdict(Labelled("a", label="A", value="x"))
print("plain instance before / after another instance inferred its rules:", fresh_first, "/", later, "| class table now:", Labelled.static_validations)
sys.exit(1 if fresh_first != later else 0)
