"""C15 known finding: validations inferred from an earlier form outlive the form.

InputFile.ui_json's setter merges the rules inferred from the new form UNDER whatever
self.validations[key] already holds; on a second assignment that is what the first form
put there, so values are judged by the old form's rules.
"""
from copy import deepcopy

from geoh5py.ui_json import InputFile, templates
from geoh5py.ui_json.constants import default_ui_json

ui = deepcopy(default_ui_json)
ui["p"] = templates.integer_parameter(value=1)
ifile = InputFile(ui_json=ui, validate=False)
ui2 = deepcopy(default_ui_json)
ui2["p"] = templates.string_parameter(value="abc")
ifile.ui_json = ui2
fresh = InputFile(ui_json=deepcopy(ui2), validate=False)
print("re-assigned:", ifile.validations["p"])
print("fresh      :", fresh.validations["p"])
print("stale rules decide the verdict:", ifile.validations["p"] != fresh.validations["p"])
