"""UIJson.validations accumulates the validations inferred from EARLIER parameter values (SetDict.update unions): after a data
selector is cleared, the UIJson-level enforcers still hold its (parent, data) pair / its name, so validate() on the CURRENT form
gives a different verdict than a fresh UIJson with the very same form.  exit 1 = defect present."""
import importlib.util, sys, tempfile
from pathlib import Path

spec = importlib.util.spec_from_file_location("uijson_test", "/repo/tests/ui_json/uijson_test.py")
t = importlib.util.module_from_spec(spec); spec.loader.exec_module(t)

tmp = Path(tempfile.mkdtemp())
workspace, data_object = t.generate_sample_uijson_data(tmp)
with workspace.open():
    bx = [c for c in data_object.children if c.name == "Bx"][0]


def build(x_channel):
    uijson = t.generate_sample_defaulted_uijson()
    uijson.update({"geoh5": workspace, "data_object": data_object})
    uijson.update({"x_channel": x_channel})
    return uijson


def verdict(uijson):
    try:
        uijson.validate()
        return "accepted"
    except Exception as exc:  # noqa
        return type(exc).__name__


history = build(bx)                 # x_channel selected once ...
first = verdict(history)
history.update({"x_channel": None})  # ... then cleared: the current form has no x_channel value
fresh = build(None)                  # same current form, no history
v_hist, v_fresh = verdict(history), verdict(fresh)
print("with x_channel=Bx:", first)
print("x_channel cleared, object with history:", v_hist, "| validations:", dict(history.validations))
print("x_channel cleared, fresh object       :", v_fresh, "| validations:", dict(fresh.validations))
sys.exit(1 if v_hist != v_fresh else 0)
