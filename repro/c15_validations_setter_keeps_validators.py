"""InputFile.validations setter (and validation_options setter) do not drop the cached InputValidation (self._validators): rules assigned after
the validator was built once are ignored.  exit 1 = defect present."""
import sys
from copy import deepcopy
from geoh5py.shared.exceptions import BaseValidationError
from geoh5py.ui_json import InputFile
from geoh5py.ui_json.constants import default_ui_json

ui = deepcopy(default_ui_json); ui["n"] = {"label": "n", "value": 1}
def verdict(touch_first):
    ifile = InputFile(ui_json=deepcopy(ui), validate=True)
    if touch_first:
        ifile.validators                      # builds and caches the InputValidation
    ifile.validations = {"n": {"types": [int], "values": [1, 2]}}
    try:
        ifile.validators.validate("n", 7); return "accepted"
    except BaseValidationError as e:
        return type(e).__name__
a, b = verdict(True), verdict(False)
print("validator built before the rules were assigned:", a, "| built after:", b)
sys.exit(1 if a != b else 0)
