# Reproduction of a finding reported by the static checks (documentation only; not run by any check).
# Run: /venv/bin/python c17_c16_c01_cache_offset_lazy.py   (scratch files go to /tmp/geoh5py-verif-repro, delete afterwards)
import os, shutil; shutil.rmtree("/tmp/geoh5py-verif-repro", ignore_errors=True); os.makedirs("/tmp/geoh5py-verif-repro")
import numpy as np
from geoh5py import Workspace
from geoh5py.objects import DrapeModel, Curve
from geoh5py.shared.merging import CurveMerger
ws = Workspace.create('/tmp/geoh5py-verif-repro/t9.geoh5')
layers = np.c_[[0,0,1,1],[0,1,0,1],[-1.,-2.,-1.,-2.]]
prisms = np.c_[[0.,1.],[0.,0.],[0.,0.],[0,2],[2,2]]
d = DrapeModel.create(ws, layers=layers, prisms=prisms)
c0 = d.centroids.copy()
d.prisms = np.c_[[10.,11.],[0.,0.],[0.,0.],[0,2],[2,2]]
print('centroids stale after prisms set:', np.allclose(d.centroids, c0))
a = Curve.create(ws, vertices=np.random.rand(4,3), cells=np.array([[0,1],[1,2]]), name='a')  # vertex 3 unused
b = Curve.create(ws, vertices=np.random.rand(3,3)+10, name='b')
m = CurveMerger.merge_objects(ws, [a,b])
print('merged cells', m.cells.tolist(), 'expected b cells offset 4 ->', (b.cells+4).tolist())
ws.close()
ws2 = Workspace('/tmp/geoh5py-verif-repro/t9.geoh5')
d2 = [o for o in ws2.objects if isinstance(o, DrapeModel)][0]
print('n_cells after reopen:', d2.n_cells, 'centroids rows', d2.centroids.shape[0], 'n_cells now', d2.n_cells)
