import numpy as np, tempfile, os
from geoh5py import Workspace
from geoh5py.objects import Octree, BlockModel
d=tempfile.mkdtemp()
with Workspace.create(os.path.join(d,"a.geoh5")) as ws:
    try:
        o=Octree.create(ws, u_count=4, v_count=4, w_count=4, u_cell_size=1., v_cell_size=1., w_cell_size=1.)
        print("octree origin", o.origin, o.n_cells)
        print(o.centroids.shape)
    except Exception as e:
        print("Octree ERR", type(e), e)
    try:
        b=BlockModel.create(ws, u_cell_delimiters=np.arange(4.), v_cell_delimiters=np.arange(4.), z_cell_delimiters=np.arange(4.))
        print("bm origin", b.origin, b.n_cells)
        print(b.centroids.shape)
    except Exception as e:
        print("BM ERR", type(e), e)
