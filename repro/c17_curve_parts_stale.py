# Reproduction of a finding reported by C17.CACHE (documentation only; not run by any check).
# Curve.parts is memoised from cells/vertices; Points.vertices setter (inherited by Curve) does not reset it.
import numpy as np
from geoh5py.objects import Curve
from geoh5py.workspace import Workspace

ws = Workspace()
c = Curve.create(ws, vertices=np.random.rand(5, 3))
print("parts:", c.parts)
c.vertices = np.random.rand(8, 3)  # growing is allowed by the setter
print("n_vertices:", c.n_vertices, "parts (stale, one label per OLD vertex):", c.parts)
