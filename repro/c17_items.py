"""C17 PREEXISTING items 1-4 on the library on PYTHONPATH; prints each observation; exit 1 if any defect present."""
import os, sys, tempfile
import numpy as np
from geoh5py.objects import Curve, Octree
from geoh5py.workspace import Workspace
bad = []
with Workspace(version=1.0).save_as(os.path.join(tempfile.mkdtemp(), "t.geoh5")) as ws:
    v = np.c_[np.arange(5.0), np.zeros(5), np.zeros(5)]
    c = Curve.create(ws, parts=[0, 0, 1, 1, 1], vertices=v)
    print("1:", c.cells.tolist())
    if [1, 2] in c.cells.tolist(): bad.append("1 parts given before vertices are ignored")
    c = Curve.create(ws, vertices=v, cells=np.array([[0, 1], [2, 3], [1, 2]]))
    print("2:", c.parts.tolist())
    if len(set(c.parts[:4].tolist())) != 1: bad.append("2 unordered segments: several labels on one chain")
    c = Curve.create(ws, vertices=v, parts=[0, 0, 1, 2, 2]); _ = c.cells
    print("3:", c.parts.tolist())
    if c.parts.tolist() != [0, 0, 1, 2, 2]: bad.append("3 single-vertex part label lost")
    m = Octree.create(ws, u_count=8, v_count=8, w_count=8, u_cell_size=1.0, v_cell_size=1.0, w_cell_size=1.0)
    _ = m.octree_cells
    m.u_count = 16
    print("4:", m.shape, m.octree_cells.tolist(), m.n_cells)
    if m.n_cells == 1: bad.append("4 stale default octree after u_count change")
for b in bad: print(" -", b)
sys.exit(1 if bad else 0)
