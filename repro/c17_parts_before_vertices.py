"""Curve.create(ws, parts=.., vertices=..): labels given before the vertices must not be dropped. exit 1 = defect present."""
import os, sys, tempfile
import numpy as np
from geoh5py.objects import Curve
from geoh5py.workspace import Workspace
path = os.path.join(tempfile.mkdtemp(), "t.geoh5")
v = np.c_[np.arange(5.0), np.zeros(5), np.zeros(5)]
with Workspace(version=1.0).save_as(path) as ws:
    c = Curve.create(ws, name="c", parts=[0, 0, 1, 1, 1], vertices=v)
    mem = c.cells.tolist()
with Workspace(path) as ws:
    disk = ws.get_entity("c")[0].cells.tolist()
print("memory:", mem, "file:", disk)
want = [[0, 1], [2, 3], [3, 4]]
sys.exit(0 if mem == want and disk == want else 1)
