"""add_data rewrites the caller's depth array in place (merge_arrays 'A->B' stores the collocated stored depths into `tail`). exit 1 = present."""
import os, sys, tempfile
import numpy as np
from geoh5py.objects import Drillhole
from geoh5py.workspace import Workspace
with Workspace(version=1.0).save_as(os.path.join(tempfile.mkdtemp(), "t.geoh5")) as ws:
    w = Drillhole.create(ws, collar=np.r_[0.0, 0, 0])
    w.add_data({"a": {"depth": np.r_[10.0, 20.0], "values": np.r_[1.0, 2.0]}})
    mine = np.r_[10.004, 30.0]
    w.add_data({"b": {"depth": mine, "values": np.r_[7.0, 8.0]}})
    print("caller's array after the call:", mine)
    sys.exit(1 if mine[0] != 10.004 else 0)
