import sys, tempfile
from pathlib import Path
import numpy as np
from geoh5py.objects import Drillhole
from geoh5py.workspace import Workspace

with Workspace(version=1.0).save_as(Path(tempfile.mkdtemp()) / "w.geoh5") as ws:
    well = Drillhole.create(ws, collar=np.r_[0.0, 0.0, 0.0])
    well.add_data({"a": {"depth": np.r_[10.0, 20.0], "values": np.r_[1.0, 2.0]}})
    # two samples 4 mm apart, both within the default 1 cm of the stored 10.0
    b = well.add_data({"b": {"depth": np.r_[9.998, 10.002], "values": np.r_[7.0, 8.0]}})
    print("depths", well.depths.values, "b", b.values)
    sys.exit(0 if {7.0, 8.0} <= set(b.values[~np.isnan(b.values)]) else 1)
