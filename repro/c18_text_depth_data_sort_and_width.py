"""C18 (fixed by f6a3462 and 48b0fed): (a) Drillhole.sort_depths re-ordered numeric vertex data only, text depth data kept their
old order; (c) text interval values merged onto existing intervals were truncated to one character (fill array of dtype '<U1').
Case (b) — match_values attaching one new depth to both neighbours within the tolerance — is printed as an observation only: it is
value-level and not decided statically.
Run: PYTHONPATH=<tree> /venv/bin/python /verif/repro/c18_text_depth_data_sort_and_width.py   (exit 1 = (a) or (c) present)"""
import os, sys, tempfile
import numpy as np
from geoh5py.objects import Drillhole
from geoh5py.workspace import Workspace

bad = []
with Workspace(version=1.0).save_as(os.path.join(tempfile.mkdtemp(), "t.geoh5")) as ws:
    sv = np.c_[[0.0, 50, 100], [10.0, 40, 350], [-80.0, -70, -60]]
    # (a) text depth data is not re-ordered by sort_depths (only NumericData children are)
    w = Drillhole.create(ws, collar=np.r_[0.0, 0, 0], surveys=sv, name="a")
    t = w.add_data({"t": {"depth": np.r_[30.0, 10.0, 20.0], "values": np.array(["d30", "d10", "d20"]), "type": "TEXT"}})
    print("a:", w.depths.values, t.values)
    if list(t.values) != ["d10", "d20", "d30"]:
        bad.append("text value given at depth 30 is attached to depth 10 after sort_depths")
    # (b) one new depth within tolerance of two existing depths is attached to both
    w = Drillhole.create(ws, collar=np.r_[0.0, 0, 0], surveys=sv, name="b")
    w.add_data({"x": {"depth": np.r_[10.0, 11.0], "values": np.r_[1.0, 2.0]}})
    b = w.add_data({"y": {"depth": np.r_[10.5], "values": np.r_[5.0]}}, collocation_distance=0.75)
    print("b:", w.depths.values, b.values)
    if np.sum(b.values == 5.0) != 1:
        print("observation (b): one added value ends up on two depths (match_values returns both neighbours)")
    # (c) text interval value merged on an existing interval is truncated to one character
    w = Drillhole.create(ws, collar=np.r_[0.0, 0, 0], surveys=sv, name="c")
    w.add_data({"x": {"from-to": np.c_[[10.0, 20.0], [20.0, 30.0]], "values": np.r_[1.0, 2.0]}})
    t = w.add_data({"t": {"from-to": np.c_[[10.0, 40.0], [20.0, 50.0]], "values": np.array(["granite", "basalt"]), "type": "TEXT"}})
    print("c:", t.values)
    if t.values[0] != "granite":
        bad.append("text value of a matched interval is truncated ('granite' -> %r)" % t.values[0])
for b_ in bad:
    print(" -", b_)
sys.exit(1 if bad else 0)
