"""C19: deleting the EMPTY 'Concatenated Data/Data' container of a drillhole group (an empty child container, i.e. an
optional item) must leave every drillhole unchanged.  exit 1 = defect present (surveys of the holes are altered)."""
import sys, tempfile, warnings
from pathlib import Path
import h5py, numpy as np
from geoh5py.groups import DrillholeGroup
from geoh5py.objects import Drillhole
from geoh5py.workspace import Workspace

warnings.simplefilter("ignore")
path = Path(tempfile.mkdtemp()) / "dh.geoh5"
surveys = np.c_[np.linspace(0, 10, 3), np.zeros(3), np.ones(3) * -90]
with Workspace.create(path) as ws:
    dhg = DrillholeGroup.create(ws, name="dhg")
    for i in range(2):
        Drillhole.create(ws, name=f"dh{i}", parent=dhg, collar=[i, 0.0, 0.0], surveys=surveys)
with h5py.File(path, "r+") as h5file:
    block = [g for g in h5file["GEOSCIENCE/Groups"].values() if "Concatenated Data" in g][0]["Concatenated Data"]
    assert len(block["Data"]) == 0  # an empty child container
    del block["Data"]
bad = 0
with Workspace(path, mode="r") as ws:
    holes = [o for o in ws.objects if isinstance(o, Drillhole)]
    assert len(holes) == 2, "holes lost"
    for hole in holes:
        if hole.surveys.shape != surveys.shape or not np.allclose(hole.surveys, surveys):
            print("ALTERED", hole.name, hole.surveys.tolist())
            bad = 1
print("defect present" if bad else "ok: surveys unchanged")
sys.exit(bad)
