import numpy as np, tempfile, os, uuid, h5py
from geoh5py import Workspace
from geoh5py.groups import ContainerGroup
from geoh5py.objects import Points
d=tempfile.mkdtemp(); path=os.path.join(d,"a.geoh5")
with Workspace.create(path) as ws:
    outer=ContainerGroup.create(ws, name="outer", uid=uuid.UUID("f0000000-0000-0000-0000-000000000000"))
    inner=ContainerGroup.create(ws, name="inner", parent=outer, uid=uuid.UUID("00000000-0000-0000-0000-000000000001"))
    pts=Points.create(ws, vertices=np.zeros((2,3)), name="pts", parent=inner)
with h5py.File(path,"r+") as f:
    del f["GEOSCIENCE"]["Root"]
with Workspace(path, mode="r") as ws:
    i=ws.get_entity("inner")[0]; o=ws.get_entity("outer")[0]
    print("inner.parent:", i.parent.name, "| outer.children:", [c.name for c in o.children], "| root children:", [c.name for c in ws.root.children])
