"""C20 / direct current: a REJECTED link still re-binds the cached partner.

PotentialElectrode.current_electrodes / CurrentElectrode.potential_electrodes bind self._current_electrodes /
self._potential_electrodes BEFORE `self.metadata = ...`, whose setter validates (KeyError when an identifier is not in the
workspace) — after the refused link the getter answers with the rejected entity while no metadata records it.
Run: PYTHONPATH=/repo /venv/bin/python /verif/repro/c20_dc_rejected_link_rebinds.py     (exit 1 = defect present)
"""
import sys
import tempfile
from pathlib import Path

import numpy as np

from geoh5py.objects import CurrentElectrode, PotentialElectrode
from geoh5py.workspace import Workspace

bad = []
d = Path(tempfile.mkdtemp())
v = np.c_[np.arange(6.0), np.zeros(6), np.zeros(6)]
with Workspace.create(d / "one.geoh5") as ws1, Workspace.create(d / "two.geoh5") as ws2:
    cur = CurrentElectrode.create(ws1, vertices=v, name="cur")
    pot = PotentialElectrode.create(ws2, vertices=v, name="pot")
    for side, entity, link, partner in (("potentials", pot, "current_electrodes", cur), ("currents", cur, "potential_electrodes", pot)):
        try:
            setattr(entity, link, partner)
            bad.append(f"{side}: cross-workspace link was not refused")
        except KeyError:
            pass
        if getattr(entity, link) is partner:
            bad.append(f"{side} side: link refused (KeyError) but {entity.name}.{link} answers the rejected partner; metadata={entity.metadata}")

    # a valid link afterwards must still work and a re-link must follow the new partner
    a = CurrentElectrode.create(ws1, vertices=v, name="A")
    b = CurrentElectrode.create(ws1, vertices=v + 1, name="B")
    p = PotentialElectrode.create(ws1, vertices=v, name="P")
    p.current_electrodes = a
    assert p.current_electrodes is a
    p.current_electrodes = b
    if p.current_electrodes is not b or b.potential_electrodes is not p:
        bad.append("valid re-link does not follow the new partner")

for line in bad:
    print("DEFECT:", line)
sys.exit(1 if bad else 0)
