"""C20.LINKCACHE on the clean tree: the direct-current link setters never re-bind the partner cache.

PotentialElectrode.current_electrodes / CurrentElectrode.potential_electrodes (setters) write the two identifiers into the
metadata of both entities but leave self._current_electrodes / self._potential_electrodes alone; the getters answer from that
cache once it is filled.  After RE-linking an electrode whose partner was already resolved, the getter keeps returning the OLD
partner while the metadata (in memory and on file) names the new one; copy() then copies and links the stale partner.
Run: PYTHONPATH=/repo /venv/bin/python /verif/repro/c20_dc_relink_stale_partner_cache.py   (exit 1 = defect present)
"""
import os
import sys
import tempfile

import numpy as np

from geoh5py.objects import CurrentElectrode, PotentialElectrode
from geoh5py.workspace import Workspace

bad = []
d = tempfile.mkdtemp()
with Workspace.create(os.path.join(d, "dc.geoh5")) as ws:
    v = np.c_[np.arange(6.0), np.zeros(6), np.zeros(6)]
    a = CurrentElectrode.create(ws, name="A", vertices=v)
    a.add_default_ab_cell_id()
    b = CurrentElectrode.create(ws, name="B", vertices=v + 1)
    b.add_default_ab_cell_id()
    p = PotentialElectrode.create(ws, name="P", vertices=v)
    q = PotentialElectrode.create(ws, name="Q", vertices=v + 2)

    p.current_electrodes = a
    assert p.current_electrodes is a  # fills the cache
    p.current_electrodes = b  # re-link from the potentials side
    if p.metadata["Current Electrodes"] == b.uid and p.current_electrodes is not b:
        bad.append(f"potentials side: metadata names B, getter answers {p.current_electrodes.name}")

    a.potential_electrodes = p
    assert a.potential_electrodes is p
    a.potential_electrodes = q  # re-link from the currents side
    if a.metadata["Potential Electrodes"] == q.uid and a.potential_electrodes is not q:
        bad.append(f"currents side: metadata names Q, getter answers {a.potential_electrodes.name}")

    uid_p = p.uid

with Workspace(os.path.join(d, "dc.geoh5")) as ws:
    p2 = ws.get_entity(uid_p)[0]
    print("after re-opening P resolves:", p2.current_electrodes.name)

for line in bad:
    print("DEFECT:", line)
sys.exit(1 if bad else 0)
