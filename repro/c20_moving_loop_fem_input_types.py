import numpy as np, tempfile, os
from geoh5py import Workspace
from geoh5py.objects import MovingLoopGroundFEMReceivers, MovingLoopGroundTEMReceivers
d=tempfile.mkdtemp()
with Workspace.create(os.path.join(d,"a.geoh5")) as ws:
    for cls in (MovingLoopGroundTEMReceivers, MovingLoopGroundFEMReceivers):
        rx=cls.create(ws, vertices=np.random.rand(4,3))
        try:
            print(cls.__name__, rx.default_input_types)
            rx.input_type="Rx"
            print("  input_type set:", rx.input_type)
        except Exception as e:
            print("  ERR", type(e).__name__, e)
