"""C20: after re-opening, any shared-parameter edit through the TRANSMITTERS empties the shared 'Property groups'.

BaseEMSurvey.metadata (getter), first access after loading, rewrites metadata['EM Dataset']['Property groups'] keeping only the
groups that self.get_property_group() finds on THIS entity; the component groups live on the receivers, so on the transmitters
the list becomes [].  The next edit through the transmitters pushes that dictionary to the receivers and stores it on both.
Run: PYTHONPATH=/repo /venv/bin/python /verif/repro/c20_property_groups_emptied.py     (exit 1 = defect present)
"""
import sys
import tempfile
from pathlib import Path

import numpy as np

from geoh5py.objects import AirborneTEMReceivers, AirborneTEMTransmitters
from geoh5py.workspace import Workspace

d = Path(tempfile.mkdtemp())
v = np.c_[np.linspace(0, 100, 10), np.zeros(10), np.zeros(10)]
with Workspace.create(d / "a.geoh5") as ws:
    r = AirborneTEMReceivers.create(ws, vertices=v, name="r")
    t = AirborneTEMTransmitters.create(ws, vertices=v, name="t")
    r.transmitters = t
    r.channels = [1.0, 2.0]
    r.add_components_data({"dbdt": {f"c{i}": {"values": np.ones(10)} for i in range(2)}})
    before = list(r.metadata["EM Dataset"]["Property groups"])
with Workspace(d / "a.geoh5") as ws:
    ws.get_entity("t")[0].unit = "Seconds (s)"  # an unrelated shared parameter, edited through the transmitters
with Workspace(d / "a.geoh5") as ws:
    after = ws.get_entity("r")[0].metadata["EM Dataset"]["Property groups"]
if list(after) != before:
    print(f"DEFECT: receivers' 'Property groups' {before} -> {after} after `transmitters.unit = ...` on the re-opened file")
    sys.exit(1)
