"""C20: re-linking from one side leaves the PARTNER's cached link pointing at its previous partner.

EM:  r1.transmitters = t ; t.receivers (cached r1) ; r2.transmitters = t  ->  t's metadata records r2, t.receivers answers r1.
DC:  p1.current_electrodes = c ; c.potential_electrodes (cached p1) ; p2.current_electrodes = c -> c's metadata records p2,
     c.potential_electrodes answers p1.      (in memory, until the file is re-opened; copies started from t / c follow the stale partner)
Run: PYTHONPATH=/repo /venv/bin/python /verif/repro/c20_relink_partner_cache.py     (exit 1 = defect present)
"""
import sys
import tempfile
from pathlib import Path

import numpy as np

from geoh5py.objects import (AirborneTEMReceivers, AirborneTEMTransmitters, CurrentElectrode, PotentialElectrode,
                             TipperBaseStations, TipperReceivers)
from geoh5py.workspace import Workspace

bad = []
d = Path(tempfile.mkdtemp())
v = np.c_[np.arange(6.0), np.zeros(6), np.zeros(6)]
with Workspace.create(d / "w.geoh5") as ws:
    r1 = AirborneTEMReceivers.create(ws, vertices=v, name="r1")
    r2 = AirborneTEMReceivers.create(ws, vertices=v, name="r2")
    t = AirborneTEMTransmitters.create(ws, vertices=v, name="t")
    r1.transmitters = t
    assert t.receivers is r1
    r2.transmitters = t
    recorded = ws.get_entity(t.metadata["EM Dataset"]["Receivers"])[0]
    if t.receivers is not recorded:
        bad.append(f"EM: t's metadata records {recorded.name}, t.receivers answers {t.receivers.name}")

    b = TipperBaseStations.create(ws, vertices=v[:1], name="b")
    x1 = TipperReceivers.create(ws, vertices=v, name="x1")
    x2 = TipperReceivers.create(ws, vertices=v, name="x2")
    x1.base_stations = b
    assert b.receivers is x1
    x2.base_stations = b
    recorded = ws.get_entity(b.metadata["EM Dataset"]["Receivers"])[0]
    if b.receivers is not recorded:
        bad.append(f"tipper: b's metadata records {recorded.name}, b.receivers answers {b.receivers.name}")

    c = CurrentElectrode.create(ws, vertices=v, name="c")
    c.add_default_ab_cell_id()
    p1 = PotentialElectrode.create(ws, vertices=v, name="p1")
    p2 = PotentialElectrode.create(ws, vertices=v, name="p2")
    p1.current_electrodes = c
    assert c.potential_electrodes is p1
    p2.current_electrodes = c
    recorded = ws.get_entity(c.metadata["Potential Electrodes"])[0]
    if c.potential_electrodes is not recorded:
        bad.append(f"DC: c's metadata records {recorded.name}, c.potential_electrodes answers {c.potential_electrodes.name}")

for line in bad:
    print("DEFECT:", line)
sys.exit(1 if bad else 0)
