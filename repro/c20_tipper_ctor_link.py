"""C20 / tipper: TipperReceivers.create(ws, ..., base_stations=base) links only the cache.

TipperSurvey.__init__ stores the keyword in self._base_stations without recording it: the getter answers `base`, but neither
metadata names the other entity, and the first metadata access through the receivers pushes the receivers' default dictionary
onto the base stations (whose own "Base stations" identifier becomes None, in memory and on file).
Run: PYTHONPATH=/repo /venv/bin/python /verif/repro/c20_tipper_ctor_link.py     (exit 1 = defect present)
"""
import sys
import tempfile
from pathlib import Path

import numpy as np

from geoh5py.objects import TipperBaseStations, TipperReceivers
from geoh5py.workspace import Workspace

bad = []
d = Path(tempfile.mkdtemp())
v = np.c_[np.linspace(0, 100, 10), np.zeros(10), np.zeros(10)]
with Workspace.create(d / "t.geoh5") as ws:
    base = TipperBaseStations.create(ws, vertices=v[:1], name="base")
    rx = TipperReceivers.create(ws, vertices=v, base_stations=base, name="rx")
    if rx.base_stations is base:
        em_rx, em_base = rx.metadata["EM Dataset"], base.metadata["EM Dataset"]
        if em_rx.get("Base stations") != base.uid:
            bad.append(f"rx answers base_stations=base but records 'Base stations': {em_rx.get('Base stations')}")
        if em_base.get("Base stations") != base.uid:
            bad.append(f"the base stations' own identifier was overwritten: 'Base stations': {em_base.get('Base stations')}")
        if em_base.get("Receivers") != rx.uid:
            bad.append(f"base records 'Receivers': {em_base.get('Receivers')}")
    uid = rx.uid
with Workspace(d / "t.geoh5") as ws:
    rx = ws.get_entity(uid)[0]
    if rx.base_stations is None:
        bad.append("after re-opening the receivers do not resolve the base stations given to the constructor")
for line in bad:
    print("DEFECT:", line)
sys.exit(1 if bad else 0)
