import numpy as np, tempfile, os
from geoh5py import Workspace
from geoh5py.objects import TipperReceivers, TipperBaseStations
d=tempfile.mkdtemp()
with Workspace.create(os.path.join(d,"a.geoh5")) as ws:
    rx=TipperReceivers.create(ws, vertices=np.random.rand(4,3))
    bs=TipperBaseStations.create(ws, vertices=np.random.rand(1,3))
    rx.base_stations=bs
    try:
        print(rx.default_units)
        rx.unit="Hertz (Hz)"
        print("unit set:", rx.unit, bs.unit)
    except Exception as e:
        print("ERR", type(e).__name__, e)
