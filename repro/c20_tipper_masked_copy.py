"""C20 / tipper: a masked copy (copy(mask=...), copy_from_extent) of receivers linked to a SINGLE-vertex base station fails half-way.

BaseEMSurvey.copy_complement hands the receivers' vertex mask to the partner's copy; the base_stations setter explicitly allows a
base station with 1 vertex, for which that mask has the wrong shape: ValueError after the receivers copy was already created
(an orphan, unlinked copy stays in the workspace).
Run: PYTHONPATH=/repo /venv/bin/python /verif/repro/c20_tipper_masked_copy.py     (exit 1 = defect present)
"""
import sys
import tempfile
from pathlib import Path

import numpy as np

from geoh5py.objects import TipperBaseStations, TipperReceivers
from geoh5py.workspace import Workspace

bad = []
d = Path(tempfile.mkdtemp())
v = np.c_[np.linspace(0, 100, 10), np.zeros(10), np.zeros(10)]
with Workspace.create(d / "t.geoh5") as ws:
    base = TipperBaseStations.create(ws, vertices=v[:1], name="base")
    rx = TipperReceivers.create(ws, vertices=v, name="rx")
    rx.base_stations = base
    mask = np.zeros(10, bool)
    mask[:4] = True
    n_before = len(ws.objects)
    try:
        new = rx.copy(mask=mask)
        if new.base_stations is None or new.base_stations is base or new.base_stations.receivers is not new:
            bad.append("masked copy is not linked to a copy of the base stations")
        if new.n_vertices != 4 or new.base_stations.n_vertices != 1:
            bad.append(f"unexpected sizes: receivers {new.n_vertices}, base stations {new.base_stations.n_vertices}")
    except ValueError as error:
        bad.append(f"masked copy raises ValueError('{error}'); orphan objects left: {len(ws.objects) - n_before}")
for line in bad:
    print("DEFECT:", line)
sys.exit(1 if bad else 0)
