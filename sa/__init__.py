"""Static analyser for geoh5py (see /verif/DESIGN.md).

Standard library only.  Every verdict is computed from the source text of
/repo's working tree; nothing in here imports or runs the library (the optional
front-end cross-validation in the thorough tier imports the package only to
compare class tables with ``inspect`` and calls no library function).
"""
