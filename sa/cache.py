"""Memoised-getter invalidation rule (C17.CACHE, C18.CACHE).

A memoised getter stores `self.F = <derived value>` under a test `self.F is
None`.  DEPS = backing fields it (transitively) reads.  Every function on the
class' MRO that stores a DEPS field must, on every path on which it does so,
also reset `self.F` (before or after, with no refill of the cache in between).
"""

from __future__ import annotations

import ast

from .cfg import CFG, forward, ordered
from .model import ClassInfo, FuncInfo, Project, unparse

NOT_FOLLOWED = {"uid", "on_file", "workspace", "parent", "entity_type", "name", "attribute_map"}


def none_tested_field(test, sn) -> set[str]:
    """Fields `f` for which `test` being true implies self.f is None."""
    out = set()
    conj = test.values if isinstance(test, ast.BoolOp) and isinstance(test.op, ast.And) else [test]
    for c in conj:
        if isinstance(c, ast.Compare) and len(c.ops) == 1 and isinstance(c.ops[0], ast.Is):
            if isinstance(c.comparators[0], ast.Constant) and c.comparators[0].value is None:
                l = c.left
                if isinstance(l, ast.Attribute) and isinstance(l.value, ast.Name) and l.value.id == sn:
                    out.add(l.attr)
                elif (
                    isinstance(l, ast.Call)
                    and isinstance(l.func, ast.Name)
                    and l.func.id == "getattr"
                    and len(l.args) >= 2
                    and isinstance(l.args[0], ast.Name)
                    and l.args[0].id == sn
                    and isinstance(l.args[1], ast.Constant)
                ):
                    out.add(l.args[1].value)
        if isinstance(c, ast.UnaryOp) and isinstance(c.op, ast.Not):
            l = c.operand
            if isinstance(l, ast.Attribute) and isinstance(l.value, ast.Name) and l.value.id == sn:
                out.add(l.attr)
    return out


def _is_fetch(value) -> bool:
    for n in ast.walk(value):
        if isinstance(n, ast.Call) and isinstance(n.func, ast.Attribute) and n.func.attr.startswith("fetch_"):
            return True
    return False


def memo_getters(K: ClassInfo):
    """(property name, cache field, getter) for derived-value memoisation on K's MRO."""
    out = []
    seen = set()
    for c in K.mro:
        if isinstance(c, str):
            continue
        for name, pr in c.props.items():
            if name in seen:
                continue
            seen.add(name)
            g = pr.getter
            if g is None:
                continue
            sn = g.self_name
            for n in ast.walk(g.node):
                if not isinstance(n, ast.If):
                    continue
                flds = none_tested_field(n.test, sn)
                for st in ast.walk(ast.Module(body=n.body, type_ignores=[])):
                    if isinstance(st, ast.Assign):
                        for t in st.targets:
                            if (
                                isinstance(t, ast.Attribute)
                                and isinstance(t.value, ast.Name)
                                and t.value.id == sn
                                and t.attr in flds
                                and not _is_fetch(st.value)
                            ):
                                if (name, t.attr) not in [(a, b) for a, b, _ in out]:
                                    out.append((name, t.attr, g))
    return out


def deps(K: ClassInfo, getter: FuncInfo, cache_field: str, _seen=None) -> set[str]:
    """Backing fields transitively read by `getter` on class K."""
    seen = _seen if _seen is not None else set()
    out: set[str] = set()
    if getter in seen:
        return out
    seen.add(getter)
    sn = getter.self_name
    for n in ast.walk(getter.node):
        if isinstance(n, ast.Attribute) and isinstance(n.value, ast.Name) and n.value.id == sn and isinstance(n.ctx, ast.Load):
            name = n.attr
            if name in NOT_FOLLOWED or name.startswith("__"):
                continue
            m = K.lookup(name)
            if m and m[1] == "prop" and m[2].getter is not None:
                out |= deps(K, m[2].getter, cache_field, seen)
            elif m and m[1] == "method":
                out |= deps(K, m[2], cache_field, seen)
            elif name.startswith("_"):
                out.add(name)
        elif (
            isinstance(n, ast.Call) and isinstance(n.func, ast.Name) and n.func.id == "getattr"
            and len(n.args) >= 2 and isinstance(n.args[0], ast.Name) and n.args[0].id == sn
            and isinstance(n.args[1], ast.Constant) and str(n.args[1].value).startswith("_")
        ):
            out.add(n.args[1].value)
    out.discard(cache_field)
    return {f for f in out if "_" + f[1:] == f and f[1:] not in NOT_FOLLOWED}


def readers_of_cache(K: ClassInfo, cache_prop: str, cache_field: str) -> set[str]:
    """Property / method names whose evaluation may refill the cache."""
    out = {cache_prop}
    names = set()
    for c in K.mro:
        if not isinstance(c, str):
            names |= set(c.props) | set(c.methods)
    changed = True
    while changed:
        changed = False
        for name in sorted(names - out):
            m = K.lookup(name)
            if m is None:
                continue
            fn = m[2].getter if m[1] == "prop" else m[2] if m[1] == "method" else None
            if fn is None or fn.self_name is None:
                continue
            sn = fn.self_name
            for n in ast.walk(fn.node):
                if isinstance(n, ast.Attribute) and isinstance(n.value, ast.Name) and n.value.id == sn and n.attr in out:
                    out.add(name)
                    changed = True
                    break
    return out


class CacheAnalysis:
    """Interprocedural (summaries of self.m() / self.prop = v) invalidation check."""

    def __init__(self, K: ClassInfo, cache_field: str, dep_fields: set[str], refillers: set[str], max_depth: int = 5):
        self.K = K
        self.F = cache_field
        self.deps = dep_fields
        self.refill = refillers
        self.max_depth = max_depth
        self.memo: dict = {}

    def summary(self, fn: FuncInfo, depth=0, stack=()):
        """(dirty at exit: frozenset[(field, line)], fresh at exit: bool, touches: bool)"""
        if fn in self.memo:
            return self.memo[fn]
        if fn in stack or depth > self.max_depth:
            return (frozenset(), False, False)
        sn = fn.self_name
        if sn is None:
            return (frozenset(), False, False)
        K, F, deps, refill = self.K, self.F, self.deps, self.refill
        own_field = "_" + fn.prop if fn.kind == "getter" and fn.prop else None
        g = CFG(fn.node)
        touched = [False]

        def callee(n):
            """FuncInfo reached by a self-call / property store, or None."""
            if isinstance(n, ast.Call) and isinstance(n.func, ast.Attribute):
                v = n.func.value
                if isinstance(v, ast.Name) and v.id == sn:
                    m = K.lookup(n.func.attr)
                    if m and m[1] == "method":
                        return m[2]
                if isinstance(v, ast.Call) and isinstance(v.func, ast.Name) and v.func.id == "super" and fn.cls is not None:
                    mro = [c for c in K.mro if not isinstance(c, str)]
                    if fn.cls in mro:
                        for c in mro[mro.index(fn.cls) + 1:]:
                            o = c.own(n.func.attr)
                            if o is not None:
                                return o[1] if o[0] == "method" else None
            return None

        def transfer(node, st):
            dirty, fresh, none = st
            src = node.ast
            if src is None:
                return st
            for n in ordered(src):
                if isinstance(n, ast.Attribute) and isinstance(n.value, ast.Name) and n.value.id == sn:
                    if isinstance(n.ctx, ast.Load) and n.attr in refill:
                        fresh = False
                    elif isinstance(n.ctx, (ast.Store, ast.Del)):
                        m = K.lookup(n.attr)
                        if n.attr == F:
                            dirty, fresh = frozenset(), True
                            touched[0] = True
                        elif m and m[1] == "prop" and m[2].setter is not None:
                            sub = self.summary(m[2].setter, depth + 1, stack + (fn,))
                            if sub[1]:
                                dirty, fresh = frozenset(), True
                            else:
                                dirty = dirty | sub[0]
                            touched[0] = touched[0] or sub[2]
                        elif n.attr in deps:
                            touched[0] = True
                            if n.attr in none or n.attr == own_field:
                                none = none - {n.attr}  # initialisation / getter normalising its own field
                            elif not fresh:
                                dirty = dirty | {(n.attr, n.lineno)}
                elif isinstance(n, ast.Subscript) and isinstance(n.ctx, (ast.Store, ast.Del)):
                    b = n.value
                    if isinstance(b, ast.Attribute) and isinstance(b.value, ast.Name) and b.value.id == sn and b.attr in deps:
                        touched[0] = True
                        if not fresh:
                            dirty = dirty | {(b.attr, n.lineno)}
                elif isinstance(n, ast.Call):
                    if isinstance(n.func, ast.Name) and n.func.id == "setattr" and len(n.args) == 3 and isinstance(n.args[0], ast.Name) and n.args[0].id == sn and isinstance(n.args[1], ast.Constant):
                        a = n.args[1].value
                        if a == F:
                            dirty, fresh = frozenset(), True
                        elif a in deps and not fresh:
                            dirty = dirty | {(a, n.lineno)}
                            touched[0] = True
                    else:
                        c = callee(n)
                        if c is not None:
                            sub = self.summary(c, depth + 1, stack + (fn,))
                            if sub[1]:
                                dirty, fresh = frozenset(), True
                            else:
                                dirty = dirty | sub[0]
                                if c.name in refill:
                                    fresh = False
                            touched[0] = touched[0] or sub[2]
            st = (dirty, fresh, none)
            if node.kind in ("test", "assert") and node.ast is not None:
                flds = none_tested_field(node.ast, sn)
                if flds:
                    return {"true": (dirty, fresh, none | flds), None: st}
            return st

        def join(a, b):
            if a is None:
                return b
            if b is None:
                return a
            return (a[0] | b[0], a[1] and b[1], a[2] & b[2])

        IN = forward(g, (frozenset(), False, frozenset()), transfer, join, bottom=None)
        end = IN.get(g.exit)
        res = (frozenset(), False, touched[0]) if end is None else (end[0], end[1] and not end[0], touched[0])
        self.memo[fn] = res
        return res
