"""Statement-level control-flow graph and small dataflow framework (DESIGN §2.4).

Two exits: `exit` (normal) and `rexit` (exceptional).  Calls are assumed not to
raise unless they sit in a `try` body / `with` body (then an 'exc' edge goes to
the handlers / cleanup).  `finally` bodies are duplicated per continuation.
"""

from __future__ import annotations

import ast
from collections import deque

from .model import AnalysisError, unparse


class Node:
    __slots__ = ("id", "kind", "ast", "succ", "pred", "stmt")

    def __init__(self, nid, kind, node=None, stmt=None):
        self.id = nid
        self.kind = kind
        self.ast = node
        self.stmt = stmt if stmt is not None else node
        self.succ: list[tuple[Node, str | None]] = []
        self.pred: list[tuple[Node, str | None]] = []

    @property
    def lineno(self):
        n = self.ast if self.ast is not None else self.stmt
        if isinstance(n, list):
            n = n[0] if n else None
        return getattr(n, "lineno", 0)

    def __repr__(self):
        s = unparse(self.ast)[:50] if self.ast is not None and not isinstance(self.ast, list) else ""
        return f"<{self.id}:{self.kind}@{self.lineno} {s}>"


_CATCH_ALL = {"Exception", "BaseException"}


class CFG:
    def __init__(self, fn: ast.FunctionDef):
        self.fn = fn
        self.nodes: list[Node] = []
        self.entry = self._new("entry")
        self.exit = self._new("exit")
        self.rexit = self._new("rexit")
        outs = self._block(fn.body, [(self.entry, None)], ())
        self._connect(outs, self.exit)

    # ------------------------------------------------------------ helpers
    def _new(self, kind, node=None, stmt=None):
        n = Node(len(self.nodes), kind, node, stmt)
        self.nodes.append(n)
        return n

    def _edge(self, a: Node, b: Node, label=None):
        if (b, label) not in a.succ:
            a.succ.append((b, label))
            b.pred.append((a, label))

    def _connect(self, outs, target: Node):
        for n, lab in outs:
            self._edge(n, target, lab)

    # ------------------------------------------------------------ routing
    def _route_exc(self, srcs, frames):
        """Route an exception raised at `srcs` through the enclosing frames."""
        srcs = list(srcs)
        for i in range(len(frames) - 1, -1, -1):
            fr = frames[i]
            outer = frames[:i]
            if fr[0] == "handlers":
                for hn in fr[1]:
                    self._connect(srcs, hn)
                if fr[2]:  # catch-all
                    return
            elif fr[0] == "finally":
                srcs = self._block(fr[1], srcs, outer)
            elif fr[0] == "with":
                x = self._new("withexit", None, fr[1])
                self._connect(srcs, x)
                srcs = [(x, None)]
        self._connect(srcs, self.rexit)

    def _route_jump(self, srcs, frames, kind):
        """return / break / continue through finally and with frames."""
        srcs = list(srcs)
        for i in range(len(frames) - 1, -1, -1):
            fr = frames[i]
            outer = frames[:i]
            if fr[0] == "finally":
                srcs = self._block(fr[1], srcs, outer)
            elif fr[0] == "with":
                x = self._new("withexit", None, fr[1])
                self._connect(srcs, x)
                srcs = [(x, None)]
            elif fr[0] == "loop" and kind in ("break", "continue"):
                if kind == "break":
                    fr[1].extend(srcs)
                else:
                    self._connect(srcs, fr[2])
                return
        if kind != "return":
            raise AnalysisError(f"{kind} outside loop at line {srcs[0][0].lineno if srcs else '?'}")
        self._connect(srcs, self.exit)

    @staticmethod
    def _may_raise_implicitly(node) -> bool:
        if node is None:
            return False
        if isinstance(node, list):
            return any(CFG._may_raise_implicitly(n) for n in node)
        for n in ast.walk(node):
            if isinstance(n, (ast.Call, ast.Subscript, ast.Yield, ast.YieldFrom, ast.Await, ast.Attribute)):
                return True
        return False

    def _implicit(self, node: Node, frames):
        if any(fr[0] in ("handlers", "finally", "with") for fr in frames):
            if self._may_raise_implicitly(node.ast):
                self._route_exc([(node, "exc")], frames)

    # -------------------------------------------------------------- build
    def _block(self, stmts, incoming, frames):
        outs = list(incoming)
        for st in stmts:
            outs = self._stmt(st, outs, frames)
        return outs

    def _stmt(self, st, incoming, frames):
        if isinstance(st, ast.If):
            t = self._new("test", st.test, st)
            self._connect(incoming, t)
            self._implicit(t, frames)
            b = self._block(st.body, [(t, "true")], frames)
            e = self._block(st.orelse, [(t, "false")], frames)
            return b + e
        if isinstance(st, ast.While):
            t = self._new("test", st.test, st)
            self._connect(incoming, t)
            self._implicit(t, frames)
            breaks: list = []
            fr = ("loop", breaks, t)
            b = self._block(st.body, [(t, "true")], frames + (fr,))
            self._connect(b, t)
            e = self._block(st.orelse, [(t, "false")], frames)
            return e + breaks
        if isinstance(st, (ast.For, ast.AsyncFor)):
            h = self._new("foriter", st.iter, st)
            self._connect(incoming, h)
            self._implicit(h, frames)
            t = self._new("fornext", st.target, st)
            self._edge(h, t)
            breaks = []
            fr = ("loop", breaks, t)
            b = self._block(st.body, [(t, "loop")], frames + (fr,))
            self._connect(b, t)
            e = self._block(st.orelse, [(t, "done")], frames)
            return e + breaks
        if isinstance(st, ast.Try):
            hnodes = [self._new("except", h, h) for h in st.handlers]
            catch_all = False
            for h in st.handlers:
                if h.type is None:
                    catch_all = True
                else:
                    names = [h.type] if not isinstance(h.type, ast.Tuple) else h.type.elts
                    for nm in names:
                        if isinstance(nm, ast.Name) and nm.id in _CATCH_ALL:
                            catch_all = True
            inner = frames
            if st.finalbody:
                inner = inner + (("finally", st.finalbody),)
            body_frames = inner + (("handlers", hnodes, catch_all),) if st.handlers else inner
            b = self._block(st.body, incoming, body_frames)
            e = self._block(st.orelse, b, inner)
            outs = list(e)
            for h, hn in zip(st.handlers, hnodes):
                outs += self._block(h.body, [(hn, None)], inner)
            if st.finalbody:
                outs = self._block(st.finalbody, outs, frames)
            return outs
        if isinstance(st, (ast.With, ast.AsyncWith)):
            w = self._new("with", st, st)
            self._connect(incoming, w)
            self._implicit(w, frames)
            b = self._block(st.body, [(w, None)], frames + (("with", st),))
            x = self._new("withexit", None, st)
            self._connect(b, x)
            return [(x, None)]
        if isinstance(st, ast.Return):
            r = self._new("return", st.value, st)
            self._connect(incoming, r)
            self._implicit(r, frames)
            self._route_jump([(r, None)], frames, "return")
            return []
        if isinstance(st, ast.Raise):
            r = self._new("raise", st.exc, st)
            self._connect(incoming, r)
            self._route_exc([(r, "raise")], frames)
            return []
        if isinstance(st, ast.Assert):
            a = self._new("assert", st.test, st)
            self._connect(incoming, a)
            self._route_exc([(a, "false")], frames)
            return [(a, "true")]
        if isinstance(st, ast.Break):
            n = self._new("break", None, st)
            self._connect(incoming, n)
            self._route_jump([(n, None)], frames, "break")
            return []
        if isinstance(st, ast.Continue):
            n = self._new("continue", None, st)
            self._connect(incoming, n)
            self._route_jump([(n, None)], frames, "continue")
            return []
        if isinstance(st, (ast.FunctionDef, ast.AsyncFunctionDef, ast.ClassDef)):
            n = self._new("def", None, st)
            self._connect(incoming, n)
            return [(n, None)]
        if hasattr(ast, "Match") and isinstance(st, ast.Match):
            raise AnalysisError(f"match statement at line {st.lineno}: not modelled")
        if hasattr(ast, "TryStar") and isinstance(st, ast.TryStar):
            raise AnalysisError(f"try* at line {st.lineno}: not modelled")
        n = self._new("stmt", st, st)
        self._connect(incoming, n)
        self._implicit(n, frames)
        return [(n, None)]

    # ------------------------------------------------------------ queries
    def reachable(self):
        seen = {self.entry}
        dq = deque([self.entry])
        while dq:
            n = dq.popleft()
            for m, _ in n.succ:
                if m not in seen:
                    seen.add(m)
                    dq.append(m)
        return seen


def ordered(node):
    """Sub-nodes of a statement/expression in (approximate) evaluation order:
    operands before operators, right-hand side before assignment targets."""
    if node is None:
        return
    if isinstance(node, list):
        for n in node:
            yield from ordered(n)
        return
    if isinstance(node, ast.Assign):
        yield from ordered(node.value)
        for t in node.targets:
            yield from ordered(t)
        yield node
        return
    if isinstance(node, ast.AnnAssign):
        if node.value is not None:
            yield from ordered(node.value)
            yield from ordered(node.target)
        yield node
        return
    if isinstance(node, ast.AugAssign):
        yield from ordered(node.value)
        yield from ordered(node.target)
        yield node
        return
    if isinstance(node, (ast.With, ast.AsyncWith)):
        for it in node.items:
            yield from ordered(it.context_expr)
            if it.optional_vars is not None:
                yield from ordered(it.optional_vars)
        return
    if isinstance(node, (ast.Lambda, ast.FunctionDef, ast.AsyncFunctionDef, ast.ClassDef)):
        return
    for ch in ast.iter_child_nodes(node):
        yield from ordered(ch)
    yield node


def forward(cfg: CFG, init, transfer, join, bottom=None):
    """Generic forward dataflow.  `transfer(node, in_state)` returns either an
    out state or a dict {edge_label: state, None: default}.  Returns IN states."""
    IN = {cfg.entry: init}
    work = deque([cfg.entry])
    while work:
        n = work.popleft()
        out = transfer(n, IN[n])
        for m, lab in n.succ:
            if isinstance(out, dict):
                s = out.get(lab, out.get(None))
            else:
                s = out
            if s is bottom and bottom is not None:
                continue
            if m not in IN:
                IN[m] = s
                work.append(m)
            else:
                j = join(IN[m], s)
                if j != IN[m]:
                    IN[m] = j
                    work.append(m)
    return IN


def dominators(cfg: CFG):
    """Classic iterative dominator sets over reachable nodes."""
    reach = cfg.reachable()
    order = [n for n in cfg.nodes if n in reach]
    full = frozenset(order)
    dom = {n: full for n in order}
    dom[cfg.entry] = frozenset([cfg.entry])
    changed = True
    while changed:
        changed = False
        for n in order:
            if n is cfg.entry:
                continue
            preds = [p for p, _ in n.pred if p in reach]
            if not preds:
                continue
            new = frozenset.intersection(*[dom[p] for p in preds]) | {n}
            if new != dom[n]:
                dom[n] = new
                changed = True
    return dom


def find_path(cfg: CFG, start: Node, goal, avoid=lambda n: False):
    """Shortest path start -> node satisfying goal(n), not passing nodes with avoid(n)."""
    prev = {start: None}
    dq = deque([start])
    while dq:
        n = dq.popleft()
        if n is not start and goal(n):
            path = []
            while n is not None:
                path.append(n)
                n = prev[n]
            return path[::-1]
        for m, _ in n.succ:
            if m not in prev and not avoid(m):
                prev[m] = n
                dq.append(m)
    return None
