"""Front-end cross-validation (thorough tier, DESIGN §2.2): the static class
model (MRO, properties, setters, attribute maps) must equal what `inspect` sees
on the imported package.  Imports the package, calls no library function."""

from __future__ import annotations

import importlib
import inspect
import sys

from .model import AnalysisError, Project


def cross_validate(project: Project) -> dict:
    if project.repo not in sys.path:
        sys.path.insert(0, project.repo)
    checked = {"classes": 0, "mro": 0, "properties": 0, "attribute_maps": 0, "skipped": []}
    mismatches = []
    live = {}
    for ci in project.classes:
        if ci.synthetic:
            continue
        try:
            mod = importlib.import_module(ci.module.name)
            cls = getattr(mod, ci.name)
        except Exception as exc:  # optional dependency missing etc.
            checked["skipped"].append(f"{ci.qualname}: {type(exc).__name__}")
            continue
        live[ci] = cls
    for ci in project.classes:
        if ci.synthetic:
            a, b = ci.bases
            if a not in live or b not in live:
                continue
            cls = type(ci.name, (live[a], live[b]), {})
        elif ci in live:
            cls = live[ci]
        else:
            continue
        checked["classes"] += 1
        known = {c.name for c in project.classes} | {c.name for c in project.classes_all()}
        live_mro = [c.__name__ for c in cls.__mro__ if c.__name__ in known]
        model_mro = [c.name for c in ci.mro if not isinstance(c, str)]
        if ci.synthetic:
            live_mro = live_mro
        if live_mro != model_mro:
            mismatches.append(f"MRO of {ci.name}: live {live_mro} vs model {model_mro}")
        checked["mro"] += 1
        for name in dir(cls):
            if name.startswith("__"):
                continue
            try:
                obj = inspect.getattr_static(cls, name)
            except AttributeError:
                continue
            if isinstance(obj, property):
                m = ci.lookup(name)
                checked["properties"] += 1
                if not m or m[1] != "prop":
                    # pydantic / descriptor-generated properties are outside the model's scope
                    if any(isinstance(c, str) and c in ("BaseModel",) for c in ci.mro):
                        continue
                    mismatches.append(f"{ci.name}.{name}: property live, {m[1] if m else 'missing'} in model")
                    continue
                if (obj.fset is not None) != (m[2].setter is not None):
                    mismatches.append(f"{ci.name}.{name}: setter live={obj.fset is not None} model={m[2].setter is not None}")
                elif obj.fset is not None and obj.fset.__code__.co_firstlineno not in (
                    m[2].setter.node.lineno, *[d.lineno for d in m[2].setter.node.decorator_list]
                ):
                    mismatches.append(f"{ci.name}.{name}: setter resolves to a different function (line {obj.fset.__code__.co_firstlineno} vs {m[2].setter.node.lineno})")
        amap_live = getattr(cls, "_attribute_map", None)
        if isinstance(amap_live, dict):
            amap_model = project.attribute_map(ci)
            checked["attribute_maps"] += 1
            if amap_model != amap_live:
                mismatches.append(f"_attribute_map of {ci.name} differs: {set(amap_live.items()) ^ set((amap_model or {}).items())}")
    if mismatches:
        raise AnalysisError("front-end cross-validation failed: " + "; ".join(mismatches[:6]))
    if checked["classes"] < 150:
        raise AnalysisError(f"front-end cross-validation covered only {checked['classes']} classes")
    return checked
