"""Field / argument / global effect analysis with shallow-copy aliasing (DESIGN §2.5).

Abstract values ("tags") of expressions:
  ('self',)                 the receiver object
  ('field', f, d)           the object stored in self.f (d = 0) or something reachable inside it (d >= 1)
  ('param', p, d)           the object passed as parameter p, or something inside it
  ('copy', t)               a *shallow* copy of t: mutating the copy is harmless, its elements are t's elements
  ('global', name)          a module-level / class-level object
  ('fresh',)                anything else
Effects of a function: stores and in-place mutations whose target is self, a
field of self, something inside a parameter, or a global / class attribute.
"""

from __future__ import annotations

import ast
from dataclasses import dataclass

from .model import ClassInfo, FuncInfo, Project, chain, unparse

MUTATORS = {
    "append", "extend", "insert", "remove", "pop", "clear", "update", "setdefault",
    "sort", "reverse", "popitem", "add", "discard", "fill", "resize", "put", "itemset",
    "__setitem__", "__delitem__", "difference_update", "intersection_update", "symmetric_difference_update",
}
SHALLOW = {"copy"}
SHALLOW_CTORS = {"dict", "list", "set", "tuple", "sorted", "reversed", "frozenset"}
ELEMENT_METHODS = {"get", "values", "items", "pop", "popitem", "setdefault", "__getitem__", "keys"}
DEEP = {"deepcopy"}


@dataclass(frozen=True)
class Effect:
    kind: str  # 'store' | 'mutate'
    target: tuple  # ('field', f, d) | ('param', p, d) | ('global', name) | ('self',)
    line: int
    where: str
    via: tuple = ()
    origin: tuple = ()  # (FuncInfo of the site, target at the site, statement text)
    chain: tuple = ()  # FuncInfos from the summarised function down to the site

    def describe(self) -> str:
        t = self.target
        if t[0] == "field":
            what = f"self.{t[1]}" + (" (element)" if t[2] else "")
        elif t[0] == "param":
            what = f"argument {t[1]}" + (" (element)" if t[2] else "")
        elif t[0] == "global":
            what = f"global/class attribute {t[1]}"
        else:
            what = "self"
        v = f" via {' -> '.join(self.via)}" if self.via else ""
        return f"{self.kind} {what} at {self.where}{v}"


def alpha_rename(fn_node):
    """Copy of the function AST in which every comprehension's bound names are
    renamed apart (Python 3 comprehensions have their own scope)."""
    import copy

    node = copy.deepcopy(fn_node)
    counter = [0]

    def rename(comp):
        bound = {}
        for gen in comp.generators:
            for n in ast.walk(gen.target):
                if isinstance(n, ast.Name):
                    if n.id not in bound:
                        counter[0] += 1
                        bound[n.id] = f"{n.id}@c{counter[0]}"
        if not bound:
            return
        first_iter = comp.generators[0].iter  # evaluated in the enclosing scope
        for n in ast.walk(comp):
            if isinstance(n, ast.Name) and n.id in bound:
                if any(n is x for x in ast.walk(first_iter)):
                    continue
                n.id = bound[n.id]

    # inner comprehensions first
    comps = [n for n in ast.walk(node) if isinstance(n, (ast.ListComp, ast.SetComp, ast.DictComp, ast.GeneratorExp))]
    for c in reversed(comps):
        rename(c)
    return node


def elem(tag):
    if tag[0] == "box":
        return tag[1]
    if tag[0] == "copy":
        return elem(tag[1])
    if tag[0] == "field":
        return ("field", tag[1], tag[2] + 1)
    if tag[0] == "param":
        return ("param", tag[1], tag[2] + 1)
    if tag[0] == "self":
        return ("fresh",)
    if tag[0] == "global":
        return tag
    return ("fresh",)


class EffectAnalysis:
    def __init__(self, proj: Project, scope=None, cha_scope=None, max_depth=6, dynamic_calls=None):
        self.p = proj
        self.scope = scope  # set of Module or None (all)
        self.cha_scope = cha_scope or scope
        self.max_depth = max_depth
        self.memo: dict = {}
        self.unresolved: list[str] = []
        self.dynamic_calls = dynamic_calls or (lambda fn, call: None)
        self._by_name: dict[str, list[FuncInfo]] | None = None
        self._renamed: dict = {}

    def body(self, fn: FuncInfo):
        if fn not in self._renamed:
            self._renamed[fn] = alpha_rename(fn.node)
        return self._renamed[fn]

    # ------------------------------------------------------------------ env
    def env(self, fn: FuncInfo, K: ClassInfo | None):
        key = ("env", fn, K)
        if key in self.memo:
            return self.memo[key]
        sn = fn.self_name
        a = fn.node.args
        params = [x.arg for x in a.posonlyargs + a.args + a.kwonlyargs]
        if a.vararg:
            params.append(a.vararg.arg)
        if a.kwarg:
            params.append(a.kwarg.arg)
        env: dict[str, set] = {}
        for p_ in params:
            if p_ == sn and fn.kind != "classmethod":
                env[p_] = {("self",)}
            elif p_ == sn and fn.kind == "classmethod":
                env[p_] = {("global", fn.cls.name if fn.cls else "cls")}
            else:
                env[p_] = {("param", p_, 0)}
        globals_decl = set()
        for n in ast.walk(self.body(fn)):
            if isinstance(n, ast.Global):
                globals_decl |= set(n.names)
        changed = True
        rounds = 0
        while changed and rounds < 10:
            changed = False
            rounds += 1
            for n in ast.walk(self.body(fn)):
                binds = []
                if isinstance(n, ast.Assign):
                    v = self.eval(n.value, env, fn, K)
                    for t in n.targets:
                        binds += self._bind(t, v, n.value, env, fn, K)
                elif isinstance(n, ast.AnnAssign) and n.value is not None:
                    binds += self._bind(n.target, self.eval(n.value, env, fn, K), n.value, env, fn, K)
                elif isinstance(n, (ast.For, ast.comprehension)):
                    it = self.eval(n.iter, env, fn, K)
                    ev = {elem(t) for t in it}
                    binds += self._bind(n.target, ev, None, env, fn, K, spread=True)
                elif isinstance(n, ast.withitem) and n.optional_vars is not None:
                    binds += self._bind(n.optional_vars, self.eval(n.context_expr, env, fn, K), None, env, fn, K)
                elif isinstance(n, ast.NamedExpr):
                    binds += self._bind(n.target, self.eval(n.value, env, fn, K), n.value, env, fn, K)
                for name, tags in binds:
                    if name in globals_decl:
                        continue
                    cur = env.setdefault(name, set())
                    new = tags - cur
                    # a parameter re-bound to something else keeps its original tag too
                    if new:
                        cur |= new
                        changed = True
        self.memo[key] = (env, globals_decl)
        return env, globals_decl

    def _bind(self, target, tags, value_node, env, fn, K, spread=False):
        out = []
        if isinstance(target, ast.Name):
            out.append((target.id, set(tags)))
        elif isinstance(target, (ast.Tuple, ast.List)):
            if value_node is not None and isinstance(value_node, (ast.Tuple, ast.List)) and len(value_node.elts) == len(target.elts):
                for t, v in zip(target.elts, value_node.elts):
                    out += self._bind(t, self.eval(v, env, fn, K), v, env, fn, K)
            else:
                sub = set(tags) if spread else {elem(t) for t in tags}
                for t in target.elts:
                    out += self._bind(t, sub, None, env, fn, K, spread=True)
        elif isinstance(target, ast.Starred):
            out += self._bind(target.value, tags, None, env, fn, K, spread)
        return out

    # ----------------------------------------------------------------- eval
    def eval(self, e, env, fn, K) -> set:
        FRESH = {("fresh",)}
        if e is None:
            return FRESH
        if isinstance(e, ast.Name):
            if e.id in env:
                return set(env[e.id]) or FRESH
            r = self.p.resolve_name(fn.module, e.id)
            if r and r[0] == "assign":
                return {("global", e.id)}
            if r and r[0] == "class":
                return {("global", r[1].name)}
            return FRESH
        if isinstance(e, ast.Attribute):
            base = self.eval(e.value, env, fn, K)
            out = set()
            for t in base:
                if t[0] == "self":
                    out.add(("field", e.attr, 0))
                elif t[0] == "global":
                    out.add(("global", f"{t[1]}.{e.attr}"))
                else:
                    out.add(elem(t))
            return out or FRESH
        if isinstance(e, ast.Subscript):
            if isinstance(e.slice, ast.Slice):
                # list slicing copies; numpy slicing views — treat as shallow copy
                return {("copy", t) for t in self.eval(e.value, env, fn, K)}
            return {elem(t) for t in self.eval(e.value, env, fn, K)}
        if isinstance(e, ast.Call):
            f = e.func
            if isinstance(f, ast.Attribute):
                if f.attr in SHALLOW and not e.args:
                    return {("copy", t) for t in self.eval(f.value, env, fn, K)}
                if f.attr in ("values", "items", "keys"):
                    # a view whose iteration yields the elements (for k, v in d.items(): v is an element of d)
                    return {("box", elem(t)) for t in self.eval(f.value, env, fn, K)}
                if f.attr in ELEMENT_METHODS:
                    out = {elem(t) for t in self.eval(f.value, env, fn, K)}
                    if f.attr in ("get", "pop", "setdefault") and len(e.args) > 1:
                        out |= self.eval(e.args[1], env, fn, K)
                    return out
                if f.attr in DEEP:
                    return FRESH
                return FRESH
            if isinstance(f, ast.Name):
                if f.id in SHALLOW_CTORS and len(e.args) == 1:
                    return {("copy", t) for t in self.eval(e.args[0], env, fn, K)}
                if f.id in ("deepcopy",):
                    return FRESH
                if f.id in ("getattr",) and len(e.args) >= 2 and isinstance(e.args[1], ast.Constant):
                    base = self.eval(e.args[0], env, fn, K)
                    out = set()
                    for t in base:
                        out.add(("field", e.args[1].value, 0) if t[0] == "self" else elem(t))
                    return out
                if f.id in ("cast",) and len(e.args) == 2:
                    return self.eval(e.args[1], env, fn, K)
                if f.id in ("enumerate", "zip", "iter", "filter"):
                    out = set()
                    for a in e.args:
                        out |= {("copy", t) for t in self.eval(a, env, fn, K)}
                    return out or FRESH
            return FRESH
        if isinstance(e, (ast.Tuple, ast.List, ast.Set)):
            out = set()
            for x in e.elts:
                out |= {("box", t) for t in self.eval(x, env, fn, K) if t[0] != "fresh"}
            return out or FRESH
        if isinstance(e, ast.Dict):
            out = set()
            for x in e.values:
                if x is not None:
                    out |= {("box", t) for t in self.eval(x, env, fn, K) if t[0] != "fresh"}
            return out or FRESH
        if isinstance(e, (ast.ListComp, ast.SetComp, ast.GeneratorExp)):
            return {("box", t) for t in self.eval(e.elt, env, fn, K) if t[0] != "fresh"} or FRESH
        if isinstance(e, ast.DictComp):
            return {("box", t) for t in self.eval(e.value, env, fn, K) if t[0] != "fresh"} or FRESH
        if isinstance(e, ast.IfExp):
            return self.eval(e.body, env, fn, K) | self.eval(e.orelse, env, fn, K)
        if isinstance(e, ast.BoolOp):
            out = set()
            for v in e.values:
                out |= self.eval(v, env, fn, K)
            return out
        if isinstance(e, ast.NamedExpr):
            return self.eval(e.value, env, fn, K)
        if isinstance(e, ast.Starred):
            return self.eval(e.value, env, fn, K)
        if isinstance(e, ast.Await):
            return self.eval(e.value, env, fn, K)
        return FRESH

    # -------------------------------------------------------------- resolve
    def by_name(self, name):
        if self._by_name is None:
            self._by_name = {}
            for f in self.p.all_functions():
                if self.cha_scope is None or f.module in self.cha_scope:
                    self._by_name.setdefault(f.name, []).append(f)
        return self._by_name.get(name, [])

    def callees(self, fn: FuncInfo, K, call: ast.Call, env):
        """[(FuncInfo, receiver tags | None)], resolution kind."""
        dyn = self.dynamic_calls(fn, call)
        if dyn is not None:
            return dyn, "table"
        f = call.func
        sn = fn.self_name
        if isinstance(f, ast.Name):
            r = self.p.resolve_name(fn.module, f.id)
            if r and r[0] == "func":
                return [(r[1], None)], "name"
            if r and r[0] == "class":
                init = r[1].lookup("__init__")
                if init and init[1] == "method":
                    return [(init[2], {("fresh",)})], "ctor"
                return [], "ctor"
            return [], "external"
        if isinstance(f, ast.Attribute):
            ch = chain(f)
            recv = self.eval(f.value, env, fn, K)
            if ch and len(ch) == 2 and ch[0] == sn and K is not None and fn.kind != "staticmethod":
                m = K.lookup(ch[1])
                if m and m[1] == "method":
                    return [(m[2], recv)], "self"
                if m and m[1] == "prop":
                    return [], "prop-call"
            if ch and ch[0] == "super()" and len(ch) == 2 and K is not None and fn.cls is not None:
                mro = [c for c in K.mro if not isinstance(c, str)]
                if fn.cls in mro:
                    for c in mro[mro.index(fn.cls) + 1:]:
                        o = c.own(ch[1])
                        if o and o[0] == "method":
                            return [(o[1], {("self",)})], "super"
                        if o:
                            break
                return [], "super-external"
            if ch:
                r = self.p.resolve_expr(fn.module, f)
                if r and r[0] == "func":
                    tgt = r[1]
                    if tgt.cls is not None and tgt.kind == "method" and call.args:
                        return [(tgt, self.eval(call.args[0], env, fn, K))], "class-attr"
                    return [(tgt, None)], "class-attr"
            if f.attr in MUTATORS or f.attr in ELEMENT_METHODS or f.attr in SHALLOW:
                return [], "builtin"
            cands = [c for c in self.by_name(f.attr) if c.cls is not None]
            if cands and len(cands) <= 12:
                return [(c, recv) for c in cands], "cha"
            return [], "unresolved"
        return [], "unresolved"

    # -------------------------------------------------------------- summary
    def initial_env(self, fn: FuncInfo):
        sn = fn.self_name
        a = fn.node.args
        params = [x.arg for x in a.posonlyargs + a.args + a.kwonlyargs]
        if a.vararg:
            params.append(a.vararg.arg)
        if a.kwarg:
            params.append(a.kwarg.arg)
        env: dict[str, frozenset] = {}
        for p_ in params:
            if p_ == sn and fn.kind != "classmethod":
                env[p_] = frozenset({("self",)})
            elif p_ == sn and fn.kind == "classmethod":
                env[p_] = frozenset({("global", fn.cls.name if fn.cls else "cls")})
            else:
                env[p_] = frozenset({("param", p_, 0)})
        return env

    @staticmethod
    def _join(e1: dict, e2: dict) -> dict:
        out = dict(e1)
        for k, v in e2.items():
            out[k] = out.get(k, frozenset({("fresh",)})) | v if k in out else v | frozenset({("fresh",)})
        for k in e1:
            if k not in e2:
                out[k] = e1[k] | frozenset({("fresh",)})
        return out

    def summary(self, fn: FuncInfo, K: ClassInfo | None = None, depth=0, stack=()) -> frozenset:
        """Flow-sensitive (structured) abstract interpretation of one function:
        assignments to local names are strong updates, branches are joined."""
        if K is None:
            K = fn.cls
        key = (fn, K)
        if key in self.memo:
            return self.memo[key]
        if key in stack or depth > self.max_depth:
            return frozenset()
        if self.scope is not None and fn.module not in self.scope:
            return frozenset()
        effects: set[Effect] = set()
        globals_decl = {nm for n in ast.walk(fn.node) if isinstance(n, ast.Global) for nm in n.names}
        where = lambda n: f"{fn.module.relpath}:{getattr(n, 'lineno', 0)}"  # noqa: E731
        A = self

        cur_stmt = [None]

        def mk(kind, target, n):
            text_node = n
            if isinstance(n, ast.expr) and cur_stmt[0] is not None and isinstance(cur_stmt[0], (ast.Assign, ast.AugAssign, ast.AnnAssign, ast.Delete)):
                text_node = cur_stmt[0]
            return Effect(kind, target, getattr(n, "lineno", 0), where(n), (), (fn, target, unparse(text_node)[:90]), (fn,))

        def lift(e, tgt, kind=None, target=None):
            return Effect(kind or e.kind, target or e.target, e.line, e.where, (tgt.qualname,) + e.via, e.origin, (fn,) + e.chain)

        def hit(kind, tags, n):
            for t in tags:
                if t[0] in ("copy", "box"):
                    continue
                if t[0] in ("field", "param", "global"):
                    effects.add(mk(kind, t, n))
                elif t[0] == "self" and kind == "store":
                    effects.add(mk(kind, t, n))

        def ev(e, env):
            return A.eval(e, env, fn, K)

        def setter_effects(st, n):
            for e in A.summary(st, K, depth + 1, stack + (key,)):
                effects.add(lift(e, st))

        def visit_call(n: ast.Call, env):
            f = n.func
            if isinstance(f, ast.Attribute) and f.attr in MUTATORS:
                base = ev(f.value, env)
                if any(b[0] in ("field", "param", "global") for b in base):
                    cal, kind = A.callees(fn, K, n, env)
                    if kind in ("builtin", "unresolved", "cha", "external"):
                        hit("mutate", base, n)
                        if kind != "cha":
                            return
            if isinstance(f, ast.Name) and f.id == "setattr" and len(n.args) == 3:
                base = ev(n.args[0], env)
                name = n.args[1].value if isinstance(n.args[1], ast.Constant) else "<dynamic>"
                for b in base:
                    if b[0] == "self":
                        m = K.lookup(name) if K is not None and name != "<dynamic>" else None
                        if m and m[1] == "prop" and m[2].setter is not None:
                            setter_effects(m[2].setter, n)
                        else:
                            effects.add(mk("store", ("field", name, 0), n))
                    elif b[0] in ("field", "param"):
                        effects.add(mk("mutate", b, n))
                return
            cal, kind = A.callees(fn, K, n, env)
            if kind == "unresolved" and isinstance(f, ast.Attribute):
                A.unresolved.append(f"{where(n)} {unparse(f)[:40]}")
            for tgt, recv in cal:
                Kc = tgt.cls
                if recv and ("self",) in recv and K is not None and tgt.cls is not None and tgt.cls in K.mro:
                    Kc = K
                sub = A.summary(tgt, Kc, depth + 1, stack + (key,))
                if not sub:
                    continue
                argmap = _argmap(tgt, n, bound=recv is not None and tgt.kind in ("method", "getter", "setter") and not (kind == "class-attr"))
                for e in sub:
                    tt = e.target
                    if tt[0] == "global":
                        effects.add(lift(e, tgt))
                    elif tt[0] in ("field", "self"):
                        if not recv:
                            continue
                        for r in recv:
                            if r[0] == "self":
                                effects.add(lift(e, tgt))
                            elif r[0] in ("field", "param"):
                                effects.add(lift(e, tgt, "mutate", elem(r)))
                    elif tt[0] == "param":
                        arg = argmap.get(tt[1])
                        if arg is None:
                            continue
                        for t in ev(arg, env):
                            d = tt[2]
                            while t[0] in ("copy", "box") and d > 0:
                                t = elem(t)
                                d -= 1
                            if t[0] in ("copy", "box"):
                                continue
                            if t[0] in ("field", "param"):
                                effects.add(lift(e, tgt, "mutate", (t[0], t[1], t[2] + d)))
                            elif t[0] == "global":
                                effects.add(lift(e, tgt, "mutate", t))

        def visit_expr(e, env):
            """Effects of evaluating an expression (calls, comprehensions with their own scope)."""
            if e is None:
                return
            if isinstance(e, (ast.ListComp, ast.SetComp, ast.GeneratorExp, ast.DictComp)):
                cenv = dict(env)
                for gen in e.generators:
                    visit_expr(gen.iter, cenv)
                    bind(gen.target, frozenset(elem(t) for t in ev(gen.iter, cenv)), None, cenv, spread=True)
                    for c in gen.ifs:
                        visit_expr(c, cenv)
                if isinstance(e, ast.DictComp):
                    visit_expr(e.key, cenv)
                    visit_expr(e.value, cenv)
                else:
                    visit_expr(e.elt, cenv)
                return
            if isinstance(e, ast.Lambda):
                return
            for ch in ast.iter_child_nodes(e):
                if isinstance(ch, ast.expr):
                    visit_expr(ch, env)
                elif isinstance(ch, ast.keyword):
                    visit_expr(ch.value, env)
            if isinstance(e, ast.Call):
                visit_call(e, env)
            if isinstance(e, ast.NamedExpr) and isinstance(e.target, ast.Name):
                env[e.target.id] = frozenset(ev(e.value, env))

        def bind(target, tags, value_node, env, spread=False):
            if isinstance(target, ast.Name):
                if target.id in globals_decl:
                    effects.add(mk("store", ("global", target.id), target))
                else:
                    env[target.id] = frozenset(tags) or frozenset({("fresh",)})
            elif isinstance(target, (ast.Tuple, ast.List)):
                if value_node is not None and isinstance(value_node, (ast.Tuple, ast.List)) and len(value_node.elts) == len(target.elts):
                    vals = [frozenset(ev(v, env)) for v in value_node.elts]  # rhs evaluated before any binding
                    for t, v in zip(target.elts, vals):
                        bind(t, v, None, env, spread=True)
                else:
                    sub = frozenset(tags) if spread else frozenset(elem(t) for t in tags)
                    for t in target.elts:
                        bind(t, sub, None, env, spread=True)
            elif isinstance(target, ast.Starred):
                bind(target.value, tags, None, env, spread)
            elif isinstance(target, ast.Attribute):
                store_attr(target, env, target)
            elif isinstance(target, ast.Subscript):
                visit_expr(target.value, env)
                visit_expr(target.slice, env)
                hit("mutate", ev(target.value, env), target)

        def store_attr(t: ast.Attribute, env, n):
            visit_expr(t.value, env)
            for b in ev(t.value, env):
                if b[0] == "self":
                    m = K.lookup(t.attr) if K is not None else None
                    if m and m[1] == "prop":
                        if m[2].setter is not None:
                            setter_effects(m[2].setter, n)
                    else:
                        effects.add(mk("store", ("field", t.attr, 0), n))
                elif b[0] in ("copy", "box"):
                    continue
                elif b[0] in ("field", "param"):
                    effects.add(mk("mutate", b, n))
                elif b[0] == "global":
                    effects.add(mk("store", ("global", f"{b[1]}.{t.attr}"), n))

        def exec_block(stmts, env):
            for st in stmts:
                env = exec_stmt(st, env)
            return env

        def exec_stmt(st, env):
            cur_stmt[0] = st
            if isinstance(st, ast.Assign):
                visit_expr(st.value, env)
                tags = frozenset(ev(st.value, env))
                for t in st.targets:
                    bind(t, tags, st.value, env)
                return env
            if isinstance(st, ast.AnnAssign):
                if st.value is not None:
                    visit_expr(st.value, env)
                    bind(st.target, frozenset(ev(st.value, env)), st.value, env)
                return env
            if isinstance(st, ast.AugAssign):
                visit_expr(st.value, env)
                t = st.target
                if isinstance(t, ast.Name):
                    if t.id in globals_decl:
                        effects.add(mk("store", ("global", t.id), st))
                    else:
                        tags = {tg for tg in env.get(t.id, frozenset()) if tg[0] in ("field", "param", "global")}
                        if tags and isinstance(st.op, (ast.Add, ast.BitOr, ast.BitAnd, ast.Sub)):
                            hit("mutate", tags, st)
                elif isinstance(t, ast.Attribute):
                    store_attr(t, env, st)
                elif isinstance(t, ast.Subscript):
                    visit_expr(t.value, env)
                    hit("mutate", ev(t.value, env), st)
                return env
            if isinstance(st, ast.Delete):
                for t in st.targets:
                    if isinstance(t, ast.Subscript):
                        visit_expr(t.value, env)
                        hit("mutate", ev(t.value, env), st)
                    elif isinstance(t, ast.Attribute):
                        store_attr(t, env, st)
                    elif isinstance(t, ast.Name):
                        env.pop(t.id, None)
                return env
            if isinstance(st, (ast.Expr, ast.Return)):
                visit_expr(st.value, env)
                return env
            if isinstance(st, ast.Raise):
                visit_expr(st.exc, env)
                return env
            if isinstance(st, ast.Assert):
                visit_expr(st.test, env)
                return env
            if isinstance(st, ast.If):
                visit_expr(st.test, env)
                e1 = exec_block(st.body, dict(env))
                e2 = exec_block(st.orelse, dict(env))
                return A._join(e1, e2)
            if isinstance(st, (ast.For, ast.AsyncFor)):
                visit_expr(st.iter, env)
                cur = dict(env)
                for _ in range(2):
                    benv = dict(cur)
                    bind(st.target, frozenset(elem(t) for t in ev(st.iter, benv)), None, benv, spread=True)
                    benv = exec_block(st.body, benv)
                    cur = A._join(cur, benv)
                return exec_block(st.orelse, cur)
            if isinstance(st, ast.While):
                cur = dict(env)
                for _ in range(2):
                    visit_expr(st.test, cur)
                    benv = exec_block(st.body, dict(cur))
                    cur = A._join(cur, benv)
                return exec_block(st.orelse, cur)
            if isinstance(st, (ast.With, ast.AsyncWith)):
                for it in st.items:
                    visit_expr(it.context_expr, env)
                    if it.optional_vars is not None:
                        bind(it.optional_vars, frozenset(ev(it.context_expr, env)), None, env, spread=True)
                return exec_block(st.body, env)
            if isinstance(st, ast.Try):
                e_body = exec_block(st.body, dict(env))
                merged = A._join(env, e_body)
                outs = [exec_block(st.orelse, dict(e_body))]
                for h in st.handlers:
                    henv = dict(merged)
                    if h.name:
                        henv[h.name] = frozenset({("fresh",)})
                    outs.append(exec_block(h.body, henv))
                res_env = outs[0]
                for o in outs[1:]:
                    res_env = A._join(res_env, o)
                return exec_block(st.finalbody, res_env)
            return env

        exec_block(fn.node.body, self.initial_env(fn))
        res = frozenset(effects)
        self.memo[key] = res
        return res


def _flatten(targets):
    for t in targets:
        if isinstance(t, (ast.Tuple, ast.List)):
            yield from _flatten(t.elts)
        elif isinstance(t, ast.Starred):
            yield from _flatten([t.value])
        else:
            yield t


def _argmap(tgt: FuncInfo, call: ast.Call, bound: bool) -> dict:
    a = tgt.node.args
    names = [x.arg for x in a.posonlyargs + a.args]
    if tgt.cls is not None and tgt.kind != "staticmethod" and (bound or tgt.kind == "classmethod"):
        names = names[1:]
    out = {}
    for nm, arg in zip(names, call.args):
        if isinstance(arg, ast.Starred):
            break
        out[nm] = arg
    # *args: map surplus to vararg name
    if a.vararg and len(call.args) > len(names):
        out[a.vararg.arg] = ast.Tuple(elts=list(call.args[len(names):]), ctx=ast.Load())
    for kw in call.keywords:
        if kw.arg is not None:
            out[kw.arg] = kw.value
    return out
