"""Denotation of HDF5 handle expressions in the writer / reader: WHICH node of the file an expression stands for,
computed on the normalised view of a function (helpers expanded, constants substituted) with local aliases expanded —
so `container = project[kind]; container.create_group(key)` and `h5file[base][kind].create_group(key)` denote the same node.

A denotation is a set of paths; a path is (root, seg, seg, ...):
    root:  ("FILE",) | ("PROJECT",) | ("NODE", "<entity expr>") | ("TNODE", "<type expr>") | ("PARAM", "<name>")
    seg:   ("const", frozenset(<possible constant keys>)) | ("uid", "<entity expr whose uid is the key>") | ("key", "<text>")
Paths are normalised: PROJECT/<flat container>/<uid of E> == NODE(E); PROJECT/Types/<type container>/<uid of T> == TNODE(T).
"""

from __future__ import annotations

import ast

from .model import chain, unparse
from .normalize import expanded, single_assignments
from .roles import const_values

FLAT = frozenset({"Data", "Objects", "Groups"})
TYPEC = frozenset({"Data types", "Object types", "Group types"})
MUT_CALLS = {"create_group", "require_group"}


class Den:
    def __init__(self, fn, project=None):
        self.fn = fn
        self.p = project
        self.node = fn.node
        self.sa = single_assignments(fn.node)
        params = fn.params[1:] if fn.kind in ("classmethod", "method") else list(fn.params)
        self.params = params
        self.env: dict[str, set] = {}
        self.uid_of: dict[str, str] = {}
        self._seg_cache: dict = {}
        for prm in params:
            if prm in ("file", "h5file"):
                self.env[prm] = {(("FILE",),)}
            elif prm.endswith("handle"):
                self.env[prm] = {(("PARAM", prm),)}
        if "uid" in params:
            self.uid_of["uid"] = "param:uid"
        changed, rounds = True, 0
        while changed and rounds < 12:
            changed, rounds = False, rounds + 1
            for n in ast.walk(self.node):
                if isinstance(n, ast.With):
                    for it in n.items:
                        if isinstance(it.optional_vars, ast.Name) and isinstance(it.context_expr, ast.Call) and unparse(it.context_expr.func) == "fetch_h5_handle":
                            changed |= self._set(it.optional_vars.id, {(("FILE",),)})
                elif isinstance(n, ast.For):
                    it = n.iter
                    base = it.func.value if isinstance(it, ast.Call) and isinstance(it.func, ast.Attribute) and it.func.attr in ("items", "values") else it
                    bp = self.paths(base)
                    if bp and not isinstance(base, (ast.List, ast.Tuple, ast.Dict)):
                        names = [t.id for t in ast.walk(n.target) if isinstance(t, ast.Name)]
                        if isinstance(it, ast.Call) and it.func.attr == "items" and len(names) == 2:
                            names = names[1:]
                        elif not isinstance(it, ast.Call):
                            names = []
                        for nm in names:
                            changed |= self._set(nm, {p + (("key", "<member>"),) for p in bp})
                elif isinstance(n, (ast.Assign, ast.AnnAssign)) and n.value is not None:
                    tgs = n.targets if isinstance(n, ast.Assign) else [n.target]
                    for t in tgs:
                        if isinstance(t, ast.Name):
                            src = self.uid_expr(n.value)
                            if src is not None and self.uid_of.get(t.id) != src and t.id not in self.sa:
                                self.uid_of[t.id] = src
                                changed = True
                            if t.id not in self.sa:
                                w = self.paths(n.value)
                                if w:
                                    changed |= self._set(t.id, w)

    MAX_LEN, MAX_SET = 7, 48

    def _set(self, name, w):
        cur = self.env.setdefault(name, set())
        w = {p for p in w if len(p) <= self.MAX_LEN}  # self-referential re-bindings (h = h[k] in a loop) would grow without bound
        if len(cur) >= self.MAX_SET or w <= cur:
            return False
        cur |= w
        return True

    # ------------------------------------------------------------------ keys
    def uid_expr(self, e):
        """entity expression E such that e is (a string form of) E.uid"""
        if isinstance(e, ast.Name):
            if e.id in self.uid_of:
                return self.uid_of[e.id]
            if e.id in self.sa:
                return self.uid_expr(self.sa[e.id])
            return None
        if isinstance(e, ast.Attribute) and e.attr == "uid":
            return unparse(expanded(e.value, self.node, self.sa))
        if isinstance(e, ast.Call) and unparse(e.func) in ("as_str_if_uuid", "str") and len(e.args) == 1:
            return self.uid_expr(e.args[0])
        if isinstance(e, ast.Call) and isinstance(e.func, ast.Attribute) and e.func.attr in ("encode",):
            return self.uid_expr(e.func.value)
        return None

    def seg(self, k):
        key = id(k)
        if key not in self._seg_cache:
            self._seg_cache[key] = self._seg(k)
        return self._seg_cache[key]

    def _seg(self, k):
        u = self.uid_expr(k)
        if u is not None:
            return ("uid", u)
        cv = const_values(k, self.node)
        if cv is not None and cv:
            return ("const", frozenset(cv))
        x = expanded(k, self.node, self.sa)
        return ("key", unparse(x))

    # ------------------------------------------------------------------ paths
    @staticmethod
    def norm(p):
        root = p[0]
        if root == ("PROJECT",) and len(p) >= 3 and p[1][0] == "const" and p[1][1] <= FLAT and p[2][0] == "uid":
            return (("NODE", p[2][1]),) + p[3:]
        if root == ("PROJECT",) and len(p) >= 4 and p[1] == ("const", frozenset({"Types"})) and p[2][0] == "const" and p[2][1] <= TYPEC and p[3][0] == "uid":
            return (("TNODE", p[3][1]),) + p[4:]
        return p

    def _is_project_key(self, k, base_paths) -> bool:
        """k names the project group: list(<file>)[0], a local bound to it, or <workspace>.name"""
        x = expanded(k, self.node, self.sa)
        if isinstance(x, ast.Subscript) and isinstance(x.value, ast.Call) and getattr(x.value.func, "id", None) == "list" and unparse(x.slice) == "0":
            return True
        if isinstance(x, ast.Attribute) and x.attr == "name" and unparse(x.value) in self.params:
            return True
        if isinstance(k, ast.Name) and k.id not in self.sa:
            # multi-assigned / loop-bound name: every binding must be the first top-level name
            vals = [n.value for n in ast.walk(self.node) if isinstance(n, ast.Assign) and any(isinstance(t, ast.Name) and t.id == k.id for t in n.targets)]
            return bool(vals) and all(self._is_project_key(v, base_paths) for v in vals if not (isinstance(v, ast.Name) and v.id == k.id))
        return False

    def paths(self, e) -> set:
        if isinstance(e, ast.Name):
            got = set(self.env.get(e.id, set()))
            if not got and e.id in self.sa:
                return self.paths(self.sa[e.id])
            return got
        if isinstance(e, ast.Subscript):
            if isinstance(e.slice, ast.Slice) or (isinstance(e.slice, ast.Tuple) and not e.slice.elts):
                return set()
            return self._child(self.paths(e.value), e.slice)
        if isinstance(e, ast.Attribute) and e.attr in ("attrs",):
            return self.paths(e.value)
        if isinstance(e, ast.IfExp):
            return self.paths(e.body) | self.paths(e.orelse)
        if isinstance(e, ast.Call):
            f = e.func
            acc = self._accessor(e)
            if acc is not None:
                return self._child(self.paths(acc[0]), acc[1])
            if isinstance(f, ast.Attribute):
                base = chain(f.value)
                if f.attr in ("fetch_handle", "write_entity") and base and base[0] in ("H5Writer", "cls") and len(e.args) >= 2:
                    ent = unparse(expanded(e.args[1], self.node, self.sa))
                    kind = "TNODE" if ent.endswith("entity_type") or ent == "entity_type" else "NODE"
                    return {((kind, ent),)}
                if f.attr == "write_entity_type" and base and base[0] in ("H5Writer", "cls") and len(e.args) >= 2:
                    return {(("TNODE", unparse(expanded(e.args[1], self.node, self.sa))),)}
                if f.attr in ("get",) or f.attr in MUT_CALLS:
                    if e.args:
                        return self._child(self.paths(f.value), e.args[0])
                    return self.paths(f.value)
        return set()

    def _accessor(self, call):
        """(handle arg, key arg) when `call` goes to a package function that does nothing but hand out the child `handle[key]`
        (creating it when missing): every return is handle[key] / handle.get(key) / handle.create_group(key) / require_group(key)."""
        if self.p is None:
            return None
        f = call.func
        target = None
        if isinstance(f, ast.Name):
            r = self.p.resolve_name(self.fn.module, f.id)
            if r and r[0] == "func":
                target = r[1]
        elif isinstance(f, ast.Attribute) and isinstance(f.value, ast.Name) and f.value.id in ("cls", "self", "H5Writer", "H5Reader") and self.fn.cls is not None:
            m = self.fn.cls.lookup(f.attr)
            if m and m[1] == "method":
                target = m[2]
        if target is None:
            return None
        ps = target.params[1:] if target.kind in ("method", "classmethod") else target.params
        if len(ps) != 2 or len(call.args) != 2:
            return None
        h, k = ps
        rets = [r for r in ast.walk(target.node) if isinstance(r, ast.Return) and r.value is not None]
        if not rets:
            return None
        for r in rets:
            v = r.value
            ok = (isinstance(v, ast.Subscript) and unparse(v.value) == h and unparse(v.slice) == k) or (
                isinstance(v, ast.Call) and isinstance(v.func, ast.Attribute) and unparse(v.func.value) == h
                and v.func.attr in ("get", "create_group", "require_group") and v.args and unparse(v.args[0]) == k)
            if not ok:
                return None
        # nothing else is done to the handle
        for n in ast.walk(target.node):
            if isinstance(n, (ast.Delete,)) or (isinstance(n, ast.Assign) and any(isinstance(t, ast.Subscript) for t in n.targets)):
                return None
        return call.args[0], call.args[1]

    def _child(self, base_paths, key) -> set:
        out = set()
        for p in base_paths:
            if p == (("FILE",),) and self._is_project_key(key, base_paths):
                out.add((("PROJECT",),))
            else:
                out.add(self.norm(p + (self.seg(key),)))
        return out


def fmt(p) -> str:
    def s(x):
        if x[0] == "const":
            return "|".join(sorted(map(str, x[1])))
        if x[0] == "uid":
            return f"<uid of {x[1]}>"
        if x[0] in ("NODE", "TNODE"):
            return f"{x[0].lower()}({x[1]})"
        if x[0] in ("FILE", "PROJECT"):
            return f"<{x[0].lower()}>"
        return str(x[1])
    return "/".join(s(x) for x in p)
