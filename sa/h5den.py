"""Denotation of HDF5 handle expressions in the writer / reader: WHICH node of the file an expression stands for,
computed on the normalised view of a function (helpers expanded, constants substituted) with local aliases expanded —
so `container = project[kind]; container.create_group(key)` and `h5file[base][kind].create_group(key)` denote the same node.

A denotation is a set of paths; a path is (root, seg, seg, ...):
    root:  ("FILE",) | ("PROJECT",) | ("NODE", "<entity expr>") | ("TNODE", "<type expr>") | ("PARAM", "<name>")
    seg:   ("const", frozenset(<possible constant keys>)) | ("uid", "<entity expr whose uid is the key>") | ("key", "<text>")
Paths are normalised: PROJECT/<flat container>/<uid of E> == NODE(E); PROJECT/Types/<type container>/<uid of T> == TNODE(T).
"""

from __future__ import annotations

import ast

from .model import chain, unparse
from .normalize import expanded, single_assignments
from .roles import const_values

FLAT = frozenset({"Data", "Objects", "Groups"})
TYPEC = frozenset({"Data types", "Object types", "Group types"})
MUT_CALLS = {"create_group", "require_group"}


class Den:
    def __init__(self, fn, project=None, bind=None, env=None, uids=None):
        """bind / env / uids (optional, see `callee_den`): what the parameters stand for at one call site — an expression of the
        caller (substituted like a single-assignment local), the nodes a handle argument denotes, the entity whose uid a key is."""
        self.fn = fn
        self.p = project
        self.node = fn.node
        self.sa = single_assignments(fn.node)
        params = fn.params[1:] if fn.kind in ("classmethod", "method") else list(fn.params)
        self.params = params
        self.env: dict[str, set] = {}
        self.uid_of: dict[str, str] = {}
        self._seg_cache: dict = {}
        for prm in params:
            if prm in ("file", "h5file"):
                self.env[prm] = {(("FILE",),)}
            elif prm.endswith("handle"):
                self.env[prm] = {(("PARAM", prm),)}
        if "uid" in params:
            self.uid_of["uid"] = "param:uid"
        rebound = {x.id for n in ast.walk(fn.node) for x in ast.walk(n) if isinstance(x, ast.Name) and isinstance(x.ctx, ast.Store)}
        for prm, e in (bind or {}).items():
            mentioned = {x.id for x in ast.walk(e) if isinstance(x, ast.Name)}
            if prm not in rebound and not mentioned & (rebound | set(self.sa) | {prm}):  # (no capture, no cycle)
                self.sa[prm] = e
        for prm, w in (env or {}).items():
            if w:
                self.env[prm] = set(w)
        for prm, u in (uids or {}).items():
            self.uid_of[prm] = u
        changed, rounds = True, 0
        while changed and rounds < 12:
            changed, rounds = False, rounds + 1
            for n in ast.walk(self.node):
                if isinstance(n, ast.With):
                    for it in n.items:
                        if isinstance(it.optional_vars, ast.Name) and isinstance(it.context_expr, ast.Call) and unparse(it.context_expr.func) == "fetch_h5_handle":
                            changed |= self._set(it.optional_vars.id, {(("FILE",),)})
                elif isinstance(n, ast.For):
                    it = n.iter
                    base = it.func.value if isinstance(it, ast.Call) and isinstance(it.func, ast.Attribute) and it.func.attr in ("items", "values") else it
                    bp = self.paths(base)
                    if bp and not isinstance(base, (ast.List, ast.Tuple, ast.Dict)):
                        names = [t.id for t in ast.walk(n.target) if isinstance(t, ast.Name)]
                        if isinstance(it, ast.Call) and it.func.attr == "items" and len(names) == 2:
                            names = names[1:]
                        elif not isinstance(it, ast.Call):
                            names = []
                        for nm in names:
                            changed |= self._set(nm, {p + (("key", "<member>"),) for p in bp})
                elif isinstance(n, (ast.Assign, ast.AnnAssign)) and n.value is not None:
                    tgs = n.targets if isinstance(n, ast.Assign) else [n.target]
                    for t in tgs:
                        if isinstance(t, ast.Name):
                            src = self.uid_expr(n.value)
                            if src is not None and self.uid_of.get(t.id) != src and t.id not in self.sa:
                                self.uid_of[t.id] = src
                                changed = True
                            if t.id not in self.sa:
                                w = self.paths(n.value)
                                if w:
                                    changed |= self._set(t.id, w)

    MAX_LEN, MAX_SET = 7, 48

    def _set(self, name, w):
        cur = self.env.setdefault(name, set())
        w = {p for p in w if len(p) <= self.MAX_LEN}  # self-referential re-bindings (h = h[k] in a loop) would grow without bound
        if len(cur) >= self.MAX_SET or w <= cur:
            return False
        cur |= w
        return True

    # ------------------------------------------------------------------ keys
    def uid_expr(self, e):
        """entity expression E such that e is (a string form of) E.uid"""
        if isinstance(e, ast.Name):
            if e.id in self.uid_of:
                return self.uid_of[e.id]
            if e.id in self.sa:
                return self.uid_expr(self.sa[e.id])
            return None
        if isinstance(e, ast.Attribute) and e.attr == "uid":
            return unparse(expanded(e.value, self.node, self.sa))
        if isinstance(e, ast.Call) and unparse(e.func) in ("as_str_if_uuid", "str") and len(e.args) == 1:
            return self.uid_expr(e.args[0])
        if isinstance(e, ast.Call) and isinstance(e.func, ast.Attribute) and e.func.attr in ("encode",):
            return self.uid_expr(e.func.value)
        return None

    def seg(self, k):
        key = id(k)
        if key not in self._seg_cache:
            self._seg_cache[key] = self._seg(k)
        return self._seg_cache[key]

    def _seg(self, k):
        u = self.uid_expr(k)
        if u is not None:
            return ("uid", u)
        cv = const_values(k, self.node)
        if cv is not None and cv:
            return ("const", frozenset(cv))
        x = expanded(k, self.node, self.sa)
        return ("key", unparse(x))

    # ------------------------------------------------------------------ paths
    @staticmethod
    def norm(p):
        root = p[0]
        if root == ("PROJECT",) and len(p) >= 3 and p[1][0] == "const" and p[1][1] <= FLAT and p[2][0] == "uid":
            return (("NODE", p[2][1]),) + p[3:]
        if root == ("PROJECT",) and len(p) >= 4 and p[1] == ("const", frozenset({"Types"})) and p[2][0] == "const" and p[2][1] <= TYPEC and p[3][0] == "uid":
            return (("TNODE", p[3][1]),) + p[4:]
        return p

    def _is_project_key(self, k, base_paths) -> bool:
        """k names the project group: list(<file>)[0], a local bound to it, or <workspace>.name"""
        x = expanded(k, self.node, self.sa)
        if isinstance(x, ast.Subscript) and isinstance(x.value, ast.Call) and getattr(x.value.func, "id", None) == "list" and unparse(x.slice) == "0":
            return True
        if isinstance(x, ast.Attribute) and x.attr == "name" and unparse(x.value) in self.params:
            return True
        if isinstance(k, ast.Name) and k.id not in self.sa:
            # multi-assigned / loop-bound name: every binding must be the first top-level name
            vals = [n.value for n in ast.walk(self.node) if isinstance(n, ast.Assign) and any(isinstance(t, ast.Name) and t.id == k.id for t in n.targets)]
            return bool(vals) and all(self._is_project_key(v, base_paths) for v in vals if not (isinstance(v, ast.Name) and v.id == k.id))
        return False

    def paths(self, e) -> set:
        if isinstance(e, ast.Name):
            got = set(self.env.get(e.id, set()))
            if not got and e.id in self.sa:
                return self.paths(self.sa[e.id])
            return got
        if isinstance(e, ast.Subscript):
            if isinstance(e.slice, ast.Slice) or (isinstance(e.slice, ast.Tuple) and not e.slice.elts):
                return set()
            return self._child(self.paths(e.value), e.slice)
        if isinstance(e, ast.Attribute) and e.attr in ("attrs",):
            return self.paths(e.value)
        if isinstance(e, ast.IfExp):
            return self.paths(e.body) | self.paths(e.orelse)
        if isinstance(e, ast.Call):
            f = e.func
            acc = self._accessor(e)
            if acc is not None:
                return self._child(self.paths(acc[0]), acc[1])
            if isinstance(f, ast.Attribute):
                base = chain(f.value)
                if f.attr in ("fetch_handle", "write_entity") and base and base[0] in ("H5Writer", "cls") and len(e.args) >= 2:
                    ent = unparse(expanded(e.args[1], self.node, self.sa))
                    kind = "TNODE" if ent.endswith("entity_type") or ent == "entity_type" else "NODE"
                    return {((kind, ent),)}
                if f.attr == "write_entity_type" and base and base[0] in ("H5Writer", "cls") and len(e.args) >= 2:
                    return {(("TNODE", unparse(expanded(e.args[1], self.node, self.sa))),)}
                if f.attr in ("get",) or f.attr in MUT_CALLS:
                    if e.args:
                        return self._child(self.paths(f.value), e.args[0])
                    return self.paths(f.value)
        return set()

    def callee_den(self, call, view=None):
        """(callee FuncInfo, Den of the callee at THIS call site) for a call to a package function / method of the same class that was
        not expanded in place: handle arguments carry their denotation, uid arguments the entity they name, every other argument its
        (alias-expanded) expression of the caller.  None when the callee cannot be resolved or the arguments cannot be matched."""
        if self.p is None:
            return None
        target = _resolve_callee(self.fn, self.p, call)
        if target is None or target.node is self.node:
            return None
        a = target.node.args
        if a.vararg or a.kwarg or any(isinstance(x, ast.Starred) for x in call.args) or any(k.arg is None for k in call.keywords):
            return None
        tv_ = target
        if view is not None:
            try:
                tv_ = view(target)
            except Exception:  # noqa: BLE001
                tv_ = target
        params = [x.arg for x in a.posonlyargs + a.args]
        if target.kind in ("method", "classmethod") and isinstance(call.func, ast.Attribute) and params:
            params = params[1:]
        given = dict(zip(params, call.args))
        for k in call.keywords:
            given[k.arg] = k.value
        bind, env, uids = {}, {}, {}
        own = {x.id for x in ast.walk(tv_.node) if isinstance(x, ast.Name) and isinstance(x.ctx, ast.Store)} | set(params)
        for prm, arg in given.items():
            if isinstance(arg, ast.Name) and arg.id == prm:
                xa = expanded(arg, self.node, self.sa)
                if isinstance(xa, ast.Name) and xa.id == prm:
                    w = self.paths(arg)
                    if w:
                        env[prm] = w
                    elif self.uid_expr(arg) is not None:
                        uids[prm] = self.uid_expr(arg)
                    continue  # same name on both sides
            if any(isinstance(x, ast.Name) and x.id in own for x in ast.walk(expanded(arg, self.node, self.sa))) and not self.paths(arg) and self.uid_expr(arg) is None:
                return None  # the caller's expression would be captured by a name of the callee
            w = self.paths(arg)
            u = self.uid_expr(arg)
            if w:
                env[prm] = w
            elif u is not None:
                uids[prm] = u
            else:
                bind[prm] = expanded(arg, self.node, self.sa)
        return tv_, Den(tv_, self.p, bind=bind, env=env, uids=uids)

    def _accessor(self, call):
        """(handle arg, key arg) when `call` goes to a package function that does nothing but hand out the child `handle[key]`
        (creating it when missing): every return is handle[key] / handle.get(key) / handle.create_group(key) / require_group(key)."""
        if self.p is None:
            return None
        f = call.func
        target = None
        if isinstance(f, ast.Name):
            r = self.p.resolve_name(self.fn.module, f.id)
            if r and r[0] == "func":
                target = r[1]
        elif isinstance(f, ast.Attribute) and isinstance(f.value, ast.Name) and f.value.id in ("cls", "self", "H5Writer", "H5Reader") and self.fn.cls is not None:
            m = self.fn.cls.lookup(f.attr)
            if m and m[1] == "method":
                target = m[2]
        if target is None:
            return None
        ps = target.params[1:] if target.kind in ("method", "classmethod") else target.params
        if len(ps) != 2 or len(call.args) != 2:
            return None
        h, k = ps
        rets = [r for r in ast.walk(target.node) if isinstance(r, ast.Return) and r.value is not None]
        if not rets:
            return None
        for r in rets:
            v = r.value
            ok = (isinstance(v, ast.Subscript) and unparse(v.value) == h and unparse(v.slice) == k) or (
                isinstance(v, ast.Call) and isinstance(v.func, ast.Attribute) and unparse(v.func.value) == h
                and v.func.attr in ("get", "create_group", "require_group") and v.args and unparse(v.args[0]) == k)
            if not ok:
                return None
        # nothing else is done to the handle
        for n in ast.walk(target.node):
            if isinstance(n, (ast.Delete,)) or (isinstance(n, ast.Assign) and any(isinstance(t, ast.Subscript) for t in n.targets)):
                return None
        return call.args[0], call.args[1]

    def _child(self, base_paths, key) -> set:
        out = set()
        for p in base_paths:
            if p == (("FILE",),) and self._is_project_key(key, base_paths):
                out.add((("PROJECT",),))
            else:
                out.add(self.norm(p + (self.seg(key),)))
        return out


def fmt(p) -> str:
    def s(x):
        if x[0] == "const":
            return "|".join(sorted(map(str, x[1])))
        if x[0] == "uid":
            return f"<uid of {x[1]}>"
        if x[0] in ("NODE", "TNODE"):
            return f"{x[0].lower()}({x[1]})"
        if x[0] in ("FILE", "PROJECT"):
            return f"<{x[0].lower()}>"
        return str(x[1])
    return "/".join(s(x) for x in p)


# ---------------------------------------------------------------------------------------------------------------------------------
# Calls to PURE package functions that only hand back names (a table-driven / isinstance-chain helper choosing the container of an
# entity or of a type): for the denotation the call stands for the set of constants it can return.  `fold_const_calls` gives a copy
# of the function in which such calls are replaced by `c1 or c2 or ...`, which `const_values` (sa/roles.py) evaluates to that set.
_PURE_BUILTINS = {"isinstance", "issubclass", "type", "len", "str", "getattr", "hasattr", "tuple", "list", "next", "iter"}


def _resolve_callee(fn, project, call):
    f = call.func
    if isinstance(f, ast.Name):
        r = project.resolve_name(fn.module, f.id)
        return r[1] if r and r[0] == "func" else None
    if isinstance(f, ast.Attribute) and isinstance(f.value, ast.Name):
        if f.value.id in ("cls", "self") and fn.cls is not None:
            m = fn.cls.lookup(f.attr)
            return m[2] if m and m[1] == "method" else None
        r = project.resolve_name(fn.module, f.value.id)
        if r and r[0] == "class":
            m = r[1].lookup(f.attr)
            return m[2] if m and m[1] == "method" else None
    return None


def _module_literal(mod, e, _depth=0):
    """`e` with module-level names bound to literal tables replaced by those tables (A, A + B)"""
    import copy

    if _depth > 4:
        return e
    if isinstance(e, ast.Name) and mod is not None and e.id in getattr(mod, "assigns", {}):
        v = mod.assigns[e.id]
        if isinstance(v, (ast.Tuple, ast.List, ast.Dict, ast.Set, ast.Constant, ast.BinOp)):
            return _module_literal(mod, copy.deepcopy(v), _depth + 1)
    if isinstance(e, ast.BinOp) and isinstance(e.op, ast.Add):
        l, r = _module_literal(mod, e.left, _depth + 1), _module_literal(mod, e.right, _depth + 1)
        if isinstance(l, (ast.Tuple, ast.List)) and isinstance(r, (ast.Tuple, ast.List)):
            return ast.copy_location(type(l)(elts=list(l.elts) + list(r.elts), ctx=ast.Load()), e)
    return e


def const_returns(target, view=None, call=None, caller=None):
    """the set of string constants a side-effect-free function can return (`None` results dropped), or None when it is not such a
    function.  With `call` (and the calling FuncInfo): parameters are bound to the literal arguments / defaults of that call."""
    import copy

    try:
        v = view(target) if view is not None else target
    except Exception:  # noqa: BLE001
        v = target
    node = v.node
    for n in ast.walk(node):
        if isinstance(n, (ast.Delete, ast.With, ast.Global, ast.Nonlocal, ast.Yield, ast.YieldFrom, ast.Await, ast.Raise, ast.Try, ast.Lambda)):
            return None
        if isinstance(n, (ast.FunctionDef, ast.AsyncFunctionDef, ast.ClassDef)) and n is not node:
            return None
        if isinstance(n, (ast.Assign, ast.AugAssign, ast.AnnAssign)):
            tgs = n.targets if isinstance(n, ast.Assign) else [n.target]
            if any(not isinstance(x, (ast.Name, ast.Tuple, ast.List)) for t in tgs for x in ([t] + (list(t.elts) if isinstance(t, (ast.Tuple, ast.List)) else []))):
                return None
        if isinstance(n, ast.Call) and not (isinstance(n.func, ast.Name) and n.func.id in _PURE_BUILTINS):
            return None
    # bind the parameters that receive a literal (argument of this call, else the default) in front of a parameter-less copy
    a = node.args
    params = [x.arg for x in a.posonlyargs + a.args]
    defaults = dict(zip(params[len(params) - len(a.defaults):], a.defaults))
    for k, d in zip(a.kwonlyargs, a.kw_defaults):
        params.append(k.arg)
        if d is not None:
            defaults[k.arg] = d
    bound = {k: _module_literal(target.module, d) for k, d in defaults.items()}
    if call is not None:
        pos = params[1:] if target.kind in ("method", "classmethod") and isinstance(call.func, ast.Attribute) else params
        cmod = caller.module if caller is not None else None
        for prm, arg in zip(pos, call.args):
            bound[prm] = _module_literal(cmod, arg)
        for kw_ in call.keywords:
            if kw_.arg is not None:
                bound[kw_.arg] = _module_literal(cmod, kw_.value)
    pre = []
    for prm, e in bound.items():
        if any(isinstance(x, ast.Name) and x.id in params for x in ast.walk(e)):
            continue  # an argument that is itself a local of the caller: left unbound
        pre.append(ast.Assign(targets=[ast.Name(id=prm, ctx=ast.Store())], value=copy.deepcopy(e), lineno=node.lineno))
    synth = ast.FunctionDef(name=node.name, args=ast.arguments(posonlyargs=[], args=[], kwonlyargs=[], kw_defaults=[], defaults=[]),
                            body=pre + copy.deepcopy(node.body), decorator_list=[], lineno=node.lineno)
    ast.fix_missing_locations(synth)
    out, seen_ret = set(), False
    for r in ast.walk(synth):
        if not isinstance(r, ast.Return):
            continue
        seen_ret = True
        if r.value is None:
            continue
        cv = const_values(r.value, synth)
        if cv is None or not all(isinstance(x, str) for x in cv):
            return None
        out |= cv
    return (out or None) if seen_ret else None


def fold_const_calls(fn, project, view=None):
    """FuncInfo like `fn` whose calls to pure name-choosing package functions are replaced by the disjunction of the names they can
    return (same line numbers).  `view`: optional normaliser (ctx.view) applied to the callee, so that its hoisted tables are literal."""
    import copy
    from dataclasses import replace

    cache: dict = {}

    class Fold(ast.NodeTransformer):
        changed = False

        def visit_Call(self, node):
            self.generic_visit(node)
            target = _resolve_callee(fn, project, node)
            if target is None or target.node is fn.node:
                return node
            key = (id(target), ast.dump(node))
            if key not in cache:
                cache[key] = const_returns(target, view, node, fn)
            vals = cache[key]
            if not vals:
                return node
            consts = [ast.copy_location(ast.Constant(value=v), node) for v in sorted(vals)]
            Fold.changed = True
            return consts[0] if len(consts) == 1 else ast.copy_location(ast.BoolOp(op=ast.Or(), values=consts), node)

    new = Fold().visit(copy.deepcopy(fn.node))
    if not Fold.changed:
        return fn
    return replace(fn, node=ast.fix_missing_locations(new))
