"""C05.ITERMUT — a `for x in R.<list>` loop whose body can reach, through calls
and the child.parent back-pointer, an in-place removal on the very list it
iterates (DESIGN §2.5 receiver identity).

Abstract objects: R (owner of the iterated list), CHILD (an element of that
list; CHILD.parent is R), WS (a workspace), LIST (R's iterated list itself),
CHILDLIST (a fresh container of CHILDs), OTHER.
"""

from __future__ import annotations

import ast

from .model import ClassInfo, FuncInfo, Project, chain, unparse

R, CHILD, WS, LIST, CHILDLIST, OTHER = "R", "CHILD", "WS", "LIST", "CHILDLIST", "OTHER"
REMOVERS = {"remove", "pop", "clear", "__delitem__"}
COPIERS = {"copy"}
COPY_CTORS = {"list", "tuple", "set", "sorted", "reversed"}


def norm(attr: str) -> str:
    return attr if attr.startswith("_") else "_" + attr


class IterMut:
    def __init__(self, proj: Project, max_depth: int = 8):
        self.p = proj
        self.max_depth = max_depth
        self._by_name: dict[str, list[FuncInfo]] = {}
        for f in proj.all_functions():
            if f.cls is not None and f.kind in ("method", "classmethod", "staticmethod"):
                self._by_name.setdefault(f.name, []).append(f)
        self.ws = proj.cls("Workspace")
        self.stats = {"loops": 0, "calls_followed": 0, "cha": 0}

    # ------------------------------------------------------------------ loops
    def loops(self):
        """(fn, For node, owner expr text, attr) for loops over `<name>.<attr>`
        where <name> is self or a parameter."""
        for fn in self.p.all_functions():
            params = set(fn.params)
            for n in ast.walk(fn.node):
                if isinstance(n, ast.For) and isinstance(n.iter, ast.Attribute) and isinstance(n.iter.value, ast.Name):
                    if n.iter.value.id in params:
                        yield fn, n, n.iter.value.id, n.iter.attr

    # ------------------------------------------------------------------- eval
    def eval(self, e, env, target) -> set:
        if isinstance(e, ast.Name):
            return set(env.get(e.id, {OTHER}))
        if isinstance(e, ast.Attribute):
            base = self.eval(e.value, env, target)
            out = set()
            for b in base:
                if b == R:
                    if norm(e.attr) == target:
                        out.add(LIST)
                    elif e.attr == "workspace":
                        out.add(WS)
                    else:
                        out.add(OTHER)
                elif b == CHILD:
                    if e.attr == "parent":
                        out.add(R)
                    elif e.attr == "workspace":
                        out.add(WS)
                    else:
                        out.add(OTHER)
                elif b == WS:
                    out.add(WS if e.attr == "workspace" else OTHER)
                else:
                    out.add(OTHER)
            return out
        if isinstance(e, (ast.List, ast.Tuple, ast.Set)):
            out = set()
            for x in e.elts:
                v = self.eval(x, env, target)
                if CHILD in v or CHILDLIST in v:
                    out.add(CHILDLIST)
            return out or {OTHER}
        if isinstance(e, ast.Subscript):
            v = self.eval(e.value, env, target)
            if isinstance(e.slice, ast.Slice):
                return {CHILDLIST} if (LIST in v or CHILDLIST in v) else {OTHER}
            return {CHILD} if (LIST in v or CHILDLIST in v) else {OTHER}
        if isinstance(e, ast.Call):
            if isinstance(e.func, ast.Attribute) and e.func.attr in COPIERS and not e.args:
                v = self.eval(e.func.value, env, target)
                return {CHILDLIST} if (LIST in v or CHILDLIST in v) else {OTHER}
            if isinstance(e.func, ast.Name) and e.func.id in COPY_CTORS and len(e.args) == 1:
                v = self.eval(e.args[0], env, target)
                return {CHILDLIST} if (LIST in v or CHILDLIST in v) else {OTHER}
            if isinstance(e.func, ast.Name) and e.func.id == "getattr" and len(e.args) >= 2 and isinstance(e.args[1], ast.Constant):
                return self.eval(ast.Attribute(value=e.args[0], attr=str(e.args[1].value), ctx=ast.Load()), env, target)
            if isinstance(e.func, ast.Name) and e.func.id == "cast" and len(e.args) == 2:
                return self.eval(e.args[1], env, target)
            return {OTHER}
        if isinstance(e, ast.IfExp):
            return self.eval(e.body, env, target) | self.eval(e.orelse, env, target)
        if isinstance(e, ast.BoolOp):
            out = set()
            for v in e.values:
                out |= self.eval(v, env, target)
            return out
        if isinstance(e, ast.ListComp):
            return {OTHER}
        return {OTHER}

    def build_env(self, fn: FuncInfo, init: dict, target: str, body=None) -> dict:
        env = {k: set(v) for k, v in init.items()}
        nodes = list(ast.walk(fn.node))
        changed = True
        rounds = 0
        while changed and rounds < 8:
            changed = False
            rounds += 1
            for n in nodes:
                binds = []
                if isinstance(n, ast.Assign):
                    v = self.eval(n.value, env, target)
                    for t in n.targets:
                        if isinstance(t, ast.Name):
                            binds.append((t.id, v))
                elif isinstance(n, (ast.For, ast.comprehension)):
                    v = self.eval(n.iter, env, target)
                    ev = {CHILD} if (LIST in v or CHILDLIST in v) else {OTHER}
                    if isinstance(n.target, ast.Name):
                        binds.append((n.target.id, ev))
                for name, v in binds:
                    v = v - {OTHER} if (v - {OTHER}) else v
                    cur = env.setdefault(name, set())
                    if not v <= cur:
                        cur |= v
                        changed = True
        return env

    # ------------------------------------------------------------- resolution
    def candidates(self, fn: FuncInfo, call: ast.Call, env, target, rclasses, self_is):
        f = call.func
        sn = fn.self_name
        if isinstance(f, ast.Name):
            r = self.p.resolve_name(fn.module, f.id)
            if r and r[0] == "func":
                return [(r[1], None)]
            return []
        if not isinstance(f, ast.Attribute):
            return []
        recv = self.eval(f.value, env, target)
        name = f.attr
        out = []
        ch = chain(f)
        if ch and ch[0] == "super()" and len(ch) == 2 and fn.cls is not None:
            ks = rclasses if (self_is == R and rclasses) else self.p.subclasses(fn.cls)
            seen = set()
            for K in ks:
                mro = [c for c in K.mro if not isinstance(c, str)]
                if fn.cls in mro:
                    for c in mro[mro.index(fn.cls) + 1:]:
                        o = c.own(name)
                        if o:
                            if o[0] == "method" and o[1] not in seen:
                                seen.add(o[1])
                                out.append((o[1], {self_is}))
                            break
            return out
        if isinstance(f.value, ast.Name) and f.value.id == sn and fn.cls is not None:
            ks = rclasses if (self_is == R and rclasses) else self.p.subclasses(fn.cls)
            seen = set()
            for K in ks:
                m = K.lookup(name)
                if m and m[1] == "method" and m[2] not in seen:
                    seen.add(m[2])
                    out.append((m[2], {self_is}))
            return out
        if WS in recv:
            m = self.ws.lookup(name)
            if m and m[1] == "method":
                out.append((m[2], {WS}))
        if R in recv:
            if rclasses:
                seen = set()
                for K in rclasses:
                    m = K.lookup(name)
                    if m and m[1] == "method" and m[2] not in seen:
                        seen.add(m[2])
                        out.append((m[2], {R}))
            else:
                self.stats["cha"] += 1
                for c in self._by_name.get(name, []):
                    out.append((c, {R}))
        if CHILD in recv:
            self.stats["cha"] += 1
            for c in self._by_name.get(name, []):
                out.append((c, {CHILD}))
        if not out and recv == {OTHER}:
            # receiver untracked: follow only if a tracked object is passed as argument
            tracked = any((self.eval(a, env, target) - {OTHER}) for a in call.args) or any(
                (self.eval(k.value, env, target) - {OTHER}) for k in call.keywords if k.arg
            )
            if tracked:
                r = self.p.resolve_expr(fn.module, f) if ch else None
                if r and r[0] == "func":
                    out.append((r[1], {OTHER}))
                else:
                    cands = self._by_name.get(name, [])
                    if 0 < len(cands) <= 6:
                        self.stats["cha"] += 1
                        out += [(c, {OTHER}) for c in cands]
        return out

    # --------------------------------------------------------------- exploring
    def removals(self, fn, env, target, nodes):
        for n in nodes:
            if isinstance(n, ast.Call) and isinstance(n.func, ast.Attribute) and n.func.attr in REMOVERS:
                if LIST in self.eval(n.func.value, env, target):
                    yield n
            elif isinstance(n, ast.Delete):
                for t in n.targets:
                    if isinstance(t, ast.Subscript) and LIST in self.eval(t.value, env, target):
                        yield n

    def explore(self, fn: FuncInfo, env, target, nodes, rclasses, self_is, depth, visited, trail):
        """Returns a chain [(qualname, where, text)] ending in a removal, or None."""
        for n in self.removals(fn, env, target, nodes):
            return trail + [(fn.qualname, f"{fn.module.relpath}:{n.lineno}", unparse(n)[:70])]
        if depth >= self.max_depth:
            return None
        for n in nodes:
            if not isinstance(n, ast.Call):
                continue
            for tgt, recv in self.candidates(fn, n, env, target, rclasses, self_is):
                # bind parameters
                a = tgt.node.args
                names = [x.arg for x in a.posonlyargs + a.args]
                init = {}
                new_self = OTHER
                if tgt.cls is not None and tgt.kind != "staticmethod" and names:
                    if recv is not None:
                        rv = (recv - {OTHER}) or {OTHER}
                        init[names[0]] = rv
                        new_self = next(iter(rv))
                    names = names[1:]
                elif recv is None and tgt.cls is None:
                    pass
                for nm, arg in zip(names, n.args):
                    if isinstance(arg, ast.Starred):
                        break
                    init[nm] = self.eval(arg, env, target)
                for kw in n.keywords:
                    if kw.arg:
                        init[kw.arg] = self.eval(kw.value, env, target)
                if not any(v - {OTHER} for v in init.values()):
                    continue
                key = (tgt, tuple(sorted((k, tuple(sorted(v))) for k, v in init.items() if v - {OTHER})))
                if key in visited:
                    continue
                visited.add(key)
                self.stats["calls_followed"] += 1
                cenv = self.build_env(tgt, init, target)
                found = self.explore(
                    tgt, cenv, target, list(ast.walk(tgt.node)), rclasses, new_self, depth + 1, visited,
                    trail + [(fn.qualname, f"{fn.module.relpath}:{n.lineno}", unparse(n)[:70])],
                )
                if found:
                    return found
        return None

    def check_loop(self, fn: FuncInfo, loop: ast.For, owner: str, attr: str):
        target = norm(attr)
        self.stats["loops"] += 1
        rclasses = None
        self_is = OTHER
        init = {owner: {R}}
        if fn.self_name == owner and fn.cls is not None:
            rclasses = self.p.subclasses(fn.cls)
            self_is = R
        elif fn.self_name is not None:
            if fn.cls is not None and self.ws in fn.cls.mro:
                init[fn.self_name] = {WS}
                self_is = WS
        env = self.build_env(fn, init, target)
        if isinstance(loop.target, ast.Name):
            env.setdefault(loop.target.id, set()).add(CHILD)
        body_nodes = []
        for st in loop.body:
            body_nodes += list(ast.walk(st))
        return self.explore(fn, env, target, body_nodes, rclasses, self_is, 0, set(), [])
