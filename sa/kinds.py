"""Three-valued evaluation of isinstance tests under a 'kind' assumption, and
path queries on a CFG with the infeasible edges pruned (DESIGN §2.4: isinstance
chains that partition by entity kind are analysed per branch)."""

from __future__ import annotations

import ast
from collections import deque

from .cfg import CFG
from .model import unparse


def tv(test, var: str, facts: dict):
    """True / False / None (unknown).  facts: class name -> bool meaning
    isinstance(var, <name>)."""
    if isinstance(test, ast.UnaryOp) and isinstance(test.op, ast.Not):
        v = tv(test.operand, var, facts)
        return None if v is None else (not v)
    if isinstance(test, ast.BoolOp):
        vals = [tv(v, var, facts) for v in test.values]
        if isinstance(test.op, ast.And):
            if any(v is False for v in vals):
                return False
            return True if all(v is True for v in vals) else None
        if any(v is True for v in vals):
            return True
        return False if all(v is False for v in vals) else None
    if (
        isinstance(test, ast.Call)
        and isinstance(test.func, ast.Name)
        and test.func.id == "isinstance"
        and len(test.args) == 2
        and unparse(test.args[0]) == var
    ):
        names = test.args[1].elts if isinstance(test.args[1], ast.Tuple) else [test.args[1]]
        vals = []
        for n in names:
            nm = n.attr if isinstance(n, ast.Attribute) else getattr(n, "id", None)
            vals.append(facts.get(nm))
        if any(v is True for v in vals):
            return True
        if all(v is False for v in vals):
            return False
        return None
    if isinstance(test, ast.Call) and isinstance(test.func, ast.Name) and test.func.id == "hasattr" and len(test.args) == 2:
        if unparse(test.args[0]) == var and isinstance(test.args[1], ast.Constant):
            return facts.get("hasattr:" + str(test.args[1].value))
    if isinstance(test, ast.Compare) and len(test.ops) == 1 and isinstance(test.ops[0], (ast.Eq, ast.NotEq)) and isinstance(test.left, ast.Name) \
            and isinstance(test.comparators[0], ast.Constant) and ("const:" + test.left.id) in facts:
        eq = facts["const:" + test.left.id] == test.comparators[0].value
        return eq if isinstance(test.ops[0], ast.Eq) else not eq
    if isinstance(test, ast.Compare) and len(test.ops) == 1 and isinstance(test.ops[0], (ast.In, ast.NotIn)) and isinstance(test.left, ast.Name) \
            and ("const:" + test.left.id) in facts and isinstance(test.comparators[0], (ast.List, ast.Tuple, ast.Set)) \
            and all(isinstance(e, ast.Constant) for e in test.comparators[0].elts):
        member = facts["const:" + test.left.id] in [e.value for e in test.comparators[0].elts]
        return member if isinstance(test.ops[0], ast.In) else not member
    if isinstance(test, ast.Compare) and len(test.ops) == 1 and isinstance(test.ops[0], (ast.In, ast.NotIn)) and isinstance(test.left, ast.Name) \
            and ("const:" + test.left.id) in facts and isinstance(test.comparators[0], ast.Dict) \
            and all(isinstance(e, ast.Constant) for e in test.comparators[0].keys):
        member = facts["const:" + test.left.id] in [e.value for e in test.comparators[0].keys]
        return member if isinstance(test.ops[0], ast.In) else not member
    if isinstance(test, ast.Compare) and len(test.ops) == 1 and isinstance(test.ops[0], (ast.Is, ast.IsNot)) and isinstance(test.comparators[0], ast.Constant) \
            and test.comparators[0].value is None and ("notnone:" + unparse(test.left)) in facts:
        nn = facts["notnone:" + unparse(test.left)]
        return nn if isinstance(test.ops[0], ast.IsNot) else not nn
    if isinstance(test, (ast.Attribute, ast.Name)):
        return facts.get("truthy:" + unparse(test))
    return None


def feasible_succ(node, var, facts):
    """Successors of a CFG node with edges contradicting the kind facts removed."""
    if node.kind == "test" and var is not None:
        v = tv(node.ast, var, facts)
        if v is True:
            return [(m, l) for m, l in node.succ if l != "false"]
        if v is False:
            return [(m, l) for m, l in node.succ if l != "true"]
    return node.succ


def reach(g: CFG, starts, var=None, facts=None, avoid=lambda n: False, stop=lambda n: False):
    seen = set()
    dq = deque(starts)
    while dq:
        n = dq.popleft()
        if n in seen or avoid(n):
            continue
        seen.add(n)
        if stop(n):
            continue
        for m, _ in feasible_succ(n, var, facts or {}):
            if m not in seen:
                dq.append(m)
    return seen


def has_call(node, pred) -> bool:
    if node.ast is None or isinstance(node.ast, list):
        return False
    src = node.ast
    if node.kind == "with":
        src = ast.Module(body=[], type_ignores=[])
        return any(isinstance(n, ast.Call) and pred(n) for it in node.ast.items for n in ast.walk(it.context_expr))
    return any(isinstance(n, ast.Call) and pred(n) for n in ast.walk(src))
