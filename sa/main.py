"""Driver: ./check <ID> [--thorough] [--replay file] [--selftest]"""

from __future__ import annotations

import json
import os
import sys
import time
import traceback

from .model import AnalysisError, Project
from .report import RuleResult, finish
from .rules import PROPS, rules_for


class Ctx:
    def __init__(self, project: Project, tier: str):
        self.p = project
        self.tier = tier
        self.cache: dict = {}
        from .normalize import Normalizer

        # normalised views (private helpers expanded, hoisted literal constants substituted): ctx.norm.view(fn)
        self.norm = Normalizer(project)

    def view(self, spec_or_fn, inline: bool = True, consts: bool = True):
        """FuncInfo for 'Class.method' (or a FuncInfo) in normalised form — see sa/normalize.py."""
        fn = self.p.func(spec_or_fn) if isinstance(spec_or_fn, str) else spec_or_fn
        return self.norm.view(fn, inline=inline, consts=consts)


class _Watchdog:
    """An analysis that does not terminate is a broken analysis, not a verdict: after VERIF_WATCHDOG seconds (default 600; the
    slowest rule set needs about 15 s) the run fails closed with an AnalysisError (exit 2) instead of spinning for ever.  Met once:
    a refactoring made a normalised view so large that a fixpoint over it ran for an hour (DESIGN.md §16)."""

    def __init__(self, what: str):
        self.what, self.armed, self.old = what, False, None

    def __enter__(self):
        import signal
        import threading

        limit = int(os.environ.get("VERIF_WATCHDOG", "600"))
        if limit > 0 and hasattr(signal, "SIGALRM") and threading.current_thread() is threading.main_thread():

            def fire(signum, frame):
                raise AnalysisError(f"watchdog: the analysis of {self.what} did not terminate within {limit} s")

            self.old = signal.signal(signal.SIGALRM, fire)
            signal.alarm(limit)
            self.armed = True
        return self

    def __exit__(self, *exc):
        if self.armed:
            import signal

            signal.alarm(0)
            signal.signal(signal.SIGALRM, self.old)
        return False


def run_rules(prop: str, tier: str, repo: str | None = None, overlay: dict | None = None):
    with _Watchdog(prop):
        project = Project(repo, overlay) if repo else Project(overlay=overlay)
        ctx = Ctx(project, tier)
        results: list[RuleResult] = []
        for rule in rules_for(prop):
            res = rule(ctx)
            if not res.findings:
                res.check_floor()
            results.append(res)
        return project, results


def main(argv=None) -> int:
    argv = list(sys.argv[1:] if argv is None else argv)
    if not argv or argv[0] in ("-h", "--help"):
        print(__doc__)
        return 2
    prop = argv[0].upper()
    tier = "thorough" if "--thorough" in argv or os.environ.get("VERIF_TIER") == "thorough" else "quick"
    t0 = time.time()
    try:
        if prop == "ALL":
            rc = 0
            for p in PROPS:
                rc = max(rc, main([p] + argv[1:]))
            return rc
        if prop not in PROPS:
            print(f"unknown property {prop}")
            return 2
        only_key = None
        if "--replay" in argv:
            path = argv[argv.index("--replay") + 1]
            with open(path, encoding="utf-8") as fh:
                only_key = json.load(fh)["key"]
        if "--selftest" in argv:
            from .selftest import run_selftest

            return run_selftest(prop, jobs=int(os.environ.get("VERIF_JOBS", "16")))
        project, results = run_rules(prop, tier)
        extra = {
            "modules_parsed": len(project.modules),
            "modules_in_scope": len(project.scope_modules),
            "classes": len(project.classes),
            "functions": sum(1 for _ in project.all_functions()),
        }
        if tier == "thorough" and not only_key:
            from .crossval import cross_validate
            from .selftest import run_selftest_inline

            extra["frontend_crossvalidation"] = cross_validate(project)
            st = run_selftest_inline(prop, jobs=int(os.environ.get("VERIF_JOBS", "16")))
            extra["selftest"] = st
            if st.get("survivors") or st.get("noisy_twins"):
                raise AnalysisError(
                    f"self-test failed: survivors={st.get('survivors')} noisy_twins={st.get('noisy_twins')}"
                )
        return finish(prop, tier, results, t0, extra, only_key=only_key)
    except AnalysisError as exc:
        print(f"ANALYSIS-ERROR property={prop}: {exc}")
        return 2
    except Exception:  # pragma: no cover
        print(f"ANALYSIS-ERROR property={prop}: internal error")
        traceback.print_exc()
        return 2


if __name__ == "__main__":
    sys.exit(main())
