"""Front end: modules, imports, class table, MRO, properties, attribute maps.

DESIGN §2.1 / §2.2.
"""

from __future__ import annotations

import ast
import os
from dataclasses import dataclass, field

REPO = os.environ.get("VERIF_REPO", "/repo")
PKG = "geoh5py"
OUT_OF_SCOPE_DIRS = ("handlers", "interfaces")


class AnalysisError(Exception):
    """The analyser cannot do its job (vanished anchor, unknown idiom, floor
    not met).  Always exit code 2, never a pass, never a VIOLATION."""


def unparse(node) -> str:
    if node is None:
        return ""
    if isinstance(node, str):
        return node
    try:
        return ast.unparse(node)
    except Exception:  # pragma: no cover
        return ast.dump(node)


def chain(node) -> list[str] | None:
    """``a.b.c`` -> ['a','b','c']; ``super().x`` -> ['super()', 'x'];
    anything else -> None."""
    out: list[str] = []
    while isinstance(node, ast.Attribute):
        out.append(node.attr)
        node = node.value
    if isinstance(node, ast.Name):
        out.append(node.id)
    elif (
        isinstance(node, ast.Call)
        and isinstance(node.func, ast.Name)
        and node.func.id == "super"
    ):
        out.append("super()")
    else:
        return None
    return out[::-1]


@dataclass(eq=False)
class FuncInfo:
    name: str
    module: "Module"
    node: ast.FunctionDef
    cls: "ClassInfo | None" = None
    kind: str = "function"  # function|method|classmethod|staticmethod|getter|setter|deleter
    prop: str | None = None

    @property
    def qualname(self) -> str:
        if self.cls is not None:
            suffix = "" if self.kind in ("function", "method", "classmethod", "staticmethod", "getter") else f"[{self.kind}]"
            return f"{self.cls.name}.{self.name}{suffix}"
        return f"{self.module.short}.{self.name}"

    @property
    def where(self) -> str:
        return f"{self.module.relpath}:{self.node.lineno}"

    @property
    def params(self) -> list[str]:
        a = self.node.args
        return [x.arg for x in a.posonlyargs + a.args]

    @property
    def self_name(self) -> str | None:
        if self.cls is None or self.kind == "staticmethod":
            return None
        p = self.params
        return p[0] if p else None

    def __repr__(self):
        return f"<Func {self.qualname} @{self.where}>"


@dataclass(eq=False)
class PropInfo:
    name: str
    owner: "ClassInfo"
    getter: FuncInfo | None = None
    setter: FuncInfo | None = None
    deleter: FuncInfo | None = None

    def __repr__(self):
        return f"<Prop {self.owner.name}.{self.name} g={bool(self.getter)} s={bool(self.setter)}>"


@dataclass(eq=False)
class ClassInfo:
    name: str
    module: "Module | None"
    node: ast.ClassDef | None
    base_exprs: list = field(default_factory=list)
    bases: list = field(default_factory=list)  # ClassInfo | str (external)
    mro: list = field(default_factory=list)
    methods: dict = field(default_factory=dict)
    props: dict = field(default_factory=dict)
    class_assigns: dict = field(default_factory=dict)  # name -> (value expr, annotation)
    synthetic: bool = False

    @property
    def qualname(self) -> str:
        return f"{self.module.name}.{self.name}" if self.module else f"<synthetic>.{self.name}"

    @property
    def where(self) -> str:
        if self.node is None:
            return "<synthetic>"
        return f"{self.module.relpath}:{self.node.lineno}"

    def own(self, name):
        """Member defined in this very class body: ('prop', PropInfo) |
        ('method', FuncInfo) | ('assign', expr) | None."""
        if name in self.props:
            return ("prop", self.props[name])
        if name in self.methods:
            return ("method", self.methods[name])
        if name in self.class_assigns:
            return ("assign", self.class_assigns[name][0])
        return None

    def lookup(self, name):
        """Follow the MRO: (owner class, kind, object) or None."""
        for c in self.mro:
            if isinstance(c, str):
                continue
            m = c.own(name)
            if m is not None:
                return (c, m[0], m[1])
        return None

    def is_subclass_of(self, other: "ClassInfo | str") -> bool:
        if isinstance(other, str):
            return any((c if isinstance(c, str) else c.name) == other for c in self.mro)
        return other in self.mro

    def __repr__(self):
        return f"<Class {self.name}>"


@dataclass(eq=False)
class Module:
    name: str  # dotted
    path: str
    relpath: str
    source: str
    tree: ast.Module
    in_scope: bool = True
    imports: dict = field(default_factory=dict)  # local name -> (module dotted, attr|None)
    classes: dict = field(default_factory=dict)
    functions: dict = field(default_factory=dict)
    assigns: dict = field(default_factory=dict)  # top-level NAME = expr

    @property
    def short(self) -> str:
        return self.name.split(".", 1)[1] if "." in self.name else self.name

    @property
    def is_package(self) -> bool:
        return self.path.endswith("__init__.py")


def _decorators(fn: ast.FunctionDef):
    for d in fn.decorator_list:
        yield d


class Project:
    def __init__(self, repo: str = REPO, overlay: dict | None = None):
        self.repo = repo
        self.overlay = overlay or {}  # relpath -> source text (self-test mutants)
        self.modules: dict[str, Module] = {}
        self.classes: list[ClassInfo] = []
        self.by_name: dict[str, list[ClassInfo]] = {}
        self.notes: list[str] = []
        self._load()
        self._link_imports()
        self._build_classes()
        self._link_bases()
        self._synthetic()
        self._subclasses: dict[ClassInfo, list[ClassInfo]] = {}

    # ---------------------------------------------------------------- load
    def _load(self):
        root = os.path.join(self.repo, PKG)
        if not os.path.isdir(root):
            raise AnalysisError(f"package directory {root} not found")
        for dirpath, dirnames, filenames in os.walk(root):
            dirnames.sort()
            for fn in sorted(filenames):
                if not fn.endswith(".py"):
                    continue
                path = os.path.join(dirpath, fn)
                rel = os.path.relpath(path, self.repo)
                parts = rel[:-3].split(os.sep)
                if parts[-1] == "__init__":
                    parts = parts[:-1]
                name = ".".join(parts)
                if rel in self.overlay:
                    src = self.overlay[rel]
                else:
                    with open(path, encoding="utf-8", newline="") as fh:
                        src = fh.read()
                src = src.replace("\r\n", "\n")
                try:
                    tree = ast.parse(src, filename=rel)
                except SyntaxError as exc:
                    raise AnalysisError(f"cannot parse {rel}: {exc}") from exc
                in_scope = not any(
                    rel.startswith(os.path.join(PKG, d) + os.sep) for d in OUT_OF_SCOPE_DIRS
                )
                self.modules[name] = Module(name, path, rel, src, tree, in_scope)

    def module(self, short: str) -> Module:
        """Module by path relative to the package, e.g. 'io/h5_writer.py'."""
        rel = os.path.join(PKG, short)
        for m in self.modules.values():
            if m.relpath == rel:
                return m
        raise AnalysisError(f"anchor module {rel} not found")

    @property
    def scope_modules(self):
        return [m for m in self.modules.values() if m.in_scope]

    # ------------------------------------------------------------- imports
    def _abs_module(self, mod: Module, level: int, name: str | None) -> str:
        if level == 0:
            return name or ""
        parts = mod.name.split(".")
        if not mod.is_package:
            parts = parts[:-1]
        if level > 1:
            parts = parts[: len(parts) - (level - 1)]
        if name:
            parts = parts + name.split(".")
        return ".".join(parts)

    def _link_imports(self):
        for mod in self.modules.values():
            for node in ast.walk(mod.tree):
                if isinstance(node, ast.ImportFrom):
                    target = self._abs_module(mod, node.level, node.module)
                    for a in node.names:
                        mod.imports[a.asname or a.name] = (target, a.name)
                elif isinstance(node, ast.Import):
                    for a in node.names:
                        local = a.asname or a.name.split(".")[0]
                        mod.imports[local] = (a.name if a.asname else a.name.split(".")[0], None)

    def resolve_name(self, mod: Module, name: str, _depth=0):
        """Resolve a bare name used in module `mod` to ('class', ClassInfo) |
        ('func', FuncInfo) | ('module', Module) | ('assign', (Module, expr)) |
        ('external', dotted) | None."""
        if _depth > 12:
            return None
        if name in mod.classes:
            return ("class", mod.classes[name])
        if name in mod.functions:
            return ("func", mod.functions[name])
        if name in mod.assigns:
            return ("assign", (mod, mod.assigns[name]))
        if name in mod.imports:
            target, attr = mod.imports[name]
            if attr is None:
                if target in self.modules:
                    return ("module", self.modules[target])
                return ("external", target)
            sub = f"{target}.{attr}" if target else attr
            if sub in self.modules:
                return ("module", self.modules[sub])
            if target in self.modules:
                return self.resolve_name(self.modules[target], attr, _depth + 1)
            return ("external", sub)
        return None

    def resolve_expr(self, mod: Module, node):
        """Resolve Name / dotted Attribute through modules to a class or func."""
        ch = chain(node)
        if not ch or ch[0] == "super()":
            return None
        cur = self.resolve_name(mod, ch[0])
        for part in ch[1:]:
            if cur is None:
                return None
            kind, obj = cur
            if kind == "module":
                cur = self.resolve_name(obj, part)
            elif kind == "class":
                m = obj.lookup(part)
                if m is None:
                    return None
                owner, k, o = m
                if k == "method":
                    cur = ("func", o)
                elif k == "prop":
                    cur = ("prop", o)
                else:
                    cur = ("assign", (owner.module, o))
            elif kind == "external":
                cur = ("external", f"{obj}.{part}")
            else:
                return None
        return cur

    # ------------------------------------------------------------- classes
    def _build_classes(self):
        for mod in self.modules.values():
            for node in mod.tree.body:
                self._top(mod, node)

    def _top(self, mod: Module, node):
        if isinstance(node, ast.ClassDef):
            ci = self._class(mod, node)
            mod.classes[node.name] = ci
            if mod.in_scope:
                self.classes.append(ci)
                self.by_name.setdefault(ci.name, []).append(ci)
        elif isinstance(node, (ast.FunctionDef, ast.AsyncFunctionDef)):
            mod.functions[node.name] = FuncInfo(node.name, mod, node)
        elif isinstance(node, ast.Assign):
            for t in node.targets:
                if isinstance(t, ast.Name):
                    mod.assigns[t.id] = node.value
        elif isinstance(node, ast.AnnAssign) and isinstance(node.target, ast.Name) and node.value is not None:
            mod.assigns[node.target.id] = node.value
        elif isinstance(node, ast.If):
            # `if TYPE_CHECKING:` blocks etc. — imports are picked up by walk;
            # definitions inside are rare; recurse for completeness.
            for sub in node.body + node.orelse:
                self._top(mod, sub)

    def _class(self, mod: Module, node: ast.ClassDef) -> ClassInfo:
        ci = ClassInfo(node.name, mod, node, base_exprs=list(node.bases))
        for st in node.body:
            if isinstance(st, (ast.FunctionDef, ast.AsyncFunctionDef)):
                self._member(ci, st)
            elif isinstance(st, ast.Assign):
                for t in st.targets:
                    if isinstance(t, ast.Name):
                        ci.class_assigns[t.id] = (st.value, None)
            elif isinstance(st, ast.AnnAssign) and isinstance(st.target, ast.Name):
                if st.value is not None:
                    ci.class_assigns[st.target.id] = (st.value, st.annotation)
        return ci

    def _member(self, ci: ClassInfo, fn: ast.FunctionDef):
        kind = "method"
        prop = None
        foreign = None
        for d in fn.decorator_list:
            ds = chain(d)
            if ds == ["property"]:
                kind, prop = "getter", fn.name
            elif ds == ["classmethod"]:
                kind = "classmethod"
            elif ds == ["staticmethod"]:
                kind = "staticmethod"
            elif ds and ds[-1] in ("setter", "deleter", "getter") and len(ds) >= 2:
                kind, prop = ds[-1], ds[-2]
                if len(ds) > 2:
                    foreign = ds[:-2]  # e.g. ['Curve'] for @Curve.metadata.setter
        fi = FuncInfo(fn.name, ci.module, fn, ci, kind, prop)
        if kind in ("getter", "setter", "deleter"):
            if kind == "getter" and not foreign:
                # (re)defines the property in this class: fresh triple
                ci.props[prop] = PropInfo(prop, ci, getter=fi)
            else:
                p = ci.props.get(prop)
                if p is None:
                    p = PropInfo(prop, ci)
                    ci.props[prop] = p
                    if foreign:
                        p._foreign = foreign  # resolved in _link_bases
                setattr(p, kind, fi)
                if fn.name != prop:
                    # `@x.setter def y` binds name y — not used by the repo
                    raise AnalysisError(
                        f"{ci.module.relpath}:{fn.lineno}: accessor {fn.name} for property {prop} under another name"
                    )
        else:
            ci.methods[fn.name] = fi

    def _link_bases(self):
        for ci in self.classes_all():
            ci.bases = []
            for b in ci.base_exprs:
                if isinstance(b, ast.Subscript):  # Generic[T]
                    b = b.value
                r = self.resolve_expr(ci.module, b)
                if r and r[0] == "class":
                    ci.bases.append(r[1])
                else:
                    ci.bases.append(unparse(b))
        for ci in self.classes_all():
            ci.mro = self._c3(ci)
        # foreign property accessors: inherit the missing parts of the triple
        for ci in self.classes_all():
            for p in ci.props.values():
                f = getattr(p, "_foreign", None)
                if f:
                    r = self.resolve_name(ci.module, f[0])
                    if not r or r[0] != "class":
                        raise AnalysisError(f"{ci.where}: cannot resolve {'.'.join(f)}.{p.name}")
                    base = r[1].lookup(p.name)
                    if base is None or base[1] != "prop":
                        raise AnalysisError(f"{ci.where}: {'.'.join(f)}.{p.name} is not a property")
                    bp = base[2]
                    p.getter = p.getter or bp.getter
                    p.setter = p.setter or bp.setter
                    p.deleter = p.deleter or bp.deleter

    def classes_all(self):
        for mod in self.modules.values():
            yield from mod.classes.values()

    def _c3(self, ci: ClassInfo, _stack=()) -> list:
        if ci in _stack:
            raise AnalysisError(f"inheritance cycle at {ci.name}")
        if getattr(ci, "_mro_done", False):
            return ci.mro
        seqs = []
        for b in ci.bases:
            if isinstance(b, str):
                seqs.append([b])
            else:
                seqs.append(list(self._c3(b, _stack + (ci,))))
        seqs.append(list(ci.bases))
        res = [ci]
        seqs = [s for s in seqs if s]
        while seqs:
            for s in seqs:
                cand = s[0]
                if not any(cand in t[1:] for t in seqs):
                    break
            else:
                raise AnalysisError(f"no consistent MRO for {ci.name}")
            res.append(cand)
            seqs = [s[1:] if s[0] == cand else s for s in seqs]
            seqs = [s for s in seqs if s]
        ci.mro = res
        ci._mro_done = True
        return res

    # ----------------------------------------------------------- synthetic
    def _synthetic(self):
        """Classes built with type(name, (A, B), {}) in Workspace.create_data /
        create_object_or_group (DESIGN §2.2 item 2)."""
        ws_mod = self.module("workspace/workspace.py")
        sites = []
        for node in ast.walk(ws_mod.tree):
            if (
                isinstance(node, ast.Call)
                and isinstance(node.func, ast.Name)
                and node.func.id == "type"
                and len(node.args) == 3
            ):
                sites.append(node)
        self.type_sites = sites
        if len(sites) != 2:
            raise AnalysisError(
                f"expected 2 three-argument type(...) sites in workspace.py, found {len(sites)}"
            )
        self.synthetic: list[ClassInfo] = []
        for site in sites:
            bases = site.args[1]
            if not isinstance(bases, ast.Tuple) or len(bases.elts) != 2:
                raise AnalysisError(f"workspace.py:{site.lineno}: unrecognised type() base tuple")
            first = self.resolve_expr(ws_mod, bases.elts[0])
            if not first or first[0] != "class":
                raise AnalysisError(f"workspace.py:{site.lineno}: cannot resolve first base")
            first = first[1]
            if first.name == "Concatenator":
                seconds = [self.cls("DrillholeGroup"), self.cls("IntegratorDrillholeGroup")]
            elif first.name == "ConcatenatedData":
                data = self.cls("Data", "data.data")
                seconds = [
                    c
                    for c in self.subclasses(data, strict=True)
                    if not c.is_subclass_of(first) and not c.synthetic
                ]
            else:
                raise AnalysisError(f"workspace.py:{site.lineno}: unexpected synthetic base {first.name}")
            for sec in seconds:
                prefix = "Concatenator" if first.name == "Concatenator" else "Concatenated"
                ci = ClassInfo(prefix + sec.name, None, None, synthetic=True)
                ci.bases = [first, sec]
                ci.mro = self._c3(ci)
                ci.module = sec.module
                self.synthetic.append(ci)
                self.classes.append(ci)
                self.by_name.setdefault(ci.name, []).append(ci)

    # ------------------------------------------------------------- queries
    def cls(self, name: str, module_hint: str | None = None) -> ClassInfo:
        cands = self.by_name.get(name, [])
        if module_hint:
            cands = [c for c in cands if c.module and c.module.name.endswith(module_hint)]
        if len(cands) != 1:
            raise AnalysisError(f"anchor class {name} ({module_hint}) resolves to {len(cands)} classes")
        return cands[0]

    def subclasses(self, base: ClassInfo, strict=False) -> list[ClassInfo]:
        out = [c for c in self.classes if base in c.mro and not (strict and c is base)]
        return out

    def func(self, spec: str) -> FuncInfo:
        """'Class.method' | 'Class.prop[setter]' | 'module/short.py:function'."""
        if ":" in spec:
            m, f = spec.split(":")
            mod = self.module(m)
            if f not in mod.functions:
                raise AnalysisError(f"anchor function {spec} not found")
            return mod.functions[f]
        cname, mname = spec.split(".", 1)
        kind = None
        if "[" in mname:
            mname, kind = mname[:-1].split("[")
        ci = self.cls(cname) if cname != "DataType" else self.cls("DataType", "data.data_type")
        if kind:
            p = ci.props.get(mname)
            fi = getattr(p, kind, None) if p else None
        else:
            fi = ci.methods.get(mname) or (ci.props[mname].getter if mname in ci.props else None)
        if fi is None:
            raise AnalysisError(f"anchor {spec} not found")
        return fi

    def all_functions(self, scope_only=True):
        for mod in self.modules.values():
            if scope_only and not mod.in_scope:
                continue
            yield from mod.functions.values()
            for ci in mod.classes.values():
                yield from ci.methods.values()
                for p in ci.props.values():
                    for k in ("getter", "setter", "deleter"):
                        fi = getattr(p, k)
                        if fi is not None and fi.cls is ci:
                            yield fi

    def is_abstract(self, ci: ClassInfo) -> bool:
        """Has an @abstractmethod that no class earlier in the MRO overrides."""
        seen = set()
        for c in ci.mro:
            if isinstance(c, str):
                continue
            members = list(c.methods.values())
            for p in c.props.values():
                if p.getter is not None:
                    members.append(p.getter)
            for fi in members:
                if fi.name in seen:
                    continue
                seen.add(fi.name)
                for d in fi.node.decorator_list:
                    ds = chain(d)
                    if ds and ds[-1] == "abstractmethod":
                        return True
        return False

    # ------------------------------------------------------- attribute map
    def attribute_map(self, ci: ClassInfo, _seen=None) -> dict[str, str] | None:
        """Symbolic evaluation of `_attribute_map` for class `ci`
        (DESIGN §2.2 item 3): dict literal, Base._attribute_map.copy(),
        _attribute_map.update({literal})."""
        cache = self.__dict__.setdefault("_amap_cache", {})
        if ci in cache:
            return cache[ci]
        for c in ci.mro:
            if isinstance(c, str) or c.node is None:
                continue
            if self._binds_amap(c):
                res = self._eval_amap(c)
                cache[ci] = res
                return res
        cache[ci] = None
        return None

    def _binds_amap(self, c: ClassInfo) -> bool:
        for st in c.node.body:
            for t in _targets(st):
                if isinstance(t, ast.Name) and t.id == "_attribute_map":
                    return True
        return False

    def _eval_amap(self, c: ClassInfo) -> dict[str, str]:
        cur: dict[str, str] | None = None
        for st in c.node.body:
            touches = any(
                isinstance(n, ast.Name) and n.id == "_attribute_map" for n in ast.walk(st)
            ) or any(
                isinstance(n, ast.Attribute) and n.attr == "_attribute_map" for n in ast.walk(st)
            )
            if not touches or isinstance(st, (ast.FunctionDef, ast.AsyncFunctionDef)):
                continue
            tg = [t for t in _targets(st) if isinstance(t, ast.Name) and t.id == "_attribute_map"]
            if tg:
                val = st.value
                cur = self._amap_value(c, val)
                continue
            # _attribute_map.update({...})
            if (
                isinstance(st, ast.Expr)
                and isinstance(st.value, ast.Call)
                and chain(st.value.func) == ["_attribute_map", "update"]
                and len(st.value.args) == 1
                and cur is not None
            ):
                cur = dict(cur)
                cur.update(self._dict_literal(c, st.value.args[0]))
                continue
            raise AnalysisError(
                f"{c.module.relpath}:{st.lineno}: unrecognised statement touching _attribute_map: {unparse(st)[:80]}"
            )
        if cur is None:
            raise AnalysisError(f"{c.where}: could not evaluate _attribute_map")
        return cur

    def _amap_value(self, c: ClassInfo, val) -> dict[str, str]:
        if isinstance(val, ast.Dict):
            return self._dict_literal(c, val)
        if (
            isinstance(val, ast.Call)
            and isinstance(val.func, ast.Attribute)
            and val.func.attr == "copy"
            and not val.args
        ):
            ch = chain(val.func.value)
            if ch and ch[-1] == "_attribute_map" and len(ch) == 2:
                r = self.resolve_name(c.module, ch[0])
                if r and r[0] == "class":
                    m = self.attribute_map(r[1])
                    if m is not None:
                        return dict(m)
        raise AnalysisError(
            f"{c.where}: unrecognised _attribute_map initialiser: {unparse(val)[:80]}"
        )

    def _dict_literal(self, c: ClassInfo, node) -> dict[str, str]:
        if not isinstance(node, ast.Dict):
            raise AnalysisError(f"{c.where}: expected dict literal, got {unparse(node)[:60]}")
        out = {}
        for k, v in zip(node.keys, node.values):
            if k is None:  # **Base._attribute_map
                ch = chain(v)
                if ch and ch[-1] == "_attribute_map" and len(ch) == 2:
                    r = self.resolve_name(c.module, ch[0])
                    if r and r[0] == "class":
                        out.update(self.attribute_map(r[1]) or {})
                        continue
                raise AnalysisError(f"{c.where}: unrecognised ** in _attribute_map")
            if not (isinstance(k, ast.Constant) and isinstance(v, ast.Constant)):
                raise AnalysisError(f"{c.where}: non-constant _attribute_map entry {unparse(k)}")
            out[k.value] = v.value
        return out

    # --------------------------------------------------- module constants
    def const_dict(self, mod: Module, name: str) -> dict:
        """Evaluate a module-level dict literal of constants."""
        node = mod.assigns.get(name)
        if not isinstance(node, ast.Dict):
            raise AnalysisError(f"{mod.relpath}: {name} is not a dict literal")
        out = {}
        for k, v in zip(node.keys, node.values):
            try:
                out[ast.literal_eval(k)] = ast.literal_eval(v)
            except Exception:
                out[unparse(k)] = unparse(v)
        return out


def _targets(st):
    if isinstance(st, ast.Assign):
        return st.targets
    if isinstance(st, ast.AnnAssign) and st.value is not None:
        return [st.target]
    return []
