"""Normalised views of functions, so that rules decide by what the code DOES and not by how it is laid out.

Three behaviour-preserving refactorings are undone before a rule looks at a function:

* **helper extraction** — calls to private helpers (`self._h(..)`, `cls._h(..)`, `Class._h(..)`, module-level `_h(..)`)
  are expanded in place (parameters bound to the arguments, `return` turned into an assignment with the remaining
  statements nested into the other branch), transitively up to a stated depth;
* **constant hoisting** — a name bound once at module or class level to a literal (list / tuple / set / dict / string /
  number) is replaced by that literal, except the package's own named tables the rules refer to by name;
* **local aliases / temporaries** — `expanded(expr)` substitutes single-assignment locals by their defining
  expressions (recursively), so `container = h5file[base][kind]; container.create_group(k)` and
  `h5file[base][kind].create_group(k)` compare equal.

Nothing is executed.  A view keeps the source positions of the original nodes (inlined statements carry the position of
the call they replace) so that findings still point into the real file.  When a helper cannot be expanded soundly
(returns inside loops / try / with, partial returns in nested branches, *args / **kwargs, recursion, overridden in a
subclass) the call is left as it is.
"""

from __future__ import annotations

import ast
import copy
import os
import re
from dataclasses import replace

from .model import FuncInfo, Project, unparse

# package tables / constants the rules name explicitly: never substituted by their value
_KEEP_CACHE: set | None = None


def rule_named_constants() -> set:
    global _KEEP_CACHE
    if _KEEP_CACHE is None:
        keep = set()
        here = os.path.join(os.path.dirname(os.path.abspath(__file__)), "rules")
        for f in os.listdir(here):
            if f.endswith(".py"):
                src = open(os.path.join(here, f), encoding="utf-8").read()
                keep |= set(re.findall(r"\b[A-Z][A-Z0-9_]{2,}\b", src))
        _KEEP_CACHE = keep
    return _KEEP_CACHE


_IDENT_CACHE: set | None = None


def rule_named_identifiers() -> set:
    """every identifier-like word that occurs in a STRING LITERAL of the rules' own code (docstrings and comments excluded): a
    function whose name is NOT among them cannot be an anchor of any rule — rules name library functions only in strings
    (`f.attr == "remove_child"`, tables of names, patterns) — so expanding calls to it in place changes nothing a rule looks for
    by name.  Words of comments / docstrings / the rules' own variable names do not count: a helper name that a corpus
    refactoring introduces and that someone mentions in a comment must not change the views of every property."""
    global _IDENT_CACHE
    if _IDENT_CACHE is None:
        words = set()
        here = os.path.join(os.path.dirname(os.path.abspath(__file__)), "rules")
        for base in (here, os.path.dirname(os.path.abspath(__file__))):
            for f in os.listdir(base):
                if f.endswith(".py") and not (base != here and f in ("normalize.py",)):
                    src = open(os.path.join(base, f), encoding="utf-8").read()
                    try:
                        tree = ast.parse(src)
                    except SyntaxError:
                        words |= set(re.findall(r"[A-Za-z_][A-Za-z0-9_]*", src))
                        continue
                    doc = {id(n.value) for n in ast.walk(tree) if isinstance(n, ast.Expr) and isinstance(n.value, ast.Constant) and isinstance(n.value.value, str)}
                    for n in ast.walk(tree):
                        if isinstance(n, ast.Constant) and isinstance(n.value, str) and id(n) not in doc:
                            words |= set(re.findall(r"[A-Za-z_][A-Za-z0-9_]*", n.value))
        _IDENT_CACHE = words
    return _IDENT_CACHE


def _is_literal(v) -> bool:
    if isinstance(v, ast.Constant):
        return True
    if isinstance(v, (ast.List, ast.Tuple, ast.Set)):
        return all(_is_literal(e) or isinstance(e, (ast.Name, ast.Attribute)) for e in v.elts) and len(v.elts) <= 40
    if isinstance(v, ast.Dict):
        return all(k is not None and (_is_literal(k) or isinstance(k, (ast.Name, ast.Attribute))) for k in v.keys) and \
            all(_is_literal(x) or isinstance(x, (ast.Name, ast.Attribute)) for x in v.values) and len(v.keys) <= 40
    return False


class _Namer:
    def __init__(self):
        self.n = 0

    def fresh(self, base):
        self.n += 1
        return f"{base}__i{self.n}"


def _bound_names(fn_node) -> set:
    out = set()
    a = fn_node.args
    out |= {x.arg for x in a.posonlyargs + a.args + a.kwonlyargs}
    if a.vararg:
        out.add(a.vararg.arg)
    if a.kwarg:
        out.add(a.kwarg.arg)
    for n in ast.walk(fn_node):
        if isinstance(n, ast.Name) and isinstance(n.ctx, (ast.Store, ast.Del)):
            out.add(n.id)
        elif isinstance(n, ast.ExceptHandler) and n.name:
            out.add(n.name)
    return out


def _contains_return(stmts) -> bool:
    for s in stmts:
        for x in ast.walk(s):
            if isinstance(x, ast.Return):
                return True
            if isinstance(x, (ast.Yield, ast.YieldFrom)):
                return True
    return False


class _CannotInline(Exception):
    pass


def _eliminate_returns(stmts, ret_name, at):
    """Rewrite a helper body into single-exit form: `return X` -> `ret = X`, following statements nested into the branch
    that did not return.  Returns (statements, terminated).  Raises _CannotInline for shapes that would need a flag."""
    out = []
    for i, s in enumerate(stmts):
        if isinstance(s, ast.Return):
            val = s.value if s.value is not None else ast.Constant(value=None)
            out.append(ast.copy_location(ast.Assign(targets=[ast.Name(id=ret_name, ctx=ast.Store())], value=val, lineno=at.lineno), at))
            return out, True
        if isinstance(s, ast.Raise):
            out.append(s)
            return out, True
        if isinstance(s, ast.If):
            if not _contains_return([s]):
                out.append(s)
                continue
            b, tb = _eliminate_returns(s.body, ret_name, at)
            o, to = _eliminate_returns(s.orelse, ret_name, at) if s.orelse else ([], False)
            rest = stmts[i + 1:]
            if tb and to:
                out.append(ast.copy_location(ast.If(test=s.test, body=b, orelse=o), s))
                return out, True
            if tb or to:
                r, tr = _eliminate_returns(rest, ret_name, at)
                if tb:
                    new = ast.If(test=s.test, body=b, orelse=(o + r))
                else:
                    new = ast.If(test=s.test, body=(b + r) or [ast.Pass()], orelse=o)
                out.append(ast.copy_location(new, s))
                return out, tr
            # a return somewhere deeper that does not end the branch: would need a flag
            raise _CannotInline("partial return in a nested branch")
        if isinstance(s, ast.With) and _contains_return([s]):
            b, tb = _eliminate_returns(s.body, ret_name, at)
            if not tb:
                raise _CannotInline("partial return inside with")
            out.append(ast.copy_location(ast.With(items=s.items, body=b), s))
            return out, True
        if isinstance(s, ast.Try) and _contains_return([s]) and not s.finalbody and not s.orelse:
            b, tb = _eliminate_returns(s.body, ret_name, at)
            hs, all_t = [], tb
            for h in s.handlers:
                hb, th = _eliminate_returns(h.body, ret_name, at)
                all_t = all_t and th
                hs.append(ast.copy_location(ast.ExceptHandler(type=h.type, name=h.name, body=hb or [ast.Pass()]), h))
            if not all_t:
                raise _CannotInline("return on some paths of a try statement only")
            out.append(ast.copy_location(ast.Try(body=b, handlers=hs, orelse=[], finalbody=[]), s))
            return out, True
        if _contains_return([s]):
            raise _CannotInline(f"return inside {type(s).__name__}")
        out.append(s)
    return out, False


class Normalizer:
    def __init__(self, project: Project, depth: int = 3, public: bool = True):
        self.p = project
        self.depth = depth
        self.public = public and os.environ.get("VERIF_INLINE_PUBLIC", "1") == "1"
        self._views: dict = {}

    # ------------------------------------------------------------------ callee resolution
    def _callee(self, fn: FuncInfo, call: ast.Call):
        """(FuncInfo, receiver_kind) for a call to a private helper that can be expanded, else None."""
        f = call.func
        name = f.attr if isinstance(f, ast.Attribute) else getattr(f, "id", None)
        if not name or name.startswith("__"):
            return None
        # private helpers always; public functions only when no rule knows them by name (e.g. a helper a refactoring introduced)
        if not name.startswith("_") and (not self.public or name in rule_named_identifiers()):
            return None
        target = None
        if isinstance(f, ast.Attribute) and isinstance(f.value, ast.Name):
            recv = f.value.id
            if fn.cls is not None and recv in ("self", "cls", fn.self_name):
                m = fn.cls.lookup(name)
                if m and m[1] == "method":
                    target = m[2]
                    # dynamic dispatch: a subclass overriding the helper makes the expansion unsound
                    for sub in self.p.subclasses(fn.cls, strict=True):
                        o = sub.own(name) if hasattr(sub, "own") else None
                        if o is not None:
                            return None
            else:
                r = self.p.resolve_name(fn.module, recv)
                if r and r[0] == "class":
                    m = r[1].lookup(name)
                    if m and m[1] == "method":
                        target = m[2]
        elif isinstance(f, ast.Name):
            r = self.p.resolve_name(fn.module, name)
            if r and r[0] == "func":
                target = r[1]
        if target is None or target.node is fn.node:
            return None
        a = target.node.args
        if a.vararg or a.kwarg or any(isinstance(x, ast.Starred) for x in call.args) or any(k.arg is None for k in call.keywords):
            return None
        for d in target.node.decorator_list:
            if unparse(d) not in ("staticmethod", "classmethod"):
                return None
        if any(isinstance(x, (ast.Yield, ast.YieldFrom, ast.Global, ast.Nonlocal, ast.FunctionDef, ast.Lambda)) for s in target.node.body for x in ast.walk(s)):
            return None
        return target

    # ------------------------------------------------------------------ expansion of one call
    def _expand(self, fn: FuncInfo, call: ast.Call, callee: FuncInfo, taken: set, namer: _Namer, stack: tuple):
        """Statements that stand for `ret = call` and the name holding the result."""
        body = copy.deepcopy([s for s in callee.node.body if not (isinstance(s, ast.Expr) and isinstance(s.value, ast.Constant) and isinstance(s.value.value, str))])
        a = callee.node.args
        params = [x.arg for x in a.posonlyargs + a.args]
        defaults = dict(zip(params[len(params) - len(a.defaults):], a.defaults))
        for k, d in zip(a.kwonlyargs, a.kw_defaults):
            params.append(k.arg)
            if d is not None:
                defaults[k.arg] = d
        args = list(call.args)
        # implicit receiver
        if callee.kind in ("method", "classmethod") and isinstance(call.func, ast.Attribute):
            recv = call.func.value
            recv_is_class = isinstance(recv, ast.Name) and recv.id not in ("self", "cls", fn.self_name or "")
            if callee.kind == "method" and recv_is_class:
                pass  # Class.m(obj, ...): explicit self
            else:
                args = [recv] + args
        binding = {}
        for prm, arg in zip(params, args):
            binding[prm] = arg
        for k in call.keywords:
            binding[k.arg] = k.value
        for prm in params:
            if prm not in binding:
                if prm in defaults:
                    binding[prm] = defaults[prm]
                else:
                    raise _CannotInline(f"argument for {prm} not found")
        # rename the helper's own names that clash with the caller's
        own = _bound_names(callee.node)
        ren = {}
        for nm in own:
            if nm in taken and not (nm in binding and isinstance(binding[nm], ast.Name) and binding[nm].id == nm):
                ren[nm] = namer.fresh(nm)

        class Ren(ast.NodeTransformer):
            def visit_Name(self, node):
                if node.id in ren:
                    return ast.copy_location(ast.Name(id=ren[node.id], ctx=node.ctx), node)
                return node

            def visit_ExceptHandler(self, node):
                self.generic_visit(node)
                if node.name in ren:
                    node.name = ren[node.name]
                return node

        body = [Ren().visit(s) for s in body]
        pre = []
        for prm in params:
            arg = binding[prm]
            tgt = ren.get(prm, prm)
            if isinstance(arg, ast.Name) and arg.id == tgt:
                continue  # same name on both sides: nothing to bind
            pre.append(ast.copy_location(ast.Assign(targets=[ast.Name(id=tgt, ctx=ast.Store())], value=copy.deepcopy(arg), lineno=call.lineno), call))
        ret = namer.fresh("_ret")
        stmts, _term = _eliminate_returns(body, ret, call)
        init = ast.copy_location(ast.Assign(targets=[ast.Name(id=ret, ctx=ast.Store())], value=ast.Constant(value=None), lineno=call.lineno), call)
        out = pre + [init] + stmts
        for s in out:
            for x in ast.walk(s):
                if not hasattr(x, "lineno"):
                    ast.copy_location(x, call)
        taken |= set(ren.values()) | {ret} | own
        return out, ret

    # ------------------------------------------------------------------ statement lists
    def _inline_block(self, fn, stmts, taken, namer, stack, level):
        out = []
        for s in stmts:
            # nested blocks first
            for fld in ("body", "orelse", "finalbody"):
                blk = getattr(s, fld, None)
                if isinstance(blk, list) and blk and isinstance(blk[0], ast.stmt):
                    setattr(s, fld, self._inline_block(fn, blk, taken, namer, stack, level))
            for h in getattr(s, "handlers", []) or []:
                h.body = self._inline_block(fn, h.body, taken, namer, stack, level)
            # calls evaluated once by this statement (not inside loops' tests, lambdas, comprehensions)
            hosts = []
            if isinstance(s, (ast.Expr, ast.Assign, ast.AnnAssign, ast.AugAssign, ast.Return)):
                if getattr(s, "value", None) is not None:
                    hosts.append(s.value)
            elif isinstance(s, ast.If):
                hosts.append(s.test)
            elif isinstance(s, ast.With):
                hosts += [it.context_expr for it in s.items]
            elif isinstance(s, ast.For):
                hosts.append(s.iter)
            pre = []
            for h in hosts:
                calls = []

                def collect(e):
                    """calls this statement evaluates UNCONDITIONALLY and exactly once: nothing inside lambdas / comprehensions,
                    nor in the branches of a conditional expression, nor in the later operands of and / or (hoisting those in
                    front of the statement would move them out of their guard)"""
                    if isinstance(e, (ast.Lambda, ast.ListComp, ast.SetComp, ast.DictComp, ast.GeneratorExp)):
                        return
                    if isinstance(e, ast.IfExp):
                        collect(e.test)
                        return
                    if isinstance(e, ast.BoolOp):
                        collect(e.values[0])
                        return
                    for c in ast.iter_child_nodes(e):
                        collect(c)
                    if isinstance(e, ast.Call):
                        calls.append(e)

                collect(h)
                for c in calls:
                    callee = self._callee(fn, c)
                    if callee is None or callee in stack or level >= self.depth:
                        continue
                    try:
                        exp, ret = self._expand(fn, c, callee, taken, namer, stack)
                    except _CannotInline:
                        continue
                    # the helper's own helpers
                    sub_fn = replace(fn)  # resolution context: the callee's class / module
                    ctx_fn = FuncInfo(name=fn.name, module=callee.module, node=fn.node, cls=callee.cls if callee.cls is not None else None, kind=fn.kind, prop=fn.prop)
                    exp = self._inline_block(ctx_fn, exp, taken, namer, stack + (callee,), level + 1)
                    pre += exp
                    # replace the call by the result name
                    repl = ast.copy_location(ast.Name(id=ret, ctx=ast.Load()), c)

                    class Sub(ast.NodeTransformer):
                        def visit_Call(self, node, c=c, repl=repl):
                            if node is c:
                                return repl
                            self.generic_visit(node)
                            return node

                    if isinstance(s, (ast.Expr, ast.Assign, ast.AnnAssign, ast.AugAssign, ast.Return)):
                        s.value = Sub().visit(s.value)
                    elif isinstance(s, ast.If):
                        s.test = Sub().visit(s.test)
                    elif isinstance(s, ast.With):
                        for it in s.items:
                            it.context_expr = Sub().visit(it.context_expr)
                    elif isinstance(s, ast.For):
                        s.iter = Sub().visit(s.iter)
            out += pre
            # `Expr(Name(_ret))` left over from an expression statement: drop it
            if isinstance(s, ast.Expr) and isinstance(s.value, ast.Name) and s.value.id.startswith("_ret__i"):
                continue
            out.append(s)
        return out

    # ------------------------------------------------------------------ constants
    def _stored_attrs(self) -> set:
        """attribute names that some code of the package stores through an object (`x.name = ...`, setattr(x, "name", ..))"""
        if not hasattr(self, "_stored_cache"):
            out = set()
            for f in self.p.all_functions(scope_only=False):
                for n in ast.walk(f.node):
                    if isinstance(n, ast.Attribute) and isinstance(n.ctx, (ast.Store, ast.Del)):
                        out.add(n.attr)
                    elif isinstance(n, ast.Call) and getattr(n.func, "id", None) == "setattr" and len(n.args) >= 2 and isinstance(n.args[1], ast.Constant):
                        out.add(str(n.args[1].value))
            self._stored_cache = out
        return self._stored_cache

    def _subst_constants(self, fn: FuncInfo, node):
        keep = rule_named_constants()
        bound = _bound_names(node)
        p, mod, cls = self.p, fn.module, fn.cls
        self_stored = self._stored_attrs()

        def literal_for(e):
            if isinstance(e, ast.Name) and e.id not in bound and e.id not in keep and isinstance(e.ctx, ast.Load):
                r = p.resolve_name(mod, e.id)
                if r and r[0] == "assign" and _is_literal(r[1][1]):
                    return r[1][1]
            if isinstance(e, ast.Attribute) and isinstance(e.ctx, ast.Load) and isinstance(e.value, ast.Name) and e.attr not in keep:
                owner = None
                if cls is not None and e.value.id in ("self", "cls", fn.self_name or ""):
                    owner = cls
                else:
                    r = p.resolve_name(mod, e.value.id)
                    if r and r[0] == "class":
                        owner = r[1]
                if owner is not None:
                    for c in owner.mro:
                        if isinstance(c, str):
                            continue
                        if e.attr in c.class_assigns:
                            v = c.class_assigns[e.attr][0]
                            # only constant TABLES / strings that no code ever re-binds on an instance or class (a class-level
                            # `_x = None` is the default of an instance attribute, not a constant), never attribute maps
                            if v is not None and _is_literal(v) and not (isinstance(v, ast.Constant) and not isinstance(v.value, str)) \
                                    and (e.attr.isupper() or e.attr.startswith("_")) and not e.attr.startswith("_attribute_map") \
                                    and e.attr not in self_stored:
                                return v
                            return None
            return None

        class C(ast.NodeTransformer):
            def visit_Name(self, n):
                v = literal_for(n)
                return ast.copy_location(copy.deepcopy(v), n) if v is not None else n

            def visit_Attribute(self, n):
                v = literal_for(n)
                if v is not None:
                    return ast.copy_location(copy.deepcopy(v), n)
                self.generic_visit(n)
                return n

        new = C().visit(node)
        for x in ast.walk(new):
            if not hasattr(x, "lineno") and isinstance(x, (ast.expr, ast.stmt)):
                x.lineno = node.lineno
                x.col_offset = 0
                x.end_lineno = node.lineno
                x.end_col_offset = 0
        return new

    # ------------------------------------------------------------------ public
    def view(self, fn: FuncInfo, inline: bool = True, consts: bool = True) -> FuncInfo:
        """A FuncInfo whose body has private helpers expanded and hoisted literal constants substituted."""
        key = (id(fn.node), inline, consts)
        if key in self._views:
            return self._views[key]
        node = copy.deepcopy(fn.node)
        if inline:
            taken = _bound_names(node)
            node.body = self._inline_block(fn, node.body, taken, _Namer(), (fn,), 0)
        if consts:
            node = self._subst_constants(fn, node)
        ast.fix_missing_locations(node)
        v = FuncInfo(name=fn.name, module=fn.module, node=node, cls=fn.cls, kind=fn.kind, prop=fn.prop)
        self._views[key] = v
        return v


# ---------------------------------------------------------------------- alias expansion
def single_assignments(fn_node) -> dict:
    """local name -> its only defining expression (simple `x = e` / `x: T = e` / `with e as x`), for names bound exactly once
    and never re-bound by loops, augmented assignments, tuple targets or deletes."""
    defs: dict = {}
    count: dict = {}
    for n in ast.walk(fn_node):
        if isinstance(n, (ast.Assign, ast.AnnAssign)) and n.value is not None:
            tgs = n.targets if isinstance(n, ast.Assign) else [n.target]
            for t in tgs:
                if isinstance(t, ast.Name):
                    defs[t.id] = n.value
                    count[t.id] = count.get(t.id, 0) + 1
                else:
                    for x in ast.walk(t):
                        if isinstance(x, ast.Name) and isinstance(x.ctx, ast.Store):
                            count[x.id] = count.get(x.id, 0) + 2
        elif isinstance(n, ast.With):
            for it in n.items:
                if isinstance(it.optional_vars, ast.Name):
                    defs[it.optional_vars.id] = it.context_expr
                    count[it.optional_vars.id] = count.get(it.optional_vars.id, 0) + 1
        elif isinstance(n, (ast.AugAssign,)):
            for x in ast.walk(n.target):
                if isinstance(x, ast.Name):
                    count[x.id] = count.get(x.id, 0) + 2
        elif isinstance(n, (ast.For, ast.comprehension)):
            for x in ast.walk(n.target):
                if isinstance(x, ast.Name):
                    count[x.id] = count.get(x.id, 0) + 2
        elif isinstance(n, ast.NamedExpr) and isinstance(n.target, ast.Name):
            count[n.target.id] = count.get(n.target.id, 0) + 2
        elif isinstance(n, ast.ExceptHandler) and n.name:
            count[n.name] = count.get(n.name, 0) + 2
    a = fn_node.args
    params = {x.arg for x in a.posonlyargs + a.args + a.kwonlyargs}
    return {k: v for k, v in defs.items() if count.get(k) == 1 and k not in params}


def expanded(expr, fn_node, _defs=None, _depth=0):
    """`expr` with every single-assignment local replaced (recursively) by its defining expression."""
    defs = _defs if _defs is not None else single_assignments(fn_node)
    if _depth > 8:
        return expr

    class E(ast.NodeTransformer):
        def visit_Name(self, n):
            if isinstance(n.ctx, ast.Load) and n.id in defs:
                return ast.copy_location(expanded(copy.deepcopy(defs[n.id]), fn_node, defs, _depth + 1), n)
            return n

    return E().visit(copy.deepcopy(expr))


def xtext(expr, fn_node) -> str:
    """Text of the alias-expanded expression (for comparisons that must not depend on temporaries)."""
    return unparse(expanded(expr, fn_node))


# ---------------------------------------------------------------------------------------------------------------------
# row-table loops: `for a, b, c in ROWS: if test(a): call(b, *c); break` [`else: rest`] over a LITERAL table of rows
# ---------------------------------------------------------------------------------------------------------------------
def unroll_row_loops(fn_node, max_rows: int = 64):
    """A copy of the function in which every loop over a literal table of rows is unrolled, each row's elements put in
    place of the loop targets — so that a dispatch written as a row table (`(names, writer, args, kwargs)` rows walked by
    a `for .. else`) reads as the if / elif chain it is.  Only two body shapes are unrolled, everything else is left as
    it is (the caller's analysis then decides as before):

      * the body is one `if TEST: ...; break` (no `else`, no other break / continue): nested `if TEST_k: ... else: <next row>`,
        the loop's `else:` clause becoming the innermost `else`;
      * the body has no break / continue at all: the bodies in sequence, then the `else:` clause.

    The table is the iterable itself (a tuple / list display) or a local bound exactly once to one; every row must be a
    tuple / list display with as many elements as the loop has targets, and no target may be re-bound in the body.
    Returns (new node, number of loops unrolled); the input is not modified."""
    import copy

    defs = single_assignments(fn_node)
    done = [0]

    def rows_of(it):
        if isinstance(it, ast.Name):
            it = defs.get(it.id)
        if not isinstance(it, (ast.Tuple, ast.List)) or not (0 < len(it.elts) <= max_rows):
            return None
        return it.elts

    def subst(stmts, env):
        class S(ast.NodeTransformer):
            def visit_Name(self, n):
                if isinstance(n.ctx, ast.Load) and n.id in env:
                    return ast.copy_location(copy.deepcopy(env[n.id]), n)
                return n

            def visit_Starred(self, n):
                self.generic_visit(n)
                return n

        out = [S().visit(copy.deepcopy(s)) for s in stmts]
        # f(*(<a>, <b>)) -> f(<a>, <b>) ;  f(**{}) -> f()  (what the substitution leaves behind)
        for s in out:
            for c in ast.walk(s):
                if isinstance(c, ast.Call):
                    args = []
                    for a in c.args:
                        if isinstance(a, ast.Starred) and isinstance(a.value, (ast.Tuple, ast.List)) \
                                and not any(isinstance(e, ast.Starred) for e in a.value.elts):
                            args.extend(a.value.elts)
                        else:
                            args.append(a)
                    c.args = args
                    c.keywords = [k for k in c.keywords
                                  if not (k.arg is None and isinstance(k.value, ast.Dict) and not k.value.keys)]
        return out

    def jumps(stmts):
        found = []

        def walk(n, in_loop):
            for ch in ast.iter_child_nodes(n):
                if isinstance(ch, (ast.FunctionDef, ast.AsyncFunctionDef, ast.Lambda, ast.ClassDef)):
                    continue
                if isinstance(ch, (ast.Break, ast.Continue)) and not in_loop:
                    found.append(ch)
                walk(ch, in_loop or isinstance(ch, (ast.For, ast.While, ast.AsyncFor)))

        for s in stmts:
            if isinstance(s, (ast.Break, ast.Continue)):
                found.append(s)
            else:
                walk(s, isinstance(s, (ast.For, ast.While, ast.AsyncFor)))
        return found

    class U(ast.NodeTransformer):
        def visit_For(self, n):
            self.generic_visit(n)
            tg = n.target
            names = [tg] if isinstance(tg, ast.Name) else (list(tg.elts) if isinstance(tg, (ast.Tuple, ast.List)) else None)
            if not names or not all(isinstance(x, ast.Name) for x in names):
                return n
            rows = rows_of(n.iter)
            if rows is None or not getattr(n, "_row_ok", False):
                return n
            ids = [x.id for x in names]
            envs = []
            for r in rows:
                if isinstance(tg, ast.Name):
                    envs.append({ids[0]: r})
                elif isinstance(r, (ast.Tuple, ast.List)) and len(r.elts) == len(ids) \
                        and not any(isinstance(e, ast.Starred) for e in r.elts):
                    envs.append(dict(zip(ids, r.elts)))
                else:
                    return n
            for s in n.body + n.orelse:
                for x in ast.walk(s):
                    if isinstance(x, ast.Name) and x.id in ids and not isinstance(x.ctx, ast.Load):
                        return n
            js = jumps(n.body)
            if not js:
                out = []
                for env in envs:
                    out += subst(n.body, env)
                out += copy.deepcopy(n.orelse)
                done[0] += 1
                return [ast.copy_location(s, n) if not hasattr(s, "lineno") else s for s in out] or [ast.copy_location(ast.Pass(), n)]
            if len(n.body) == 1 and isinstance(n.body[0], ast.If) and not n.body[0].orelse and len(js) == 1 \
                    and n.body[0].body and js[0] is n.body[0].body[-1] and isinstance(js[0], ast.Break):
                inner = n.body[0]
                tail = copy.deepcopy(n.orelse)
                for env in reversed(envs):
                    test = subst([ast.Expr(value=inner.test)], env)[0].value
                    body = subst(inner.body[:-1], env) or [ast.copy_location(ast.Pass(), inner)]
                    tail = [ast.copy_location(ast.If(test=test, body=body, orelse=tail), inner)]
                done[0] += 1
                return tail
            return n

    work = copy.deepcopy(fn_node)
    # a target read outside its loop keeps the last row's value there: not modelled, such a loop is left alone
    total: dict = {}
    for x in ast.walk(work):
        if isinstance(x, ast.Name) and isinstance(x.ctx, ast.Load):
            total[x.id] = total.get(x.id, 0) + 1
    for lp in ast.walk(work):
        if isinstance(lp, ast.For):
            inside: dict = {}
            for x in ast.walk(lp):
                if isinstance(x, ast.Name) and isinstance(x.ctx, ast.Load):
                    inside[x.id] = inside.get(x.id, 0) + 1
            tids = [x.id for x in ast.walk(lp.target) if isinstance(x, ast.Name)]
            lp._row_ok = all(total.get(t, 0) == inside.get(t, 0) for t in tids)
    new = U().visit(work)
    if done[0]:
        ast.fix_missing_locations(new)
    return new, done[0]
