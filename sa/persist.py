"""Store -> persist dirty-set analysis (C03.W1 engine, reused by C01.PGW, C20).

State = (dirty, must): `dirty` is the set of (receiver, backing field) pairs
stored or mutated in place and not yet handed to a writer branch that covers
them; `must` is the set of routes persisted for `self` on every path so far.
Join: union / intersection.  Interprocedural through summaries of resolved
callees (self.m(), super().m(), Base.prop.fset(self, v), self.prop = v).
"""

from __future__ import annotations

import ast
from dataclasses import dataclass, field

from .cfg import CFG, find_path, forward, ordered
from .model import AnalysisError, ClassInfo, FuncInfo, Project, chain, unparse
from .tables import WriterTables

MUTATORS = {
    "append", "extend", "insert", "remove", "pop", "clear", "update", "setdefault",
    "sort", "reverse", "popitem", "add", "discard", "fill", "resize", "put", "itemset",
}
FRESH_CALLS = {"copy", "deepcopy", "tolist", "astype", "items", "keys", "values"}

# identity attributes excluded by name (DESIGN C03.W1): a uid is the key of the
# stored node; on_file / workspace are in-memory state; parent is governed by
# C02.REPARENT; property_groups by C01.PGW / C05.
IDENTITY = {"uid", "on_file", "workspace", "parent", "property_groups", "attribute_map"}
EXTRA_PERSISTED = ("metadata", "options", "values", "entity_type", "color_map", "value_map")


@dataclass
class Summary:
    must: frozenset = frozenset()
    dirty: frozenset = frozenset()
    stores: set = field(default_factory=set)
    persists: list = field(default_factory=list)  # (recv, route, lineno, first_arg_node)
    has_effect: bool = False
    witness: dict = field(default_factory=dict)  # (recv, field) -> [lines]
    delegates: list = field(default_factory=list)


class PersistEngine:
    def __init__(self, proj: Project, tables: WriterTables | None = None, max_depth: int = 4):
        self.p = proj
        self.t = tables or WriterTables(proj)
        self.max_depth = max_depth
        self._memo: dict = {}
        self._cfg: dict = {}
        self.update_attribute = proj.func("Workspace.update_attribute")
        self.unresolved: list[str] = []

    # ---------------------------------------------------------- class tables
    def amap_fields(self, K: ClassInfo) -> set[str]:
        amap = self.p.attribute_map(K) or {}
        return {
            "_" + v
            for k, v in amap.items()
            if isinstance(v, str) and v.isidentifier() and k not in self.t.skip_keys and v not in IDENTITY
        }

    def domain(self, K: ClassInfo) -> set[str]:
        if K.name == "ColorMap":
            return {"values", "name"}
        if K.name == "ReferenceValueMap":
            return {"map"}
        amap = self.p.attribute_map(K) or {}
        attrs = {v for k, v in amap.items() if isinstance(v, str) and v.isidentifier()}
        for r in list(self.t.routes) + list(self.t.dataset_keys) + list(EXTRA_PERSISTED):
            m = K.lookup(r)
            if m and m[1] == "prop":
                attrs.add(r)
        # attributes a typed writer helper reads from the entity (write_file_name_data(entity: FilenameData) -> file_name)
        for cls_name, names in self.t.typed_handler_reads.items():
            if K.is_subclass_of(cls_name):
                for a in names:
                    m = K.lookup(a)
                    if m and m[1] == "prop" and m[2].setter is not None:
                        attrs.add(a)
        return attrs - IDENTITY

    def persisted_fields(self, K: ClassInfo) -> set[str]:
        key = ("pf", K)
        if key not in self._memo:
            self._memo[key] = {"_" + a for a in self.domain(K)}
        return self._memo[key]

    def cfg(self, fn: FuncInfo) -> CFG:
        if fn not in self._cfg:
            self._cfg[fn] = CFG(fn.node)
        return self._cfg[fn]

    # ------------------------------------------------------------- resolution
    def resolve_self_call(self, fn: FuncInfo, K: ClassInfo, call: ast.Call):
        """Resolve a call whose effects land on `self`: returns (FuncInfo, kind) or None."""
        f = call.func
        sn = fn.self_name
        if isinstance(f, ast.Attribute):
            ch = chain(f)
            if ch is None:
                return None
            # self.m(...)
            if len(ch) == 2 and ch[0] == sn:
                m = K.lookup(ch[1])
                if m and m[1] == "method":
                    return m[2]
                return None
            # super().m(...)
            if len(ch) == 2 and ch[0] == "super()":
                return self._after(K, fn.cls, ch[1], "method", f.value)
            # X.prop.fset(self, v)  /  super(A, B).prop.fset(self, v)
            if ch[-1] == "fset" and len(ch) >= 3 and call.args and isinstance(call.args[0], ast.Name) and call.args[0].id == sn:
                prop = ch[-2]
                base = f.value.value  # expr before .prop
                if isinstance(base, ast.Call) and isinstance(base.func, ast.Name) and base.func.id == "super":
                    if len(base.args) == 2:
                        a = self.p.resolve_expr(fn.module, base.args[0])
                        if a and a[0] == "class":
                            return self._after(K, a[1], prop, "setter", None)
                    return self._after(K, fn.cls, prop, "setter", None)
                r = self.p.resolve_expr(fn.module, base)
                if r and r[0] == "class":
                    m = r[1].lookup(prop)
                    if m and m[1] == "prop":
                        return m[2].setter
                return None
            # Base.m(self, ...)
            if len(ch) == 2 and call.args and isinstance(call.args[0], ast.Name) and call.args[0].id == sn:
                r = self.p.resolve_name(fn.module, ch[0])
                if r and r[0] == "class":
                    m = r[1].lookup(ch[1])
                    if m and m[1] == "method":
                        return m[2]
        return None

    def _after(self, K: ClassInfo, after: ClassInfo, name: str, want: str, _n):
        mro = [c for c in K.mro if not isinstance(c, str)]
        if after in mro:
            mro = mro[mro.index(after) + 1 :]
        for c in mro:
            m = c.own(name)
            if m is None:
                continue
            if want == "method" and m[0] == "method":
                return m[1]
            if want == "setter" and m[0] == "prop":
                return m[1].setter
            return None
        return None

    # ------------------------------------------------------------------ roots
    def _aliases(self, fn: FuncInfo, K: ClassInfo) -> dict[str, str]:
        """local name -> backing field it aliases (flow-insensitive)."""
        sn = fn.self_name
        out: dict[str, str] = {}
        changed = True
        while changed:
            changed = False
            for n in ast.walk(fn.node):
                if isinstance(n, ast.Assign) and len(n.targets) == 1 and isinstance(n.targets[0], ast.Name):
                    f = self._root_field(n.value, sn, out, K)
                    # first binding wins: a local bound to two different fields on two branches must not flip for ever
                    # (met with refactoring C12-d1, DESIGN.md §16)
                    if f and f[0] == "self" and n.targets[0].id not in out:
                        out[n.targets[0].id] = f[1]
                        changed = True
        return out

    def _root_field(self, expr, sn, aliases, K):
        """If expr denotes (part of) the object stored in a field of self or of
        another receiver: ('self'|recv_text, field).  Attribute / Subscript /
        .get() chains only; copies and arithmetic are fresh."""
        e = expr
        while True:
            if isinstance(e, ast.Subscript):
                e = e.value
            elif isinstance(e, ast.Call) and isinstance(e.func, ast.Attribute) and e.func.attr in ("get", "setdefault"):
                e = e.func.value
            elif isinstance(e, ast.Attribute):
                if isinstance(e.value, ast.Name) and e.value.id == sn:
                    name = e.attr
                    fld = name if name.startswith("_") else "_" + name
                    return ("self", fld)
                if isinstance(e.value, ast.Name) and e.attr.startswith("_"):
                    return (e.value.id, e.attr)
                e = e.value
            elif isinstance(e, ast.Name):
                if e.id in aliases:
                    return ("self", aliases[e.id])
                return None
            else:
                return None

    # ----------------------------------------------------------------- events
    def events(self, fn: FuncInfo, K: ClassInfo, node, aliases):
        """Yield events of one CFG node in evaluation order."""
        sn = fn.self_name
        for n in ordered(node):
            if isinstance(n, (ast.Assign, ast.AnnAssign, ast.AugAssign)):
                targets = n.targets if isinstance(n, ast.Assign) else [n.target]
                if isinstance(n, ast.AnnAssign) and n.value is None:
                    continue
                for t in targets:
                    yield from self._target_events(fn, K, t, sn, aliases, n)
            elif isinstance(n, ast.Delete):
                for t in n.targets:
                    if isinstance(t, ast.Subscript):
                        r = self._root_field(t.value, sn, aliases, K)
                        if r:
                            yield ("store", r[0], r[1], n)
                    elif isinstance(t, ast.Attribute) and isinstance(t.value, ast.Name) and t.value.id == sn:
                        yield ("store", "self", t.attr if t.attr.startswith("_") else "_" + t.attr, n)
            elif isinstance(n, ast.Call):
                yield from self._call_events(fn, K, n, sn, aliases)

    def _target_events(self, fn, K, t, sn, aliases, stmt):
        if isinstance(t, (ast.Tuple, ast.List)):
            for e in t.elts:
                yield from self._target_events(fn, K, e, sn, aliases, stmt)
            return
        if isinstance(t, ast.Starred):
            yield from self._target_events(fn, K, t.value, sn, aliases, stmt)
            return
        if isinstance(t, ast.Attribute):
            if isinstance(t.value, ast.Name) and t.value.id == sn:
                m = K.lookup(t.attr)
                if m and m[1] == "prop":
                    if m[2].setter is not None:
                        yield ("call", m[2].setter, stmt)
                    return
                yield ("store", "self", t.attr, stmt)
            elif t.attr.startswith("_"):
                yield ("store", unparse(t.value), t.attr, stmt)
            return
        if isinstance(t, ast.Subscript):
            r = self._root_field(t.value, sn, aliases, K)
            if r:
                yield ("store", r[0], r[1], stmt)

    def _call_events(self, fn, K, n: ast.Call, sn, aliases):
        f = n.func
        if isinstance(f, ast.Attribute):
            if f.attr == "update_attribute" and n.args:
                # the method name is unique to Workspace in the package: any receiver expression counts
                if True:
                    recv = "self" if (isinstance(n.args[0], ast.Name) and n.args[0].id == sn) else unparse(n.args[0])
                    route = None
                    if len(n.args) >= 2 and isinstance(n.args[1], ast.Constant):
                        route = n.args[1].value
                    else:
                        for kw in n.keywords:
                            if kw.arg == "attribute" and isinstance(kw.value, ast.Constant):
                                route = kw.value.value
                    yield ("persist", recv, route, n)
                    return
            if f.attr in MUTATORS:
                r = self._root_field(f.value, sn, aliases, K)
                if r:
                    yield ("store", r[0], r[1], n)
                    return
            target = self.resolve_self_call(fn, K, n)
            if target is not None:
                yield ("call", target, n)
                return
        elif isinstance(f, ast.Name) and f.id == "setattr" and len(n.args) == 3:
            if isinstance(n.args[0], ast.Name) and n.args[0].id == sn and isinstance(n.args[1], ast.Constant):
                name = n.args[1].value
                m = K.lookup(name)
                if m and m[1] == "prop" and m[2].setter is not None:
                    yield ("call", m[2].setter, n)
                else:
                    yield ("store", "self", name, n)

    # ------------------------------------------------------------- gateway guard
    def _gateway_guard(self, fn: FuncInfo, K, node) -> bool:
        """`if self.workspace:` / `if self.parent is not None:` around nothing but
        persistence calls: gateway availability, treated as always true."""
        st = node.stmt
        if not isinstance(st, ast.If) or st.orelse:
            return False
        params = set(fn.params[1:]) | {a.arg for a in fn.node.args.kwonlyargs}
        for n in ast.walk(st.test):
            if isinstance(n, ast.Name) and n.id in params:
                return False
        for s in st.body:
            ok = (
                isinstance(s, ast.Expr)
                and isinstance(s.value, ast.Call)
                and isinstance(s.value.func, ast.Attribute)
                and s.value.func.attr == "update_attribute"
            )
            if not ok:
                return False
        return True

    # ---------------------------------------------------------------- analysis
    def analyse(self, fn: FuncInfo, K: ClassInfo, depth: int = 0, stack=()) -> Summary:
        key = (fn, K)
        if key in self._memo:
            return self._memo[key]
        if key in stack or depth > self.max_depth:
            return Summary()
        g = self.cfg(fn)
        aliases = self._aliases(fn, K)
        pf = self.persisted_fields(K)
        amf = self.amap_fields(K)
        summ = Summary()
        BOTTOM = None

        def covered(route, recv, fld):
            if recv == "self":
                return self.t.covers(route, fld, amf, K) or self._component_cover(K, route, fld)
            # other receivers: class unknown — route r covers _r; 'attributes' covers all
            return route is not None and (fld == "_" + route or route not in self.t.routes)

        def apply(ev, state):
            dirty, must = state
            kind = ev[0]
            if kind == "store":
                _, recv, fld, n = ev
                summ.stores.add((recv, fld))
                if (recv == "self" and fld in pf) or (recv != "self" and fld in ("_metadata",)):
                    dirty = dirty | {(recv, fld)}
                    summ.has_effect = True
                    summ.witness.setdefault((recv, fld), []).append(getattr(n, "lineno", 0))
            elif kind == "persist":
                _, recv, route, n = ev
                summ.persists.append((recv, route, n.lineno, n.args[0]))
                summ.has_effect = True
                dirty = frozenset(d for d in dirty if not (d[0] == recv and covered(route, recv, d[1])))
                if recv == "self" and route is not None:
                    must = must | {route}
            elif kind == "call":
                _, target, n = ev
                sub = self.analyse(target, K, depth + 1, stack + (key,))
                summ.delegates.append(target.qualname)
                if sub.has_effect:
                    summ.has_effect = True
                dirty = frozenset(
                    d for d in dirty if not (d[0] == "self" and any(covered(r, "self", d[1]) for r in sub.must))
                )
                dirty = dirty | sub.dirty
                must = must | sub.must
                for k, v in sub.witness.items():
                    if k in sub.dirty:
                        summ.witness.setdefault(k, []).append(f"via {target.qualname}")
            return (dirty, must)

        def transfer(node, state):
            if node.kind in ("entry", "exit", "rexit", "withexit", "break", "continue", "def", "except"):
                return state
            src = node.ast if node.kind != "with" else node.ast
            for ev in self.events(fn, K, src, aliases):
                state = apply(ev, state)
            if node.kind == "test" and self._gateway_guard(fn, K, node):
                return {"true": state, "false": BOTTOM, None: state}
            return state

        def join(a, b):
            if a is None:
                return b
            if b is None:
                return a
            return (a[0] | b[0], a[1] & b[1])

        IN = forward(g, (frozenset(), frozenset()), transfer, join, bottom=BOTTOM)
        end = IN.get(g.exit)
        if end is not None:
            summ.dirty, summ.must = end
        else:  # no normal exit (always raises)
            summ.dirty, summ.must = frozenset(), frozenset()
        self._memo[key] = summ
        return summ

    def _component_cover(self, K: ClassInfo, route, fld) -> bool:
        # ColorMap / ReferenceValueMap are written by write_color_map / write_value_map
        if K.name == "ColorMap" and route == "color_map":
            return fld in ("_values", "_name")
        if K.name == "ReferenceValueMap" and route == "value_map":
            return fld in ("_map",)
        return False

    def exit_path(self, fn: FuncInfo, fld: str):
        """A path (line numbers) from the last store of `fld` to the normal exit."""
        g = self.cfg(fn)
        stores = [
            n for n in g.nodes
            if n.ast is not None and not isinstance(n.ast, list) and any(
                isinstance(x, ast.Attribute) and x.attr == fld and isinstance(getattr(x, "ctx", None), (ast.Store, ast.Del))
                for x in ast.walk(n.ast)
            )
        ]
        for s in reversed(stores):
            path = find_path(g, s, lambda n: n is g.exit)
            if path:
                return [n.lineno for n in path if n.lineno]
        return []
