"""Findings, rule results, evidence files, known findings, exit codes (DESIGN §2.6/2.7)."""

from __future__ import annotations

import json
import os
import time
from dataclasses import dataclass, field

from .model import AnalysisError

VERIF = os.path.dirname(os.path.dirname(os.path.abspath(__file__)))
EVIDENCE_DIR = os.path.join(VERIF, "evidence")
REPLAY_DIR = os.path.join(EVIDENCE_DIR, "replay")
KNOWN = os.path.join(VERIF, "known_findings.json")


@dataclass
class Finding:
    prop: str
    rule: str
    cls: str
    member: str
    construct: str
    where: str
    message: str
    detail: dict = field(default_factory=dict)

    @property
    def key(self) -> str:
        return f"{self.rule}|{self.cls}|{self.member}|{self.construct}"

    def line(self) -> str:
        return f"{self.where}: [{self.rule}] {self.cls}.{self.member}: {self.message}"


@dataclass
class RuleResult:
    rule: str
    prop: str
    clause: str  # what is decided, one sentence
    instances: list = field(default_factory=list)  # evaluated sites (strings or dicts)
    findings: list = field(default_factory=list)
    notes: list = field(default_factory=list)
    nontrivial: set = field(default_factory=set)  # distinct obligations needing path/dataflow argument
    obligations: int = 0
    discharged: int = 0
    floor: int = 0
    unresolved: list = field(default_factory=list)

    def inst(self, what, nontrivial=False, ok=True):
        self.instances.append(what)
        self.obligations += 1
        if ok:
            self.discharged += 1
        if nontrivial:
            self.nontrivial.add(what if isinstance(what, str) else json.dumps(what, sort_keys=True))

    def find(self, cls, member, construct, where, message, **detail):
        f = Finding(self.prop, self.rule, cls, member, construct, where, message, detail)
        # one finding per key
        if all(f.key != g.key for g in self.findings):
            self.findings.append(f)
        return f

    def check_floor(self):
        if len(self.instances) < self.floor:
            raise AnalysisError(
                f"{self.rule}: {len(self.instances)} instances evaluated, floor is {self.floor} "
                "(an anchor moved or the matcher lost its sites)"
            )


def load_known():
    if not os.path.exists(KNOWN):
        return {"findings": [], "fixed": []}
    with open(KNOWN, encoding="utf-8") as fh:
        return json.load(fh)


def finish(prop: str, tier: str, results: list[RuleResult], t0: float, extra: dict | None = None,
           only_key: str | None = None, write_evidence=True) -> int:
    """Print the report, write evidence + replay files, return the exit code."""
    known = load_known()
    known_keys = {k["key"]: k for k in known.get("findings", []) if k["property"] == prop}
    violations = []
    matched_known = []
    all_findings = []
    for r in results:
        for f in r.findings:
            if only_key and f.key != only_key:
                continue
            all_findings.append(f)
            if f.key in known_keys:
                matched_known.append(f)
            else:
                violations.append(f)

    print(f"== {prop} ({tier}) ==")
    for r in results:
        print(
            f"  rule {r.rule}: {len(r.instances)} instances (floor {r.floor}), "
            f"{r.obligations} obligations, {r.discharged} discharged, "
            f"{len(r.findings)} findings — decides: {r.clause}"
        )
        for n in r.notes[:12]:
            print(f"    note: {n}")
    for f in matched_known:
        k = known_keys[f.key]
        print(f"KNOWN-FINDING: property={prop} {k.get('what', f.message)} [{f.rule} at {f.where}]")
    stale = [k for key, k in known_keys.items() if all(f.key != key for f in all_findings)]
    if not only_key:
        for k in stale:
            print(f"  note: listed known finding not present on this tree: {k['key']}")
    os.makedirs(REPLAY_DIR, exist_ok=True)
    if not only_key:
        # clean old replay files of this property
        for fn in os.listdir(REPLAY_DIR):
            if fn.startswith(prop + "-"):
                os.remove(os.path.join(REPLAY_DIR, fn))
    for i, f in enumerate(violations, 1):
        path = os.path.join(REPLAY_DIR, f"{prop}-{i}.json")
        if not only_key:
            with open(path, "w", encoding="utf-8") as fh:
                json.dump(
                    {
                        "property": prop,
                        "rule": f.rule,
                        "key": f.key,
                        "class": f.cls,
                        "member": f.member,
                        "construct": f.construct,
                        "where": f.where,
                        "message": f.message,
                        "detail": f.detail,
                    },
                    fh,
                    indent=1,
                    default=str,
                )
        print(f"  {f.line()}")
        for k, v in f.detail.items():
            print(f"      {k}: {v}")
        print(f"VIOLATION property={prop} replay={path}")

    if write_evidence and not only_key:
        _write_evidence(prop, tier, results, t0, violations, matched_known, extra or {})
    return 1 if violations else 0


def _write_evidence(prop, tier, results, t0, violations, matched_known, extra):
    evaluations = sum(len(r.instances) for r in results)
    nontrivial = set()
    for r in results:
        nontrivial |= {f"{r.rule}:{x}" for x in r.nontrivial}
    obligations = sum(r.obligations for r in results)
    discharged = sum(r.discharged for r in results)
    samples = []
    for r in results:
        for s in r.instances[:3]:
            samples.append({"rule": r.rule, "instance": s})
        for f in r.findings[:3]:
            samples.append({"rule": r.rule, "finding": f.line(), "detail": f.detail})
    clauses = "; ".join(f"{r.rule}: {r.clause}" for r in results)
    ev = {
        "property_id": prop,
        "tier": tier,
        "seed": int(os.environ.get("VERIF_SEED", "0") or 0),
        "level": "other",
        "coverage": {
            "explanation": (
                "Static analysis of /repo/geoh5py source (ast-based, nothing executed). "
                "Decides the structural clauses below on every class / path / call site they "
                "quantify over; it does not decide the value-dependent behaviour as a whole. "
                + clauses
            ),
            "evaluations": max(evaluations, 1),
            "distinct_nontrivial": len(nontrivial),
            "rule": (
                "an evaluation is one rule instance (class x attribute, call site, function path set, "
                "table cell); it is non-trivial when it needed a path, dataflow or call-graph argument "
                "rather than a plain table lookup; distinct by (rule, class, member)"
            ),
            "obligations": obligations,
            "discharged": discharged,
            "samples": samples[:40] or [{"note": "no instances"}],
            "exhaustive": True,
            "rules": {
                r.rule: {
                    "clause": r.clause,
                    "instances": len(r.instances),
                    "floor": r.floor,
                    "obligations": r.obligations,
                    "discharged": r.discharged,
                    "findings": [f.line() for f in r.findings],
                    "notes": r.notes[:30],
                    "unresolved": r.unresolved[:30],
                }
                for r in results
            },
            "known_findings_matched": [f.key for f in matched_known],
            "trusted_base": ["python ast", "sa/ model (cross-validated against inspect in thorough tier)"],
            **extra,
        },
        "assumptions": [
            "conditions are uninterpreted except the idioms listed in DESIGN §2.4",
            "a call is assumed not to raise unless it is an explicit raise/assert or sits in a try/with body",
            "h5py/numpy behave as documented",
            "user code reaches the file only through the public API",
        ],
        "wall_s": round(time.time() - t0, 3),
        "violations": len(violations),
    }
    os.makedirs(EVIDENCE_DIR, exist_ok=True)
    with open(os.path.join(EVIDENCE_DIR, f"{prop}.json"), "w", encoding="utf-8") as fh:
        json.dump(ev, fh, indent=1, default=str)
