"""Identify local variables by ROLE (what they are bound from / what is done with them), not by spelling,
so that renaming a local does not change a verdict."""

from __future__ import annotations

import ast

from .model import unparse


def returned_names(fn_node) -> set:
    """Names that occur as (part of) a returned expression."""
    out = set()
    for r in ast.walk(fn_node):
        if isinstance(r, ast.Return) and r.value is not None:
            for x in ast.walk(r.value):
                if isinstance(x, ast.Name):
                    out.add(x.id)
    return out


def bound_from(fn_node, pred) -> dict:
    """name -> [value expr] for simple bindings `name = <expr>` / `name: T = <expr>` / `with <expr> as name` / for-targets, where pred(expr)."""
    out = {}
    for n in ast.walk(fn_node):
        if isinstance(n, (ast.Assign, ast.AnnAssign)) and n.value is not None:
            tgs = n.targets if isinstance(n, ast.Assign) else [n.target]
            for t in tgs:
                if isinstance(t, ast.Name) and pred(n.value):
                    out.setdefault(t.id, []).append(n.value)
        elif isinstance(n, ast.With):
            for it in n.items:
                if isinstance(it.optional_vars, ast.Name) and pred(it.context_expr):
                    out.setdefault(it.optional_vars.id, []).append(it.context_expr)
        elif isinstance(n, ast.NamedExpr) and isinstance(n.target, ast.Name) and pred(n.value):
            out.setdefault(n.target.id, []).append(n.value)
    return out


def calls(expr, *names) -> bool:
    """expr contains a call whose function (last attribute or bare name) is one of names."""
    for c in ast.walk(expr):
        if isinstance(c, ast.Call):
            f = c.func
            nm = f.attr if isinstance(f, ast.Attribute) else getattr(f, "id", None)
            if nm in names:
                return True
    return False


def is_call_to(expr, *names) -> bool:
    if isinstance(expr, ast.Call):
        f = expr.func
        nm = f.attr if isinstance(f, ast.Attribute) else getattr(f, "id", None)
        return nm in names
    return False


def param(fn, index_or_name, default=None):
    """Positional parameter name by index (0 = first after self/cls for methods)."""
    ps = fn.params
    if fn.kind in ("method", "classmethod", "getter", "setter", "deleter") and ps:
        ps = ps[1:]
    if isinstance(index_or_name, int):
        return ps[index_or_name] if index_or_name < len(ps) else default
    return index_or_name if index_or_name in ps else default


def subst(text: str, mapping: dict) -> str:
    """Rewrite an expression text, replacing whole-word names by canonical role names (used to compare an expression with a pattern)."""
    tree = ast.parse(text, mode="eval")

    class R(ast.NodeTransformer):
        def visit_Name(self, node):
            return ast.copy_location(ast.Name(id=mapping.get(node.id, node.id), ctx=node.ctx), node)

    return ast.unparse(R().visit(tree))


def canon(node, mapping: dict) -> str:
    """unparse(node) with local names replaced by their role names."""
    import copy

    class R(ast.NodeTransformer):
        def visit_Name(self, n):
            return ast.copy_location(ast.Name(id=mapping.get(n.id, n.id), ctx=n.ctx), n)

    return ast.unparse(R().visit(copy.deepcopy(node)))


FLAT = {"Data", "Objects", "Groups"}
TYPE_CONTAINERS = {"Data types", "Object types", "Group types"}


def writer_roles(fn_node) -> dict:
    """local name -> the role name used in the rules' patterns, for the HDF5 writer / reader methods.
    Decided by what the local is bound from; a local with no recognised role keeps its own name."""
    roles: dict = {}

    def role_of(name):
        return roles.get(name, name)

    def U(e):
        return canon(e, roles)

    binds = []  # (name, value expr | ('with', expr))
    for n in ast.walk(fn_node):
        if isinstance(n, ast.With):
            for it in n.items:
                if isinstance(it.optional_vars, ast.Name):
                    binds.append((it.optional_vars.id, it.context_expr, getattr(n, "lineno", 0)))
        elif isinstance(n, (ast.Assign, ast.AnnAssign)) and n.value is not None:
            tgs = n.targets if isinstance(n, ast.Assign) else [n.target]
            for t in tgs:
                if isinstance(t, ast.Name):
                    binds.append((t.id, n.value, n.lineno))
    binds.sort(key=lambda b: b[2])
    by_name: dict = {}
    for nm, v, _ in binds:
        by_name.setdefault(nm, []).append(v)
    for _pass in range(3):
        for nm, vals in by_name.items():
            if nm in roles:
                continue
            v0 = vals[0]
            txt = U(v0)
            consts = [v.value for v in vals if isinstance(v, ast.Constant) and isinstance(v.value, str)]
            if is_call_to(v0, "fetch_h5_handle"):
                roles[nm] = "h5file"
            elif isinstance(v0, ast.Subscript) and isinstance(v0.value, ast.Call) and getattr(v0.value.func, "id", None) == "list" and unparse(v0.slice) == "0":
                roles[nm] = "base"
            elif isinstance(v0, ast.Call) and getattr(v0.func, "id", None) == "list" and len(v0.args) == 1 and U(v0.args[0]) in ("h5file", "h5file.keys()"):
                roles[nm] = "base"  # the list of top-level names; [0] is the project group
            elif txt == "h5file[base]":
                roles[nm] = "base_handle"
            elif isinstance(v0, ast.Attribute) and v0.attr == "uid" and isinstance(v0.value, ast.Name):
                roles[nm] = "uid"
            elif is_call_to(v0, "as_str_if_uuid"):
                roles[nm] = "uid_str"
            elif consts and len(consts) == len(vals) and set(consts) <= FLAT:
                roles[nm] = "entity_type"
            elif consts and len(consts) == len(vals) and set(consts) <= TYPE_CONTAINERS:
                roles[nm] = "entity_type_str"
            elif is_call_to(v0, "write_entity_type") or ("['Types']" in txt and is_call_to(v0, "create_group")):
                roles[nm] = "new_type"
            elif is_call_to(v0, "write_entity", "fetch_handle") and len(v0.args) > 1:
                a1 = unparse(v0.args[1])
                roles[nm] = "parent_handle" if "parent" in a1 else ("entity_type_handle" if "type" in a1 else "entity_handle")
            elif is_call_to(v0, "create_group") and "as_str_if_uuid" in txt and "h5file[base]" in txt:
                roles[nm] = "entity_handle"
    return roles


def const_values(expr, fn_node, _seen=()):
    """The set of constants an expression can evaluate to, or None when that cannot be bounded.  Follows local bindings
    (assignments in any branch, for / comprehension targets over literal sequences — positionally for tuple targets),
    conditional expressions, `next(<generator>, default)`, `<dict literal>.get(k, default)` / `[k]`.  `None` values are dropped."""
    if isinstance(expr, ast.Constant):
        return set() if expr.value is None else {expr.value}
    if isinstance(expr, ast.IfExp):
        a, b = const_values(expr.body, fn_node, _seen), const_values(expr.orelse, fn_node, _seen)
        return None if a is None or b is None else a | b
    if isinstance(expr, ast.BoolOp):
        # `x or "default"` / `a and b`: the result is one of the operands
        out = set()
        for v in expr.values:
            cv = const_values(v, fn_node, _seen)
            if cv is None:
                return None
            out |= cv
        return out
    if isinstance(expr, ast.Call):
        f = expr.func
        if isinstance(f, ast.Name) and f.id == "next" and expr.args and isinstance(expr.args[0], ast.GeneratorExp):
            gen = expr.args[0]
            a = _comp_values(gen.elt, gen.generators, fn_node, _seen)
            b = const_values(expr.args[1], fn_node, _seen) if len(expr.args) > 1 else set()
            return None if a is None or b is None else a | b
        if isinstance(f, ast.Attribute) and f.attr == "get" and isinstance(f.value, ast.Dict):
            vals = set()
            for v in f.value.values:
                cv = const_values(v, fn_node, _seen)
                if cv is None:
                    return None
                vals |= cv
            d = const_values(expr.args[1], fn_node, _seen) if len(expr.args) > 1 else set()
            return None if d is None else vals | d
        return None
    if isinstance(expr, ast.Subscript) and isinstance(expr.value, ast.Dict):
        vals = set()
        for v in expr.value.values:
            cv = const_values(v, fn_node, _seen)
            if cv is None:
                return None
            vals |= cv
        return vals
    if isinstance(expr, ast.Name):
        if expr.id in _seen:
            return set()
        seen = _seen + (expr.id,)
        # a loop variable read inside its own loop takes that loop's values only (the same name may serve several loops)
        loops = [n for n in ast.walk(fn_node) if isinstance(n, ast.For) and any(isinstance(x, ast.Name) and x.id == expr.id for x in ast.walk(n.target))
                 and any(x is expr for b in n.body for x in ast.walk(b))]
        if loops:
            inner = min(loops, key=lambda n: sum(1 for _ in ast.walk(n)))
            cv = _target_values(inner.target, inner.iter, expr.id, fn_node, seen)
            rebinds = any(isinstance(a, (ast.Assign, ast.AugAssign)) and any(isinstance(t, ast.Name) and t.id == expr.id for t in (a.targets if isinstance(a, ast.Assign) else [a.target]))
                          for b in inner.body for a in ast.walk(b))
            if cv is not False and not rebinds:
                return cv
        out, found = set(), False
        for n in ast.walk(fn_node):
            if isinstance(n, (ast.Assign, ast.AnnAssign)) and n.value is not None:
                tgs = n.targets if isinstance(n, ast.Assign) else [n.target]
                if any(isinstance(t, ast.Name) and t.id == expr.id for t in tgs):
                    cv = const_values(n.value, fn_node, seen)
                    if cv is None:
                        return None
                    out |= cv
                    found = True
            elif isinstance(n, ast.For):
                cv = _target_values(n.target, n.iter, expr.id, fn_node, seen)
                if cv is not False:
                    if cv is None:
                        return None
                    out |= cv
                    found = True
        a = fn_node.args
        if expr.id in {x.arg for x in a.posonlyargs + a.args + a.kwonlyargs}:
            return None
        return out if found else None
    return None


def _literal_of(node, fn_node):
    """a local bound exactly once to a literal table stands for that table"""
    if isinstance(node, ast.Name) and fn_node is not None:
        vals = [n.value for n in ast.walk(fn_node) if isinstance(n, (ast.Assign, ast.AnnAssign)) and n.value is not None
                and any(isinstance(t, ast.Name) and t.id == node.id for t in (n.targets if isinstance(n, ast.Assign) else [n.target]))]
        if len(vals) == 1 and isinstance(vals[0], (ast.Dict, ast.List, ast.Tuple, ast.Set)):
            return vals[0]
    return node


def _seq_elements(it, fn_node=None):
    """elements of a literal sequence / the items of a literal dict (as tuples), else None"""
    it = _literal_of(it, fn_node)
    if isinstance(it, ast.Call) and isinstance(it.func, ast.Attribute):
        lit = _literal_of(it.func.value, fn_node)
        if lit is not it.func.value:
            it = ast.Call(func=ast.Attribute(value=lit, attr=it.func.attr, ctx=ast.Load()), args=[], keywords=[])
    if isinstance(it, (ast.List, ast.Tuple, ast.Set)):
        return list(it.elts)
    if isinstance(it, ast.Call) and isinstance(it.func, ast.Attribute) and isinstance(it.func.value, ast.Dict):
        d = it.func.value
        if it.func.attr == "items":
            return [ast.Tuple(elts=[k, v], ctx=ast.Load()) for k, v in zip(d.keys, d.values)]
        if it.func.attr == "values":
            return list(d.values)
        if it.func.attr == "keys":
            return list(d.keys)
    if isinstance(it, ast.Dict):
        return list(it.keys)
    return None


def _target_values(target, it, name, fn_node, seen):
    """values the loop variable `name` takes when `target` iterates over `it`; False when `name` is not bound by this target"""
    names = [x.id for x in ast.walk(target) if isinstance(x, ast.Name)]
    if name not in names:
        return False
    elems = _seq_elements(it, fn_node)
    if elems is None:
        return None
    out = set()
    for e in elems:
        v = e
        if isinstance(target, (ast.Tuple, ast.List)):
            pos = [i for i, t in enumerate(target.elts) if isinstance(t, ast.Name) and t.id == name]
            if not pos or not isinstance(e, (ast.Tuple, ast.List)) or pos[0] >= len(e.elts):
                return None
            v = e.elts[pos[0]]
        cv = const_values(v, fn_node, seen)
        if cv is None:
            return None
        out |= cv
    return out


def _comp_values(elt, generators, fn_node, seen):
    if isinstance(elt, ast.Name):
        for g in generators:
            cv = _target_values(g.target, g.iter, elt.id, fn_node, seen)
            if cv is not False:
                return cv
    return const_values(elt, fn_node, seen)
