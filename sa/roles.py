"""Identify local variables by ROLE (what they are bound from / what is done with them), not by spelling,
so that renaming a local does not change a verdict."""

from __future__ import annotations

import ast

from .model import unparse


def returned_names(fn_node) -> set:
    """Names that occur as (part of) a returned expression."""
    out = set()
    for r in ast.walk(fn_node):
        if isinstance(r, ast.Return) and r.value is not None:
            for x in ast.walk(r.value):
                if isinstance(x, ast.Name):
                    out.add(x.id)
    return out


def bound_from(fn_node, pred) -> dict:
    """name -> [value expr] for simple bindings `name = <expr>` / `name: T = <expr>` / `with <expr> as name` / for-targets, where pred(expr)."""
    out = {}
    for n in ast.walk(fn_node):
        if isinstance(n, (ast.Assign, ast.AnnAssign)) and n.value is not None:
            tgs = n.targets if isinstance(n, ast.Assign) else [n.target]
            for t in tgs:
                if isinstance(t, ast.Name) and pred(n.value):
                    out.setdefault(t.id, []).append(n.value)
        elif isinstance(n, ast.With):
            for it in n.items:
                if isinstance(it.optional_vars, ast.Name) and pred(it.context_expr):
                    out.setdefault(it.optional_vars.id, []).append(it.context_expr)
        elif isinstance(n, ast.NamedExpr) and isinstance(n.target, ast.Name) and pred(n.value):
            out.setdefault(n.target.id, []).append(n.value)
    return out


def calls(expr, *names) -> bool:
    """expr contains a call whose function (last attribute or bare name) is one of names."""
    for c in ast.walk(expr):
        if isinstance(c, ast.Call):
            f = c.func
            nm = f.attr if isinstance(f, ast.Attribute) else getattr(f, "id", None)
            if nm in names:
                return True
    return False


def is_call_to(expr, *names) -> bool:
    if isinstance(expr, ast.Call):
        f = expr.func
        nm = f.attr if isinstance(f, ast.Attribute) else getattr(f, "id", None)
        return nm in names
    return False


def param(fn, index_or_name, default=None):
    """Positional parameter name by index (0 = first after self/cls for methods)."""
    ps = fn.params
    if fn.kind in ("method", "classmethod", "getter", "setter", "deleter") and ps:
        ps = ps[1:]
    if isinstance(index_or_name, int):
        return ps[index_or_name] if index_or_name < len(ps) else default
    return index_or_name if index_or_name in ps else default


def subst(text: str, mapping: dict) -> str:
    """Rewrite an expression text, replacing whole-word names by canonical role names (used to compare an expression with a pattern)."""
    tree = ast.parse(text, mode="eval")

    class R(ast.NodeTransformer):
        def visit_Name(self, node):
            return ast.copy_location(ast.Name(id=mapping.get(node.id, node.id), ctx=node.ctx), node)

    return ast.unparse(R().visit(tree))


def canon(node, mapping: dict) -> str:
    """unparse(node) with local names replaced by their role names."""
    import copy

    class R(ast.NodeTransformer):
        def visit_Name(self, n):
            return ast.copy_location(ast.Name(id=mapping.get(n.id, n.id), ctx=n.ctx), n)

    return ast.unparse(R().visit(copy.deepcopy(node)))


FLAT = {"Data", "Objects", "Groups"}
TYPE_CONTAINERS = {"Data types", "Object types", "Group types"}


def writer_roles(fn_node) -> dict:
    """local name -> the role name used in the rules' patterns, for the HDF5 writer / reader methods.
    Decided by what the local is bound from; a local with no recognised role keeps its own name."""
    roles: dict = {}

    def role_of(name):
        return roles.get(name, name)

    def U(e):
        return canon(e, roles)

    binds = []  # (name, value expr | ('with', expr))
    for n in ast.walk(fn_node):
        if isinstance(n, ast.With):
            for it in n.items:
                if isinstance(it.optional_vars, ast.Name):
                    binds.append((it.optional_vars.id, it.context_expr, getattr(n, "lineno", 0)))
        elif isinstance(n, (ast.Assign, ast.AnnAssign)) and n.value is not None:
            tgs = n.targets if isinstance(n, ast.Assign) else [n.target]
            for t in tgs:
                if isinstance(t, ast.Name):
                    binds.append((t.id, n.value, n.lineno))
    binds.sort(key=lambda b: b[2])
    by_name: dict = {}
    for nm, v, _ in binds:
        by_name.setdefault(nm, []).append(v)
    for _pass in range(3):
        for nm, vals in by_name.items():
            if nm in roles:
                continue
            v0 = vals[0]
            txt = U(v0)
            consts = [v.value for v in vals if isinstance(v, ast.Constant) and isinstance(v.value, str)]
            if is_call_to(v0, "fetch_h5_handle"):
                roles[nm] = "h5file"
            elif isinstance(v0, ast.Subscript) and isinstance(v0.value, ast.Call) and getattr(v0.value.func, "id", None) == "list" and unparse(v0.slice) == "0":
                roles[nm] = "base"
            elif isinstance(v0, ast.Call) and getattr(v0.func, "id", None) == "list" and len(v0.args) == 1 and U(v0.args[0]) in ("h5file", "h5file.keys()"):
                roles[nm] = "base"  # the list of top-level names; [0] is the project group
            elif txt == "h5file[base]":
                roles[nm] = "base_handle"
            elif isinstance(v0, ast.Attribute) and v0.attr == "uid" and isinstance(v0.value, ast.Name):
                roles[nm] = "uid"
            elif is_call_to(v0, "as_str_if_uuid"):
                roles[nm] = "uid_str"
            elif consts and len(consts) == len(vals) and set(consts) <= FLAT:
                roles[nm] = "entity_type"
            elif consts and len(consts) == len(vals) and set(consts) <= TYPE_CONTAINERS:
                roles[nm] = "entity_type_str"
            elif is_call_to(v0, "write_entity_type") or ("['Types']" in txt and is_call_to(v0, "create_group")):
                roles[nm] = "new_type"
            elif is_call_to(v0, "write_entity", "fetch_handle") and len(v0.args) > 1:
                a1 = unparse(v0.args[1])
                roles[nm] = "parent_handle" if "parent" in a1 else ("entity_type_handle" if "type" in a1 else "entity_handle")
            elif is_call_to(v0, "create_group") and "as_str_if_uuid" in txt and "h5file[base]" in txt:
                roles[nm] = "entity_handle"
    return roles
