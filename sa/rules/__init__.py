"""Rule registry.  Each module cNN.py defines RULES = [callable(ctx) -> RuleResult]."""

from __future__ import annotations

import importlib

PROPS = [f"C{n:02d}" for n in range(1, 21)]


def rules_for(prop: str):
    mod = importlib.import_module(f"sa.rules.{prop.lower()}")
    return mod.RULES
