"""Path conditions of a function body, compared by meaning (used by the C01 rules).

A test is turned into a small boolean formula over canonical atoms:

* locals are replaced by their role (given by the rule: what the local is bound from) or, for single-assignment
  temporaries, by their defining expression, so renamed locals / aliases / values read once into a local compare equal;
* `x is not None`, `not x`, `a != b`, `a not in b`, `len(x) > 0` are literals of the atoms `x is None`, `bool(x)`, `a == b`,
  `a in b`, `bool(x)` with a polarity; `isinstance(x, (A, B))` is `isinstance(x, A) or isinstance(x, B)`; negations are
  pushed to the atoms (De Morgan), conjunctions / disjunctions are flattened sets;
* atoms that the rule's assumptions decide are evaluated: the kind of a subject (`isinstance` against the class
  hierarchy), constants (`==`, `in` against literal tables, also through a small helper evaluated on a literal table).

On the CFG the rule then asks for facts instead of the text of one `if`:

* `necessary(starts, targets)`  — the conjuncts every path from `starts` to a target implies (guard clauses, nested ifs,
  merged / split conditions, De Morgan and named booleans all give the same set);
* `must(starts, targets, assume)` — under the assumed conjuncts no normal path leaves without passing a target.
"""

from __future__ import annotations

import ast
import copy
from collections import deque

from ..cfg import CFG
from ..model import unparse
from ..normalize import Normalizer, single_assignments


# ---------------------------------------------------------------------------------------------- formulas
def lit(text, pol=True):
    return ("lit", text, pol)


def neg(f):
    if f is True:
        return False
    if f is False:
        return True
    if f[0] == "lit":
        return ("lit", f[1], not f[2])
    if f[0] == "and":
        return mk_or([neg(x) for x in f[1]])
    return mk_and([neg(x) for x in f[1]])


def _mk(kind, items, unit, zero):
    out = set()
    for x in items:
        if x is unit:
            continue
        if x is zero:
            return zero
        if x[0] == kind:
            out |= x[1]
        else:
            out.add(x)
    for x in out:
        if x[0] == "lit" and ("lit", x[1], not x[2]) in out:
            return zero
    if not out:
        return unit
    if len(out) == 1:
        return next(iter(out))
    return (kind, frozenset(out))


def mk_and(items):
    return _mk("and", items, True, False)


def mk_or(items):
    return _mk("or", items, False, True)


def conjuncts(f) -> frozenset:
    if f is True:
        return frozenset()
    if f is False:
        return frozenset([False])
    if f[0] == "and":
        return f[1]
    return frozenset([f])


def show(f) -> str:
    if f is True or f is False:
        return str(f)
    if f[0] == "lit":
        return f[1] if f[2] else f"not ({f[1]})"
    sep = " and " if f[0] == "and" else " or "
    return "(" + sep.join(sorted(show(x) for x in f[1])) + ")"


def show_set(fs) -> list:
    return sorted(show(f) for f in fs)


def simplify(f, assume):
    """f under the assumption that every formula of `assume` holds."""
    if f is True or f is False or not assume:
        return f
    if f in assume:
        return True
    if neg(f) in assume:
        return False
    if f[0] == "and":
        return mk_and([simplify(x, assume) for x in f[1]])
    if f[0] == "or":
        return mk_or([simplify(x, assume) for x in f[1]])
    # a literal that is one member of an assumed-false disjunction / one conjunct of ...: handled by the flattening in conjuncts()
    return f


def attr_name(call):
    f = call.func
    return f.attr if isinstance(f, ast.Attribute) else getattr(f, "id", None)


def kw(call, name, pos=None):
    """The expression passed for keyword `name` (or at positional index `pos`), else None."""
    for k in call.keywords:
        if k.arg == name:
            return k.value
    if pos is not None and len(call.args) > pos and not any(isinstance(a, ast.Starred) for a in call.args[: pos + 1]):
        return call.args[pos]
    return None


def default_of(fn_node, name):
    """Default value expression of a parameter of a function, else None."""
    a = fn_node.args
    pos = a.posonlyargs + a.args
    for prm, d in zip(pos[len(pos) - len(a.defaults):], a.defaults):
        if prm.arg == name:
            return d
    for prm, d in zip(a.kwonlyargs, a.kw_defaults):
        if prm.arg == name and d is not None:
            return d
    return None


def kind_of(p, K):
    """class name -> True / False / None: is an instance of (some subclass of) K an instance of that class."""

    def f(name):
        cands = p.by_name.get(name, [])
        if not cands:
            return None
        if any(c in K.mro for c in cands):
            return True
        for c in cands:
            if any(c in x.mro and K in x.mro for x in p.classes):
                return None
        return False

    return f


def _with_pairs(fn_node, defs):
    """single-assignment locals bound element-wise by `a, b = x, y` are temporaries too."""
    stores: dict = {}
    for n in ast.walk(fn_node):
        if isinstance(n, ast.Name) and isinstance(n.ctx, (ast.Store, ast.Del)):
            stores[n.id] = stores.get(n.id, 0) + 1
    params = {a.arg for a in fn_node.args.posonlyargs + fn_node.args.args + fn_node.args.kwonlyargs}
    out = dict(defs)
    for n in ast.walk(fn_node):
        if isinstance(n, ast.Assign) and len(n.targets) == 1 and isinstance(n.targets[0], ast.Tuple) and isinstance(n.value, ast.Tuple) and len(n.value.elts) == len(n.targets[0].elts):
            for t, v in zip(n.targets[0].elts, n.value.elts):
                if isinstance(t, ast.Name) and stores.get(t.id) == 1 and t.id not in params and t.id not in out:
                    out[t.id] = v
    # the result variable of an expanded helper with one unconditional return: `_ret = None` ... `_ret = <value>` in the same block
    for holder in ast.walk(fn_node):
        for fld in ("body", "orelse", "finalbody"):
            blk = getattr(holder, fld, None)
            if not (isinstance(blk, list) and blk and isinstance(blk[0], ast.stmt)):
                continue
            init = {}
            for st in blk:
                if isinstance(st, ast.Assign) and len(st.targets) == 1 and isinstance(st.targets[0], ast.Name):
                    nm = st.targets[0].id
                    if nm.startswith("_ret__i") and stores.get(nm) == 2 and nm not in out:
                        if nm not in init and isinstance(st.value, ast.Constant) and st.value.value is None:
                            init[nm] = st
                        elif nm in init:
                            out[nm] = st.value
    # a local that remembers a field the function re-binds (`previous = self._parent` ... `self._parent = new`) is not a name for the
    # field: it holds the old value
    rebound = {x.attr for x in ast.walk(fn_node) if isinstance(x, ast.Attribute) and isinstance(x.ctx, (ast.Store, ast.Del)) and isinstance(x.value, ast.Name) and x.value.id == "self"}
    if rebound:
        def names_field(v):  # `self.f`, `self.f.g`, `self.f[i]`: a path rooted at a re-bound field (a computed value is a snapshot, fine)
            while isinstance(v, (ast.Attribute, ast.Subscript)):
                if isinstance(v, ast.Attribute) and v.attr in rebound and isinstance(v.value, ast.Name) and v.value.id == "self":
                    return True
                v = v.value
            return False

        out = {k: v for k, v in out.items() if not names_field(v)}
    return out


# ---------------------------------------------------------------------------------------------- canonical expressions
class Sym:
    """Canonical expressions and formulas of one function body."""

    def __init__(self, fn_node=None, roles=None, kinds=None, consts=None, defs=None, call_eval=None, records=None, nonnull=None):
        self.node = fn_node
        self.records = records or {}  # canonical text of a record value -> its field names in order (x.field is x[i])
        self.nonnull = nonnull or set()  # canonical texts known never to be None
        self.roles = {}
        for k, v in (roles or {}).items():
            self.roles[k] = ast.parse(v, mode="eval").body if isinstance(v, str) else v
        self.defs = defs if defs is not None else (_with_pairs(fn_node, single_assignments(fn_node)) if fn_node is not None else {})
        self.kinds = kinds or {}  # canonical subject text -> f(class name) -> True / False / None
        self.consts = consts or {}  # canonical text -> python value
        self.call_eval = call_eval  # f(call ast, sym) -> the canonical expression (ast.Constant for constants) the call returns | None

    def X(self, expr, _depth=0):
        """expr with locals replaced by their role / (single-assignment temporaries) their defining expression."""
        sym = self

        class E(ast.NodeTransformer):
            shadow: tuple = ()  # names bound by an enclosing comprehension: its own variables, not the function's locals

            def _comp(self, n):
                saved = self.shadow
                self.shadow = saved + tuple(x.id for g in n.generators for x in ast.walk(g.target) if isinstance(x, ast.Name))
                self.generic_visit(n)
                self.shadow = saved
                return n

            visit_ListComp = visit_SetComp = visit_GeneratorExp = visit_DictComp = _comp

            def visit_Name(self, n):
                if n.id in self.shadow:
                    return n
                if n.id in sym.roles:
                    return copy.deepcopy(sym.roles[n.id])
                if isinstance(n.ctx, ast.Load) and n.id in sym.defs and _depth < 8:
                    return sym.X(sym.defs[n.id], _depth + 1)
                return n

            def visit_Lambda(self, n):
                return n

            def visit_JoinedStr(self, n):
                # f"{axis}_cells" with a constant axis is a constant
                self.generic_visit(n)
                parts = []
                for v in n.values:
                    if isinstance(v, ast.Constant) and isinstance(v.value, str):
                        parts.append(v.value)
                    elif isinstance(v, ast.FormattedValue) and isinstance(v.value, ast.Constant) and isinstance(v.value.value, (str, int)) and v.conversion == -1 and v.format_spec is None:
                        parts.append(str(v.value.value))
                    else:
                        return n
                return ast.copy_location(ast.Constant(value="".join(parts)), n)

            def visit_BinOp(self, n):
                self.generic_visit(n)
                if isinstance(n.op, ast.Add) and isinstance(n.left, ast.Constant) and isinstance(n.right, ast.Constant) and isinstance(n.left.value, str) and isinstance(n.right.value, str):
                    return ast.copy_location(ast.Constant(value=n.left.value + n.right.value), n)
                return n

            def visit_Attribute(self, n):
                self.generic_visit(n)
                # a field of a record (NamedTuple / dataclass) read by name is the element at its position
                if sym.records and isinstance(n.ctx, ast.Load):
                    fields = sym.records.get(unparse(n.value))
                    if fields and n.attr in fields:
                        return ast.copy_location(ast.Subscript(value=n.value, slice=ast.Constant(value=fields.index(n.attr)), ctx=ast.Load()), n)
                return n

            def visit_Call(self, n):
                self.generic_visit(n)
                # getattr(x, "name", None) reads x.name (None when it was never set)
                if isinstance(n.func, ast.Name) and n.func.id == "getattr" and len(n.args) in (2, 3) and not n.keywords and isinstance(n.args[1], ast.Constant) \
                        and isinstance(n.args[1].value, str) and n.args[1].value.isidentifier() and (len(n.args) == 2 or isinstance(n.args[2], ast.Constant) and n.args[2].value is None):
                    return ast.copy_location(ast.Attribute(value=n.args[0], attr=n.args[1].value, ctx=ast.Load()), n)
                return n

        return E().visit(copy.deepcopy(expr))

    def text(self, expr) -> str:
        return unparse(self.X(expr))

    # ------------------------------------------------------------------ constants
    def const_of(self, e):
        """(True, value) when the canonical expression e is a known constant."""
        if isinstance(e, ast.Constant):
            return (True, e.value)
        t = unparse(e)
        if t in self.consts:
            return (True, self.consts[t])
        if isinstance(e, ast.Call) and self.call_eval is not None:
            r = self.call_eval(e, self)
            if isinstance(r, ast.Constant):
                return (True, r.value)
        return None

    def resolved(self, e):
        """A call of a lookup helper replaced by the (canonical) expression it returns under the assumptions, when that can be decided."""
        if isinstance(e, ast.Call) and self.call_eval is not None:
            r = self.call_eval(e, self)
            if r is not None:
                return r
        return e

    @staticmethod
    def _literal_members(e):
        if isinstance(e, (ast.List, ast.Tuple, ast.Set)) and all(isinstance(x, ast.Constant) for x in e.elts):
            return [x.value for x in e.elts]
        if isinstance(e, ast.Dict) and all(isinstance(x, ast.Constant) for x in e.keys):
            return [x.value for x in e.keys]
        return None

    # ------------------------------------------------------------------ formulas
    def formula(self, test):
        return self._f(self.X(test))

    def conj(self, text: str) -> frozenset:
        """The conjuncts of a condition written as Python text over role names."""
        return conjuncts(self._f(ast.parse(text, mode="eval").body))

    def _truth(self, e):
        c = self.const_of(e)
        if c is not None:
            return bool(c[1])
        return lit(f"bool({unparse(e)})")

    def _f(self, e):
        if isinstance(e, ast.UnaryOp) and isinstance(e.op, ast.Not):
            return neg(self._f(e.operand))
        if isinstance(e, ast.BoolOp):
            vals = [self._f(v) for v in e.values]
            return mk_and(vals) if isinstance(e.op, ast.And) else mk_or(vals)
        if isinstance(e, ast.NamedExpr):
            return self._f(e.value)
        if isinstance(e, ast.Compare) and len(e.ops) == 1:
            op, a, b = e.ops[0], self.resolved(e.left), self.resolved(e.comparators[0])
            if isinstance(op, (ast.Is, ast.IsNot)) and isinstance(b, ast.Constant) and b.value is None:
                c = self.const_of(a)
                f = (c[1] is None) if c is not None else False if unparse(a) in self.nonnull else lit(f"{unparse(a)} is None")
                return f if isinstance(op, ast.Is) else neg(f)
            if isinstance(op, (ast.Is, ast.IsNot, ast.Eq, ast.NotEq)) and isinstance(a, (ast.Name, ast.Attribute)) and unparse(a) == unparse(b):
                return isinstance(op, (ast.Is, ast.Eq))  # the same variable / field compared with itself
            if isinstance(op, (ast.Is, ast.IsNot)):
                ta, tb = sorted([unparse(a), unparse(b)])
                f = lit(f"{ta} is {tb}")
                return f if isinstance(op, ast.Is) else neg(f)
            if isinstance(op, (ast.Eq, ast.NotEq)):
                ca, cb = self.const_of(a), self.const_of(b)
                if ca is not None and cb is not None:
                    f = ca[1] == cb[1]
                else:
                    ln = self._len_cmp(e)
                    if ln is not None:
                        return ln
                    ta, tb = sorted([unparse(a), unparse(b)])
                    f = lit(f"{ta} == {tb}")
                return f if isinstance(op, ast.Eq) else neg(f)
            if isinstance(op, (ast.In, ast.NotIn)):
                ca, mem = self.const_of(a), self._literal_members(b)
                if ca is not None and mem is not None:
                    f = ca[1] in mem
                elif mem is not None and isinstance(op, (ast.In, ast.NotIn)) and all(isinstance(m, (str, int, float, bool, type(None))) for m in mem):
                    # membership in a literal table: the set of members, not their order or the kind of sequence
                    f = lit(f"{unparse(a)} in {{{', '.join(sorted(repr(m) for m in mem))}}}")
                else:
                    f = lit(f"{unparse(a)} in {unparse(b)}")
                return f if isinstance(op, ast.In) else neg(f)
            ln = self._len_cmp(e)
            if ln is not None:
                return ln
            return lit(unparse(e))
        if isinstance(e, ast.Call) and isinstance(e.func, ast.Name):
            if e.func.id == "isinstance" and len(e.args) == 2 and not e.keywords:
                subj = unparse(e.args[0])
                names = e.args[1].elts if isinstance(e.args[1], ast.Tuple) else [e.args[1]]
                out = []
                for n in names:
                    short = n.attr if isinstance(n, ast.Attribute) else getattr(n, "id", None)
                    v = self.kinds[subj](short) if subj in self.kinds and short else None
                    out.append(v if v is not None else lit(f"isinstance({subj}, {unparse(n)})"))
                return mk_or(out)
            if e.func.id == "bool" and len(e.args) == 1 and not e.keywords:
                return self._f(e.args[0])
        if isinstance(e, ast.Constant):
            return bool(e.value)
        return self._truth(e)

    def _len_cmp(self, e):
        """len(x) > 0, len(x) >= 1, len(x) != 0, 0 < len(x) ... -> truthiness of x (sized containers)."""
        op, a, b = e.ops[0], e.left, e.comparators[0]
        flip = {ast.Gt: ast.Lt, ast.Lt: ast.Gt, ast.GtE: ast.LtE, ast.LtE: ast.GtE, ast.Eq: ast.Eq, ast.NotEq: ast.NotEq}
        if type(op) not in flip:
            return None
        if isinstance(a, ast.Constant) and not isinstance(b, ast.Constant):
            a, b, opt = b, a, flip[type(op)]
        else:
            opt = type(op)
        if not (isinstance(a, ast.Call) and isinstance(a.func, ast.Name) and a.func.id == "len" and len(a.args) == 1 and isinstance(b, ast.Constant) and isinstance(b.value, int)):
            return None
        t = lit(f"bool({unparse(a.args[0])})")
        n = b.value
        if (opt is ast.Gt and n == 0) or (opt is ast.GtE and n == 1) or (opt is ast.NotEq and n == 0):
            return t
        if (opt is ast.Eq and n == 0) or (opt is ast.LtE and n == 0) or (opt is ast.Lt and n == 1):
            return neg(t)
        return None


# ---------------------------------------------------------------------------------------------- helper evaluation
def make_call_eval(ctx, fn):
    """Evaluate `self._helper(args)` / `_helper(args)` to a constant when the helper is a lookup in a literal table decided by
    the rule's assumptions (a `for kind, name in table: if isinstance(x, kind): return name` loop, an elif chain of
    constant returns).  Anything else: unknown."""

    def call_eval(call, sym, _depth=0):
        if _depth > 2:
            return None
        try:
            callee = norm(ctx)._callee(fn, call)
        except Exception:  # pragma: no cover
            callee = None
        if callee is None:
            return None
        v = view(ctx, callee)
        a = v.node.args
        params = [x.arg for x in a.posonlyargs + a.args]
        args = list(call.args)
        if callee.kind in ("method", "classmethod") and isinstance(call.func, ast.Attribute):
            recv = call.func.value
            if not (callee.kind == "method" and isinstance(recv, ast.Name) and recv.id not in ("self", "cls")):
                args = [recv] + args
        env = dict(zip(params, args))
        for k in call.keywords:
            if k.arg is None:
                return None
            env[k.arg] = k.value
        for prm in params:
            if prm not in env:
                d = default_of(v.node, prm)
                if d is None:
                    return None
                env[prm] = d
        sub = Sym(None, roles=env, kinds=sym.kinds, consts=sym.consts, defs={}, call_eval=lambda c, s: call_eval(c, s, _depth + 1), records=sym.records, nonnull=sym.nonnull)
        local_names = {x.id for x in ast.walk(v.node) if isinstance(x, ast.Name) and isinstance(x.ctx, ast.Store)}  # every one the evaluation binds is substituted

        def run(stmts):
            for s in stmts:
                if isinstance(s, ast.Expr) and isinstance(s.value, ast.Constant):
                    continue
                if isinstance(s, ast.Return):
                    val = sub.X(s.value) if s.value is not None else ast.Constant(value=None)
                    c = sub.const_of(val)
                    if c is not None:
                        return ("ret", ast.Constant(value=c[1]))
                    # a value that means the same in the caller: a field of the receiver / a global, never a local of the helper
                    if isinstance(val, (ast.Name, ast.Attribute)) and not ({x.id for x in ast.walk(val) if isinstance(x, ast.Name)} & (local_names - set(sub.roles))):
                        return ("ret", val)
                    return None
                if isinstance(s, ast.If):
                    f = sub.formula(s.test)
                    if f is True:
                        r = run(s.body)
                    elif f is False:
                        r = run(s.orelse)
                    else:
                        return None
                    if r != "fall":
                        return r
                    continue
                if isinstance(s, ast.Assign) and len(s.targets) == 1 and isinstance(s.targets[0], ast.Name):
                    sub.roles[s.targets[0].id] = sub.X(s.value)
                    continue
                if isinstance(s, ast.For) and not s.orelse:
                    it = sub.X(s.iter)
                    if not isinstance(it, (ast.Tuple, ast.List)):
                        return None
                    for el in it.elts:
                        if isinstance(s.target, ast.Name):
                            sub.roles[s.target.id] = el
                        elif isinstance(s.target, ast.Tuple) and isinstance(el, (ast.Tuple, ast.List)) and len(el.elts) == len(s.target.elts) \
                                and all(isinstance(t, ast.Name) for t in s.target.elts):
                            for t, x in zip(s.target.elts, el.elts):
                                sub.roles[t.id] = x
                        else:
                            return None
                        r = run(s.body)
                        if r != "fall":
                            return r
                    continue
                if isinstance(s, ast.Pass):
                    continue
                return None
            return "fall"

        r = run(v.node.body)
        if r == "fall":
            return ast.Constant(value=None)
        if isinstance(r, tuple):
            return r[1]
        return None

    return call_eval


# ---------------------------------------------------------------------------------------------- paths
class Paths(Sym):
    def __init__(self, fn_node, roles=None, kinds=None, consts=None, call_eval=None, records=None, nonnull=None):
        super().__init__(fn_node, roles, kinds, consts, None, call_eval, records, nonnull)
        self.g = CFG(fn_node)
        self._edge: dict = {}

    # nodes --------------------------------------------------------------------
    @staticmethod
    def exprs(n):
        """The expressions a CFG node evaluates itself (not the bodies nested under it)."""
        if n.ast is None or isinstance(n.ast, list):
            return []
        if n.kind == "with":
            return [it.context_expr for it in n.ast.items]
        if n.kind == "except":
            return [n.ast.type] if n.ast.type is not None else []
        return [n.ast]

    def call_nodes(self, pred, within=None):
        ids = {id(x) for x in ast.walk(within)} if within is not None else None
        out = []
        for n in self.g.nodes:
            if ids is not None and id(n.stmt) not in ids:
                continue
            if any(isinstance(c, ast.Call) and pred(c) for e in self.exprs(n) for c in ast.walk(e)):
                out.append(n)
        return out

    def stmt_nodes(self, pred, within=None):
        ids = {id(x) for x in ast.walk(within)} if within is not None else None
        return [n for n in self.g.nodes if n.kind == "stmt" and (ids is None or id(n.stmt) in ids) and pred(n.ast)]

    def after(self, nodes):
        return [m for n in nodes for m, l in n.succ if l not in ("exc", "raise")]

    def loop_nodes(self, loop):
        """(foriter node, fornext node, first nodes of the body) of a `for` statement."""
        h = next(n for n in self.g.nodes if n.kind == "foriter" and n.stmt is loop)
        t = next(n for n in self.g.nodes if n.kind == "fornext" and n.stmt is loop)
        return h, t, [m for m, l in t.succ if l == "loop"]

    # loops ----------------------------------------------------------------------
    def loop_source(self, loop):
        """(iterable, filter formula): `for x in [c for c in S if P(c)]` iterates S under P(x)."""
        it = self.X(loop.iter)
        if isinstance(it, (ast.ListComp, ast.GeneratorExp, ast.SetComp)) and len(it.generators) == 1 and isinstance(loop.target, ast.Name):
            g = it.generators[0]
            if isinstance(g.target, ast.Name) and isinstance(it.elt, ast.Name) and it.elt.id == g.target.id and not g.is_async:
                ren = Sym(None, roles={g.target.id: ast.Name(id=loop.target.id, ctx=ast.Load())}, defs={})
                return g.iter, mk_and([self.formula(ren.X(c)) for c in g.ifs])
        return it, True

    def iter_text(self, loop) -> str:
        return unparse(self.loop_source(loop)[0])

    # edges ----------------------------------------------------------------------
    def edge(self, n, label):
        key = (n.id, label)
        if key not in self._edge:
            f = True
            if n.kind in ("test", "assert") and label in ("true", "false"):
                f = self.formula(n.ast)
                if label == "false":
                    f = neg(f)
            elif n.kind == "fornext" and label == "loop":
                f = self.loop_source(n.stmt)[1]
            self._edge[key] = f
        return self._edge[key]

    def _reach(self, starts, stop, assume=None, cut=None):
        seen = set()
        dq = deque(starts)
        while dq:
            n = dq.popleft()
            if n in seen:
                continue
            seen.add(n)
            if n in stop:
                continue
            for m, lab in n.succ:
                if cut is not None and cut == (n.id, lab):
                    continue
                if m in seen:
                    continue
                if simplify(self.edge(n, lab), assume) is False:
                    continue
                dq.append(m)
        return seen

    def reaches(self, starts, targets, assume=None, stop=()) -> bool:
        """Some path from `starts` gets to a target (without passing a node of `stop`)."""
        ts = set(targets)
        return bool(ts & self._reach(starts, ts | set(stop), assume))

    def runs_through(self, loop, assume=None) -> bool:
        """No normal path of the loop body leaves the loop (break / return) before the items are exhausted: every path from the
        start of the body comes back to the loop head or raises."""
        head, nxt, body = self.loop_nodes(loop)
        inside = {id(x) for x in ast.walk(loop)}
        seen, dq = set(), deque(body)
        while dq:
            n = dq.popleft()
            if n in seen or n is nxt:
                continue
            seen.add(n)
            if n is self.g.exit or (n.stmt is not None and id(n.stmt) not in inside and n is not self.g.rexit):
                return False
            for m, lab in n.succ:
                if lab in ("exc", "raise") or simplify(self.edge(n, lab), assume) is False:
                    continue
                dq.append(m)
        return True

    def necessary(self, starts, targets, assume=None) -> frozenset:
        """Conjuncts implied by every path from `starts` to one of `targets` (edges that cannot be avoided)."""
        ts = set(targets)
        base = self._reach(starts, ts, assume)
        if not (ts & base):
            return frozenset([False])
        out = set()
        for n in base:
            if n in ts:
                continue
            for m, lab in n.succ:
                f = simplify(self.edge(n, lab), assume)
                if f is True or f is False:
                    continue
                if not (ts & self._reach(starts, ts, assume, cut=(n.id, lab))):
                    out |= conjuncts(f)
        return frozenset(out)

    def must(self, starts, targets, assume=None, fail=None) -> bool:
        """Under `assume`, no path from `starts` reaches the normal exit (or a node of `fail`) without passing a target."""
        ts = set(targets)
        bad = {self.g.exit} | set(fail or ())
        seen = self._reach(starts, ts | bad, assume)
        return not (bad & seen)


# ---------------------------------------------------------------------------------------------- value sources
def sources(expr, fn_node) -> set:
    """Texts of the attribute / name / constant leaves a value may come from, following every assignment to the locals it
    mentions (flow-insensitive)."""
    assigns: dict = {}
    for n in ast.walk(fn_node):
        if isinstance(n, (ast.Assign, ast.AnnAssign)) and n.value is not None:
            for t in (n.targets if isinstance(n, ast.Assign) else [n.target]):
                if isinstance(t, ast.Name):
                    assigns.setdefault(t.id, []).append(n.value)
    out, seen, work = set(), set(), [expr]
    while work:
        e = work.pop()
        for x in ast.walk(e):
            if isinstance(x, ast.Attribute):
                out.add(unparse(x))
            elif isinstance(x, ast.Constant):
                out.add(repr(x.value))
            elif isinstance(x, ast.Name):
                out.add(x.id)
                if x.id in assigns and x.id not in seen:
                    seen.add(x.id)
                    work += assigns[x.id]
            elif isinstance(x, ast.Call):
                nm = attr_name(x)
                if nm:
                    out.add(f"call:{nm}")
    return out


def never_none_fields(cls) -> set:
    """`self.<field>` texts of a class whose every store (in the class and its project bases) assigns a container display /
    constructor: such a field is never None."""
    vals: dict = {}
    for c in cls.mro:
        if isinstance(c, str):
            continue
        fns = list(c.methods.values()) + [f for pr in c.props.values() for f in (pr.getter, pr.setter, pr.deleter) if f is not None]
        for fn in fns:
            for n in ast.walk(fn.node):
                tgs = n.targets if isinstance(n, ast.Assign) else [n.target] if isinstance(n, (ast.AnnAssign, ast.AugAssign)) else n.targets if isinstance(n, ast.Delete) else []
                for t in tgs:
                    for x in ast.walk(t):
                        if isinstance(x, ast.Attribute) and isinstance(x.ctx, (ast.Store, ast.Del)) and isinstance(x.value, ast.Name) and x.value.id == "self":
                            vals.setdefault(x.attr, []).append(getattr(n, "value", None) if isinstance(n, (ast.Assign, ast.AnnAssign)) and t is x else None)

    def container(v):
        return isinstance(v, (ast.Dict, ast.List, ast.Set, ast.Tuple, ast.DictComp, ast.ListComp, ast.SetComp)) or \
            isinstance(v, ast.Call) and isinstance(v.func, ast.Name) and v.func.id in ("dict", "list", "set", "tuple", "OrderedDict", "defaultdict")

    return {f"self.{k}" for k, vs in vals.items() if vs and all(v is not None and container(v) for v in vs)}


def record_fields(p, fn):
    """Field names, in constructor order, of the NamedTuple / dataclass a function returns (every non-None return builds it), else None."""
    found = None
    for r in ast.walk(fn.node):
        if not isinstance(r, ast.Return) or r.value is None or isinstance(r.value, ast.Constant) and r.value.value is None:
            continue
        v = r.value
        if not (isinstance(v, ast.Call) and isinstance(v.func, ast.Name)):
            return None
        res = p.resolve_name(fn.module, v.func.id)
        if not (res and res[0] == "class") or res[1].node is None:
            return None
        ci = res[1]
        is_record = any(unparse(b).split(".")[-1] == "NamedTuple" for b in ci.node.bases) or any("dataclass" in unparse(d) for d in ci.node.decorator_list)
        if not is_record:
            return None
        fields = [st.target.id for st in ci.node.body if isinstance(st, ast.AnnAssign) and isinstance(st.target, ast.Name)]
        # the constructor arguments, in field order, are the elements
        if found is not None and found != fields:
            return None
        found = fields
    return found


# ---------------------------------------------------------------------------------------------- generator helpers
def _gen_callee(ctx, fn, call):
    """FuncInfo of the generator function a call runs (self._g(..) / cls._g(..) / module-level g(..)), when it can be resolved
    statically (not overridden in a subclass), else None."""
    f = call.func
    target = None
    if isinstance(f, ast.Attribute) and isinstance(f.value, ast.Name) and f.value.id in ("self", "cls") and fn.cls is not None:
        m = fn.cls.lookup(f.attr)
        if m and m[1] == "method":
            target = m[2]
            if any(sub.own(f.attr) is not None for sub in ctx.p.subclasses(fn.cls, strict=True)):
                return None
    elif isinstance(f, ast.Attribute) and isinstance(f.value, ast.Name):
        r = ctx.p.resolve_name(fn.module, f.value.id)
        if r and r[0] == "class":
            m = r[1].lookup(f.attr)
            if m and m[1] == "method" and m[2].kind in ("staticmethod", "classmethod"):
                target = m[2]
    elif isinstance(f, ast.Name):
        r = ctx.p.resolve_name(fn.module, f.id)
        if r and r[0] == "func":
            target = r[1]
    if target is None or target.node is fn.node:
        return None
    own = [x for st in target.node.body for x in _walk_own(st)]
    if not any(isinstance(x, ast.Yield) for x in own) or any(isinstance(x, ast.YieldFrom) for x in own):
        return None
    a = target.node.args
    if a.vararg or a.kwarg or any(isinstance(x, ast.Starred) for x in call.args) or any(k.arg is None for k in call.keywords):
        return None
    return target


def _walk_own(node):
    """ast.walk without descending into nested function / class definitions and lambdas."""
    yield node
    for ch in ast.iter_child_nodes(node):
        if isinstance(ch, (ast.FunctionDef, ast.AsyncFunctionDef, ast.ClassDef, ast.Lambda)):
            continue
        yield from _walk_own(ch)


def _own_level(stmts, kinds):
    """Statements of the given kinds that belong to this loop level (not to a loop nested in it)."""
    out = []
    for st in stmts:
        if isinstance(st, kinds):
            out.append(st)
        if isinstance(st, (ast.For, ast.While, ast.AsyncFor, ast.FunctionDef, ast.ClassDef)):
            continue
        for fld in ("body", "orelse", "finalbody"):
            out += _own_level(getattr(st, fld, None) or [], kinds)
        for h in getattr(st, "handlers", None) or []:
            out += _own_level(h.body, kinds)
    return out


def _yield_is_tail(stmts) -> bool:
    """every `yield` statement of this level is the last thing its path does in the block."""
    for i, st in enumerate(stmts):
        last = i == len(stmts) - 1
        if isinstance(st, ast.Expr) and isinstance(st.value, ast.Yield):
            if not last:
                return False
        elif isinstance(st, ast.If):
            if any(isinstance(x, ast.Yield) for b in st.body + st.orelse for x in _walk_own(b)) and not (last and _yield_is_tail(st.body) and _yield_is_tail(st.orelse)):
                return False
        elif any(isinstance(x, ast.Yield) for x in _walk_own(st)):
            return False
    return True


def expand_generators(ctx, fn):
    """`for x in self._gen(args): body`, `_gen` a generator of the shape `<simple statements>; for ... : ... yield e ...`, is the
    generator's loop with every `yield e` replaced by `x = e; body` and every `return` by `break` (leaving the generator ends the
    caller's loop).  Returns a FuncInfo-like view (same fields, new body); `fn` itself when there is nothing to expand or a
    shape is not covered (then the loop is left as it is)."""
    from dataclasses import replace as _replace

    node = copy.deepcopy(fn.node)
    taken = {x.id for x in ast.walk(node) if isinstance(x, ast.Name)} | {a.arg for a in node.args.posonlyargs + node.args.args + node.args.kwonlyargs}
    counter = [0]
    changed = [False]

    def expand(loop):
        call = loop.iter
        if not isinstance(call, ast.Call) or loop.orelse or not (isinstance(loop.target, ast.Name) or isinstance(loop.target, ast.Tuple) and all(isinstance(e, ast.Name) for e in loop.target.elts)):
            return None
        tname = loop.target.id if isinstance(loop.target, ast.Name) else None
        callee = _gen_callee(ctx, fn, call)
        if callee is None:
            return None
        gv = view(ctx, callee)
        body = [copy.deepcopy(st) for st in gv.node.body if not (isinstance(st, ast.Expr) and isinstance(st.value, ast.Constant))]
        if not body or not isinstance(body[-1], ast.For) or body[-1].orelse:
            return None
        gloop, prelude = body[-1], body[:-1]
        # `if <guard>: return` before the loop: the loop runs under `not <guard>`
        guards = [st for st in prelude if isinstance(st, ast.If) and not st.orelse and len(st.body) == 1 and isinstance(st.body[0], ast.Return) and st.body[0].value is None]
        if guards and prelude[-len(guards):] != guards:
            return None
        prelude = prelude[: len(prelude) - len(guards)]
        if any(isinstance(x, (ast.Yield, ast.Return, ast.For, ast.While, ast.Try, ast.With)) for st in prelude for x in _walk_own(st)):
            return None
        inner = gloop.body
        yields = [x for st in inner for x in _walk_own(st) if isinstance(x, ast.Yield)]
        level_yields = [st for st in _own_level(inner, (ast.Expr,)) if isinstance(st.value, ast.Yield)]
        if len(yields) != len(level_yields) or any(y.value is None for y in yields):
            return None  # a yield inside a nested loop / expression
        if any(isinstance(x, (ast.Try, ast.With)) and any(isinstance(y, (ast.Yield, ast.Return)) for y in _walk_own(x)) for st in inner for x in _walk_own(st)):
            return None
        rets = [x for st in inner for x in _walk_own(st) if isinstance(x, ast.Return)]
        if len(rets) != len(_own_level(inner, (ast.Return,))) or any(r.value is not None for r in rets):
            return None  # a return inside a nested loop would have to leave two loops
        if _own_level(loop.body, (ast.Continue,)) and not _yield_is_tail(inner):
            return None  # `continue` in the caller's body would have to resume after the yield
        # parameters and locals of the generator, renamed away from the caller's names
        a = gv.node.args
        params = [x.arg for x in a.posonlyargs + a.args + a.kwonlyargs]
        args = list(call.args)
        if callee.kind in ("method", "classmethod") and isinstance(call.func, ast.Attribute):
            args = [call.func.value] + args
        binding = dict(zip(params, args))
        binding.update({k.arg: k.value for k in call.keywords})
        for prm in params:
            if prm not in binding:
                d = default_of(gv.node, prm)
                if d is None:
                    return None
                binding[prm] = d
        own = {x.id for st in body for x in ast.walk(st) if isinstance(x, ast.Name) and isinstance(x.ctx, (ast.Store, ast.Del))} | set(params)
        ren = {}
        # the local every `yield` hands out IS the caller's loop variable
        handed = {y.value.id for y in yields if isinstance(y.value, ast.Name)}
        if tname and len(handed) == 1 and all(isinstance(y.value, ast.Name) for y in yields) and next(iter(handed)) in own - set(params) and tname not in own - handed:
            ren[next(iter(handed))] = tname
        for nm in own - set(ren):
            if nm in taken and not (nm in binding and isinstance(binding[nm], ast.Name) and binding[nm].id == nm):
                counter[0] += 1
                ren[nm] = f"{nm}__g{counter[0]}"
                taken.add(ren[nm])

        class Ren(ast.NodeTransformer):
            def visit_Name(self, n):
                return ast.copy_location(ast.Name(id=ren[n.id], ctx=n.ctx), n) if n.id in ren else n

        pre = []
        for prm in params:
            tgt = ren.get(prm, prm)
            if isinstance(binding[prm], ast.Name) and binding[prm].id == tgt:
                continue
            pre.append(ast.Assign(targets=[ast.Name(id=tgt, ctx=ast.Store())], value=copy.deepcopy(binding[prm]), lineno=loop.lineno))
        prelude = [Ren().visit(st) for st in prelude]
        guards = [Ren().visit(st) for st in guards]
        gloop = Ren().visit(gloop)

        class Sub(ast.NodeTransformer):
            def visit_For(self, n):
                return n if n is not gloop else self.generic_visit(n)

            visit_While = visit_FunctionDef = visit_Lambda = lambda self, n: n

            def visit_Return(self, n):
                return ast.copy_location(ast.Break(), n)

            def visit_Expr(self, n):
                if isinstance(n.value, ast.Yield):
                    bind = []
                    if not (tname and isinstance(n.value.value, ast.Name) and n.value.value.id == tname):
                        bind = [ast.Assign(targets=[copy.deepcopy(loop.target)], value=n.value.value, lineno=n.lineno)]
                    return bind + [copy.deepcopy(st) for st in loop.body]
                return n

        gloop.body = [y for st in gloop.body for y in (lambda r: r if isinstance(r, list) else [r])(Sub().visit(st))]
        inner_out = [gloop]
        for gd in reversed(guards):
            inner_out = [ast.If(test=ast.UnaryOp(op=ast.Not(), operand=gd.test), body=inner_out, orelse=[])]
        out = pre + prelude + inner_out
        for st in out:
            for x in ast.walk(st):
                if isinstance(x, (ast.stmt, ast.expr)) and not hasattr(x, "lineno"):
                    ast.copy_location(x, loop)
        return out

    def block(stmts):
        out = []
        for st in stmts:
            for fld in ("body", "orelse", "finalbody"):
                b = getattr(st, fld, None)
                if isinstance(b, list) and b and isinstance(b[0], ast.stmt):
                    setattr(st, fld, block(b))
            for h in getattr(st, "handlers", None) or []:
                h.body = block(h.body)
            new = expand(st) if isinstance(st, ast.For) else None
            if new is not None:
                changed[0] = True
                out += new
            else:
                out.append(st)
        return out

    node.body = block(node.body)
    if not changed[0]:
        return fn
    ast.fix_missing_locations(node)
    return _replace(fn, node=node)


# ---------------------------------------------------------------------------------------------- specialisation
def specialise(fn_node, consts=None, kinds=None, call_eval=None, rounds=3):
    """The function body under the rule's assumptions (a parameter equal to a constant, the kind of a subject): `if`s the
    assumptions decide are replaced by the branch taken, and a loop over a short literal sequence (`for c in (a,)`,
    `for c in iter((a, b))`, also through a local that became single-assignment by the pruning) is unrolled with the loop variable
    bound per element.  What is left is the code that runs in that case, in a form where tables of one entry, `containers =
    ... if is_type else ...` and the like no longer hide which object a statement works on."""
    consts = dict(consts or {})
    stored = {x.id for x in ast.walk(fn_node) if isinstance(x, ast.Name) and isinstance(x.ctx, (ast.Store, ast.Del))}
    consts = {k: v for k, v in consts.items() if k not in stored}
    node = copy.deepcopy(fn_node)
    counter = [0]
    for _ in range(rounds):
        S = Sym(node, consts=consts, kinds=kinds, call_eval=call_eval)
        changed = [False]

        def elements(it):
            it = S.X(it)
            if isinstance(it, ast.Call) and isinstance(it.func, ast.Name) and it.func.id in ("iter", "tuple", "list") and len(it.args) == 1 and not it.keywords:
                it = it.args[0]
            if isinstance(it, (ast.Tuple, ast.List)) and 0 < len(it.elts) <= 4 and not any(isinstance(e, ast.Starred) for e in it.elts):
                return it.elts
            return None

        def block(stmts):
            out = []
            for st in stmts:
                if isinstance(st, ast.If):
                    f = S.formula(st.test)
                    if f is True or f is False:
                        changed[0] = True
                        out += block(st.body if f is True else st.orelse)
                        continue
                if isinstance(st, ast.For) and isinstance(st.target, ast.Name) and not st.orelse and not _own_level(st.body, (ast.Break, ast.Continue)) \
                        and not any(isinstance(x, (ast.Yield, ast.YieldFrom)) for b in st.body for x in _walk_own(b)):
                    els = elements(st.iter)
                    if els is not None:
                        changed[0] = True
                        for el in els:
                            counter[0] += 1
                            nm = f"{st.target.id}__u{counter[0]}"

                            class Ren(ast.NodeTransformer):
                                def visit_Name(self, n, nm=nm, old=st.target.id):
                                    return ast.copy_location(ast.Name(id=nm, ctx=n.ctx), n) if n.id == old else n

                            out.append(ast.copy_location(ast.Assign(targets=[ast.Name(id=nm, ctx=ast.Store())], value=copy.deepcopy(el), lineno=st.lineno), st))
                            out += block([Ren().visit(copy.deepcopy(b)) for b in st.body])
                        continue
                for fld in ("body", "orelse", "finalbody"):
                    b = getattr(st, fld, None)
                    if isinstance(b, list) and b and isinstance(b[0], ast.stmt):
                        nb = block(b)
                        setattr(st, fld, nb if nb or fld != "body" else [ast.copy_location(ast.Pass(), st)])
                for h in getattr(st, "handlers", None) or []:
                    h.body = block(h.body) or [ast.copy_location(ast.Pass(), h)]
                out.append(st)
            return out

        node.body = block(node.body) or [ast.copy_location(ast.Pass(), node)]
        ast.fix_missing_locations(node)
        if not changed[0]:
            break
    return node


# ---------------------------------------------------------------------------------------------- the C01 view
class _Names(set):
    """names the C01 rules locate a function by (string constants of the rule files that are identifiers / dotted paths; a
    constant ending in `_` is a prefix)."""

    def __contains__(self, name):
        return set.__contains__(self, name) or any(p.endswith("_") and name.startswith(p) for p in self)


_OWN_NAMES = None


def own_names() -> _Names:
    global _OWN_NAMES
    if _OWN_NAMES is None:
        import os
        import re

        names = _Names()
        here = os.path.dirname(os.path.abspath(__file__))
        for f in os.listdir(here):
            if f == "c01.py" or f.startswith("_c01_"):
                tree = ast.parse(open(os.path.join(here, f), encoding="utf-8").read())
                for x in ast.walk(tree):
                    if isinstance(x, ast.Constant) and isinstance(x.value, str) and re.fullmatch(r"[A-Za-z_][A-Za-z0-9_.]*", x.value):
                        names |= set(x.value.split("."))
                    elif isinstance(x, ast.Constant) and isinstance(x.value, str):
                        names |= set(re.findall(r"([A-Za-z_][A-Za-z0-9_]*)\(", x.value))  # functions named in a condition / pattern text
        names.discard("")
        _OWN_NAMES = names
    return _OWN_NAMES


class _Norm(Normalizer):
    """The shared normaliser; the only difference: a public helper is left unexpanded when a C01 rule locates a function by that
    name — not when the word merely occurs somewhere in some rule file (a helper called `unlink`, `find`, `update` ... that a
    refactoring introduced is part of its caller)."""

    def _callee(self, fn, call):
        from .. import normalize as N

        N.rule_named_identifiers()
        saved = N._IDENT_CACHE
        N._IDENT_CACHE = own_names()
        try:
            return super()._callee(fn, call)
        finally:
            N._IDENT_CACHE = saved


def norm(ctx):
    if "c01.norm" not in ctx.cache:
        ctx.cache["c01.norm"] = _Norm(ctx.p)
    return ctx.cache["c01.norm"]


def view(ctx, spec_or_fn):
    fn = ctx.p.func(spec_or_fn) if isinstance(spec_or_fn, str) else spec_or_fn
    return norm(ctx).view(fn)
