"""C02 helpers: provenance of property-group members (which values reaching PropertyGroup._properties were shown to be children of
the group's object), decided by a forward dataflow on the normalised body — not on the text of the function."""

from __future__ import annotations

import ast

from ..cfg import CFG, forward
from ..model import unparse
from ..normalize import expanded, single_assignments

PARENT_TEXTS = ("self.parent", "self._parent")
SCOPED_LOOKUPS = ("get_entity", "get_data")  # lookups of EntityContainer / ObjectBase that only search the receiver's children
GROW = ("append", "extend", "insert", "add", "update")


class Members:
    """May-analysis.  State: the set of locals that may hold a value NOT shown to belong to the parent's children (an entity, a uid,
    or a collection containing one).  Parameters start unverified; `self._properties` (the state built so far) is trusted; a value
    becomes verified by (a) coming out of `<self.parent>.get_entity / get_data`, (b) iterating `<self.parent>.children`, (c) the
    true edge of `x in <children collection>` / `x.uid in <uids of the children>` (false edge of `not in`)."""

    def __init__(self, fn, maps=()):
        """maps: parameters that are translation tables (uid of a source child -> uid of its copy under the new parent): what comes out
        of `<map>[k]` / `<map>.get(k)` / `map(<map>.get, ks)` is verified (it names a child of the new parent)"""
        self.maps = set(maps)
        self.fn = fn
        self.node = fn.node
        self.sa = single_assignments(fn.node)
        self.g = CFG(fn.node)
        a = fn.node.args
        params = [x.arg for x in a.posonlyargs + a.args + a.kwonlyargs] + ([a.vararg.arg] if a.vararg else []) + ([a.kwarg.arg] if a.kwarg else [])
        self.init = frozenset(x for x in params if x not in ("self", "cls"))
        self.IN = forward(self.g, self.init, self._transfer, lambda x, y: x | y)

    # ------------------------------------------------------------------ expressions
    def _x(self, e):
        return expanded(e, self.node, self.sa)

    def is_parent(self, e) -> bool:
        return unparse(self._x(e)) in PARENT_TEXTS

    def is_children(self, e, _depth=0) -> bool:
        """e denotes the children of the parent: `<parent>.children`, or a collection built by iterating them (the elements may be
        the children or their uids)"""
        if _depth > 6:
            return False
        x = self._x(e)
        if isinstance(x, ast.Attribute) and x.attr in ("children", "_children") and unparse(x.value) in PARENT_TEXTS:
            return True
        if isinstance(x, (ast.ListComp, ast.SetComp, ast.GeneratorExp)) and len(x.generators) == 1 and isinstance(x.generators[0].target, ast.Name):
            tgt = x.generators[0].target.id
            elt_ok = (isinstance(x.elt, ast.Name) and x.elt.id == tgt) or (
                isinstance(x.elt, ast.Attribute) and x.elt.attr == "uid" and isinstance(x.elt.value, ast.Name) and x.elt.value.id == tgt)
            return elt_ok and self.is_children(x.generators[0].iter, _depth + 1)
        if isinstance(x, ast.DictComp) and len(x.generators) == 1 and isinstance(x.generators[0].target, ast.Name):
            tgt = x.generators[0].target.id
            key_ok = isinstance(x.key, ast.Attribute) and x.key.attr == "uid" and isinstance(x.key.value, ast.Name) and x.key.value.id == tgt
            return key_ok and self.is_children(x.generators[0].iter, _depth + 1)
        if isinstance(x, ast.Call) and isinstance(x.func, ast.Name) and x.func.id in ("set", "list", "tuple", "frozenset") and len(x.args) == 1:
            return self.is_children(x.args[0], _depth + 1)
        return False

    def is_map(self, e) -> bool:
        x = self._x(e)
        return isinstance(x, ast.Name) and x.id in self.maps

    def scoped_lookup(self, e) -> bool:
        return isinstance(e, ast.Call) and isinstance(e.func, ast.Attribute) and e.func.attr in SCOPED_LOOKUPS and self.is_parent(e.func.value)

    def tainted(self, e, T) -> bool:
        if e is None or isinstance(e, ast.Constant):
            return False
        if isinstance(e, ast.Name):
            if e.id in T:
                return True
            return False
        if isinstance(e, ast.Attribute):
            if isinstance(e.value, ast.Name) and e.value.id in ("self", "cls"):
                return False  # the group's own state (inductively verified) / its parent
            return self.tainted(e.value, T)
        if isinstance(e, ast.Call):
            if self.scoped_lookup(e):
                return False
            f = e.func
            if isinstance(f, ast.Attribute) and f.attr == "get" and (self.is_children(f.value) or self.is_map(f.value)):
                return False  # a look-up in a mapping built from the parent's children / in the table of copied children
            if isinstance(f, ast.Name) and f.id == "map" and len(e.args) == 2 and isinstance(e.args[0], ast.Attribute) and e.args[0].attr in ("get", "__getitem__") \
                    and self.is_map(e.args[0].value):
                return False
            if isinstance(f, ast.Name) and f.id in ("list", "tuple", "set", "sorted") and len(e.args) == 1 and not e.keywords:
                return self.tainted(e.args[0], T)
            if isinstance(f, ast.Name) and f.id == "isinstance":
                return False
            recv = f.value if isinstance(f, ast.Attribute) else None
            return any(self.tainted(a, T) for a in e.args) or any(self.tainted(k.value, T) for k in e.keywords) or (recv is not None and self.tainted(recv, T))
        if isinstance(e, ast.Subscript):
            return not self.is_children(e.value) and not self.is_map(e.value) and self.tainted(e.value, T)
        if isinstance(e, ast.Starred):
            return self.tainted(e.value, T)
        if isinstance(e, ast.IfExp):
            tt = T - self.verified(e.test, True)
            tf = T - self.verified(e.test, False)
            return self.tainted(e.body, tt) or self.tainted(e.orelse, tf)
        if isinstance(e, (ast.ListComp, ast.SetComp, ast.GeneratorExp, ast.DictComp)):
            cur = set(T)
            for gen in e.generators:
                names = {x.id for x in ast.walk(gen.target) if isinstance(x, ast.Name)}
                if self.is_children(gen.iter) or not self.tainted(gen.iter, frozenset(cur)):
                    cur -= names
                else:
                    cur |= names
                for cond in gen.ifs:
                    cur -= self.verified(cond, True)
            elts = [e.key, e.value] if isinstance(e, ast.DictComp) else [e.elt]
            return any(self.tainted(x, frozenset(cur)) for x in elts)
        if isinstance(e, ast.BoolOp):
            return any(self.tainted(v, T) for v in e.values)
        if isinstance(e, (ast.List, ast.Tuple, ast.Set)):
            return any(self.tainted(v, T) for v in e.elts)
        if isinstance(e, ast.Dict):
            return any(self.tainted(v, T) for v in list(e.keys) + list(e.values) if v is not None)
        if isinstance(e, ast.BinOp):
            return self.tainted(e.left, T) or self.tainted(e.right, T)
        if isinstance(e, ast.NamedExpr):
            return self.tainted(e.value, T)
        if isinstance(e, (ast.Compare, ast.UnaryOp)) and not isinstance(getattr(e, "op", None), (ast.USub, ast.UAdd, ast.Invert)):
            return False  # a boolean
        return any(isinstance(x, ast.Name) and x.id in T for x in ast.walk(e))

    # ------------------------------------------------------------------ conditions
    @staticmethod
    def _subject(left):
        """the local a membership test is about: `x` or `x.uid`"""
        if isinstance(left, ast.Name):
            return left.id
        if isinstance(left, ast.Attribute) and left.attr == "uid" and isinstance(left.value, ast.Name):
            return left.value.id
        return None

    def verified(self, test, edge: bool) -> frozenset:
        """locals known to be children of the parent (or uids of children) when `test` evaluates to `edge`"""
        t = test
        if isinstance(t, ast.Name) and t.id in self.sa:
            t = self.sa[t.id]
        if isinstance(t, ast.UnaryOp) and isinstance(t.op, ast.Not):
            return self.verified(t.operand, not edge)
        if isinstance(t, ast.BoolOp):
            parts = [self.verified(v, edge) for v in t.values]
            all_hold = isinstance(t.op, ast.And) == edge  # `A and B` true: both true; `A or B` false: both false
            return frozenset().union(*parts) if all_hold else (frozenset.intersection(*parts) if parts else frozenset())
        if isinstance(t, ast.Compare) and len(t.ops) == 1 and isinstance(t.ops[0], (ast.In, ast.NotIn)):
            if isinstance(t.ops[0], ast.In) == edge and self.is_children(t.comparators[0]):
                s = self._subject(t.left)
                if s is not None:
                    return frozenset({s})
        return frozenset()

    # ------------------------------------------------------------------ transfer
    def _assign(self, cur, target, is_tainted):
        names = [target.id] if isinstance(target, ast.Name) else [x.id for x in ast.walk(target) if isinstance(x, ast.Name) and isinstance(x.ctx, ast.Store)]
        for nm in names:
            if is_tainted:
                cur.add(nm)
            elif isinstance(target, ast.Name):
                cur.discard(nm)
        if isinstance(target, (ast.Subscript, ast.Attribute)) and is_tainted:
            base = target
            while isinstance(base, (ast.Subscript, ast.Attribute)):
                base = base.value
            if isinstance(base, ast.Name) and base.id not in ("self", "cls"):
                cur.add(base.id)  # a tainted value stored into a local collection

    def _transfer(self, node, st):
        a = node.ast
        cur = set(st)
        if node.kind == "fornext":
            it = getattr(node.stmt, "iter", None)
            t = it is not None and not self.is_children(it) and self.tainted(it, st)
            self._assign(cur, a, t)
            if not t and not isinstance(a, ast.Name):
                cur -= {x.id for x in ast.walk(a) if isinstance(x, ast.Name)}
            return frozenset(cur)
        if node.kind == "test" and a is not None:
            return {"true": frozenset(cur - self.verified(a, True)), "false": frozenset(cur - self.verified(a, False)), None: frozenset(cur)}
        if node.kind == "assert" and a is not None:
            return {"true": frozenset(cur - self.verified(a, True)), None: frozenset(cur)}
        if node.kind == "stmt":
            if isinstance(a, (ast.Assign, ast.AnnAssign)) and getattr(a, "value", None) is not None:
                t = self.tainted(a.value, st)
                for tg in (a.targets if isinstance(a, ast.Assign) else [a.target]):
                    self._assign(cur, tg, t)
            elif isinstance(a, ast.AugAssign):
                if self.tainted(a.value, st):
                    self._assign(cur, a.target, True)
            elif isinstance(a, ast.Expr) and isinstance(a.value, ast.Call) and isinstance(a.value.func, ast.Attribute) and a.value.func.attr in GROW:
                recv = a.value.func.value
                if isinstance(recv, ast.Name) and any(self.tainted(x, st) for x in a.value.args):
                    cur.add(recv.id)
        if node.kind == "with" and a is not None:
            for it in a.items:
                if it.optional_vars is not None:
                    self._assign(cur, it.optional_vars, self.tainted(it.context_expr, st))
        return frozenset(cur)

    # ------------------------------------------------------------------ result
    def handed_over(self, key="properties"):
        """[(node, unverified?)] for every value the function hands over under the name `key`: a keyword argument of a call, an entry
        of a dict display, a store `d[key] = v`, the argument of `<group>.add_<key>(X)`, the value of `<group>.<key> = X` — evaluated
        in the state of the statement that contains it"""
        out = []
        for n in self.g.nodes:
            if n.ast is None or isinstance(n.ast, list) or n not in self.IN or n.kind not in ("stmt", "test", "return", "foriter"):
                continue
            st = self.IN[n]
            for x in ast.walk(n.ast):
                if isinstance(x, ast.Call):
                    for k in x.keywords:
                        if k.arg == key:
                            out.append((k.value, self.tainted(k.value, st)))
                    # members added to a group after its creation: <group>.add_<key>(X) (the receiver may be a local / an alias)
                    if isinstance(x.func, ast.Attribute) and x.func.attr == f"add_{key}" and x.args:
                        out.append((x.args[0], any(self.tainted(a_, st) for a_ in x.args)))
                elif isinstance(x, ast.Assign) and any(isinstance(t, ast.Attribute) and t.attr in (key, f"_{key}") and not (isinstance(t.value, ast.Name) and t.value.id in ("self", "cls"))
                                                       for t in x.targets):
                    out.append((x.value, self.tainted(x.value, st)))  # <group>.properties = X
                elif isinstance(x, ast.Dict):
                    for k, v in zip(x.keys, x.values):
                        if isinstance(k, ast.Constant) and k.value == key:
                            out.append((v, self.tainted(v, st)))
                elif isinstance(x, ast.Assign) and len(x.targets) == 1 and isinstance(x.targets[0], ast.Subscript) and isinstance(x.targets[0].slice, ast.Constant) \
                        and x.targets[0].slice.value == key:
                    out.append((x.value, self.tainted(x.value, st)))
        return out

    def stores(self, field="_properties"):
        """[(statement, unverified?)] for every reachable store `self.<field> = v` / in-place growth of `self.<field>`"""
        out = []
        for n in self.g.nodes:
            if n.kind != "stmt" or n.ast is None or isinstance(n.ast, list) or n not in self.IN:
                continue
            a, st = n.ast, self.IN[n]
            if isinstance(a, (ast.Assign, ast.AnnAssign)) and getattr(a, "value", None) is not None:
                tgs = a.targets if isinstance(a, ast.Assign) else [a.target]
                if any(unparse(t) == f"self.{field}" for t in tgs):
                    out.append((a, self.tainted(a.value, st)))
            elif isinstance(a, ast.AugAssign) and unparse(a.target) == f"self.{field}":
                out.append((a, self.tainted(a.value, st)))
            elif isinstance(a, ast.Expr) and isinstance(a.value, ast.Call) and isinstance(a.value.func, ast.Attribute) and a.value.func.attr in GROW \
                    and unparse(a.value.func.value) == f"self.{field}":
                out.append((a, any(self.tainted(x, st) for x in a.value.args)))
        return out


# ---------------------------------------------------------------------------------------------------------------------------------
# path queries pruned by "the element is a regular (non-concatenated) entity that is one of the container's children"
def child_truth(test, var, concat_names, fn_node, sa=None):
    """True / False / None for `test` given that the local `var` is a regular entity (no class of `concat_names`) and IS one of
    self's children; every other condition is left open."""
    from ..kinds import tv

    sa = sa if sa is not None else single_assignments(fn_node)
    t = test
    if isinstance(t, ast.Name) and t.id in sa:
        t = sa[t.id]
    if isinstance(t, ast.UnaryOp) and isinstance(t.op, ast.Not):
        v = child_truth(t.operand, var, concat_names, fn_node, sa)
        return None if v is None else not v
    if isinstance(t, ast.BoolOp):
        vals = [child_truth(v, var, concat_names, fn_node, sa) for v in t.values]
        if isinstance(t.op, ast.And):
            if any(v is False for v in vals):
                return False
            return True if all(v is True for v in vals) else None
        if any(v is True for v in vals):
            return True
        return False if all(v is False for v in vals) else None
    if var is None:
        return None
    if isinstance(t, ast.Call) and isinstance(t.func, ast.Name) and t.func.id == "isinstance":
        return tv(t, var, {nm: False for nm in concat_names})
    if isinstance(t, ast.Compare) and len(t.ops) == 1 and isinstance(t.ops[0], (ast.In, ast.NotIn)) and isinstance(t.left, ast.Name) and t.left.id == var:
        coll = unparse(expanded(t.comparators[0], fn_node, sa))
        if coll in ("self._children", "self.children"):
            return isinstance(t.ops[0], ast.In)
    return None


def reach_pruned(g, starts, truth, avoid=lambda n: False):
    from collections import deque

    seen, dq = set(), deque(starts)
    while dq:
        n = dq.popleft()
        if n in seen or avoid(n):
            continue
        seen.add(n)
        succ = n.succ
        if n.kind == "test" and n.ast is not None:
            v = truth(n.ast)
            if v is True:
                succ = [(m, lab) for m, lab in succ if lab != "false"]
            elif v is False:
                succ = [(m, lab) for m, lab in succ if lab != "true"]
        for m, _ in succ:
            if m not in seen:
                dq.append(m)
    return seen


def sweeps(p, K, fn, _seen=None, view=None) -> set:
    """the registry kinds whose dead referents `fn` (a member of class K) sweeps: constants K2 of `self.remove_none_referents(<registry>, K2)`,
    directly or through the members of K it uses (`self.<property>` / `self.<method>(...)`)"""
    _seen = _seen if _seen is not None else set()
    if id(fn) in _seen or len(_seen) > 40:
        return set()
    _seen.add(id(fn))
    v = view(fn) if view is not None else fn  # normalised: private helpers expanded with their parameters bound (the kind may be an argument)
    return sweeps_ast(p, K, v.node, v.node, _seen, view)


def sweeps_ast(p, K, node, fn_node, _seen=None, view=None) -> set:
    """same, for one statement / expression `node` of the function `fn_node`"""
    from ..roles import const_values

    _seen = _seen if _seen is not None else set()
    out = set()
    for n in ast.walk(node):
        if isinstance(n, ast.Call) and isinstance(n.func, ast.Attribute) and n.func.attr == "remove_none_referents" and len(n.args) >= 2:
            cv = const_values(n.args[1], fn_node)
            if cv:
                out |= {str(x) for x in cv}
        if isinstance(n, ast.Attribute) and isinstance(n.value, ast.Name) and n.value.id == "self" and isinstance(n.ctx, ast.Load):
            m = K.lookup(n.attr)
            if m is None:
                continue
            if m[1] == "method":
                out |= sweeps(p, K, m[2], _seen, view)
            elif m[1] == "prop" and getattr(m[2], "getter", None) is not None:
                out |= sweeps(p, K, m[2].getter, _seen, view)
    return out


# ---------------------------------------------------------------------------------------------------------------------------------
# loops over literal tables, unrolled: `for k, subs in {"A": (), "B": ("x", "y")}.items(): h = p.create_group(k); for s in subs: h.create_group(s)`
# stands for the straight-line code it performs, with the locals of each round kept apart (so that a flow-insensitive denotation keeps
# the pairing of each key with its own sub-table).
def _literal(e):
    """python value of a literal made of constants, tuples, lists and dicts — or raise ValueError"""
    return ast.literal_eval(e)


def _rows(it):
    """[ast node per element] of a literal table iterated by a `for`: a list / tuple / set display, or <dict display>.items() / .keys() / .values()"""
    if isinstance(it, (ast.List, ast.Tuple, ast.Set)):
        return list(it.elts)
    if isinstance(it, ast.Dict) and all(k is not None for k in it.keys):
        return list(it.keys)
    if isinstance(it, ast.Call) and isinstance(it.func, ast.Attribute) and isinstance(it.func.value, ast.Dict) and not it.args and all(k is not None for k in it.func.value.keys):
        d = it.func.value
        if it.func.attr == "items":
            return [ast.Tuple(elts=[k, v], ctx=ast.Load()) for k, v in zip(d.keys, d.values)]
        if it.func.attr == "keys":
            return list(d.keys)
        if it.func.attr == "values":
            return list(d.values)
    return None


def unroll_literal_loops(fn, max_rows: int = 12):
    """FuncInfo like `fn` in which every `for` over a literal table of constants (without break / continue / else, whose targets are
    not re-bound in the body) is replaced by one copy of its body per row: the targets substituted by the row's constants, every other
    local first bound inside the body renamed per round when it is not read outside the loop."""
    import copy
    from dataclasses import replace

    counter = [0]
    changed = [False]
    root = copy.deepcopy(fn.node)

    def names_bound(stmts):
        out = set()
        for s in stmts:
            for x in ast.walk(s):
                if isinstance(x, ast.Name) and isinstance(x.ctx, ast.Store):
                    out.add(x.id)
        return out

    def bind(target, row):
        """{name: constant node} for a (possibly tuple) target against one row, or None"""
        if isinstance(target, ast.Name):
            return {target.id: row}
        if isinstance(target, (ast.Tuple, ast.List)) and isinstance(row, (ast.Tuple, ast.List)) and len(target.elts) == len(row.elts):
            out = {}
            for t, r in zip(target.elts, row.elts):
                b = bind(t, r)
                if b is None:
                    return None
                out.update(b)
            return out
        return None

    def unroll_block(stmts):
        out = []
        for s in stmts:
            for fld in ("body", "orelse", "finalbody"):
                blk = getattr(s, fld, None)
                if isinstance(blk, list) and blk and isinstance(blk[0], ast.stmt):
                    setattr(s, fld, unroll_block(blk))
            for h in getattr(s, "handlers", []) or []:
                h.body = unroll_block(h.body)
            if isinstance(s, ast.For) and not s.orelse:
                rows = _rows(s.iter)
                if rows is None:
                    rows = _rows(expanded(s.iter, root))  # the table read into a local first
                ok = rows is not None and len(rows) <= max_rows
                if ok:
                    try:
                        for r in rows:
                            _literal(r)
                    except (ValueError, SyntaxError, TypeError):
                        ok = False
                if ok and any(isinstance(x, (ast.Break, ast.Continue, ast.Return)) for b in s.body for x in ast.walk(b)):
                    ok = False
                tnames = {x.id for x in ast.walk(s.target) if isinstance(x, ast.Name)}
                if ok and tnames & names_bound(s.body):
                    ok = False
                binds = [bind(s.target, r) for r in rows] if ok else []
                if ok and any(b is None for b in binds):
                    ok = False
                if ok:
                    inner = names_bound(s.body)
                    outside = {x.id for x in ast.walk(root) if isinstance(x, ast.Name) and not any(x is y for b in s.body for y in ast.walk(b))}
                    private = inner - outside
                    rounds = []
                    for b in binds:
                        counter[0] += 1
                        k = counter[0]

                        class Sub(ast.NodeTransformer):
                            def visit_Name(self, node, b=b, k=k):
                                if node.id in b and isinstance(node.ctx, ast.Load):
                                    return ast.copy_location(copy.deepcopy(b[node.id]), node)
                                if node.id in private:
                                    return ast.copy_location(ast.Name(id=f"{node.id}__u{k}", ctx=node.ctx), node)
                                return node

                        body = [Sub().visit(copy.deepcopy(x)) for x in s.body]
                        rounds += unroll_block(body)  # an inner loop over a sub-table that has just become literal
                    changed[0] = True
                    out += rounds or [ast.copy_location(ast.Pass(), s)]
                    continue
            out.append(s)
        return out

    root.body = unroll_block(root.body)
    if not changed[0]:
        return fn
    return replace(fn, node=ast.fix_missing_locations(root))


def fold_literal_concat(fn):
    """FuncInfo like `fn` in which `(a, b) + (c, d)` / `[a] + [b]` (tables joined at the place of use) are written as one display"""
    import copy
    from dataclasses import replace

    changed = [False]

    class Join(ast.NodeTransformer):
        def visit_BinOp(self, node):
            self.generic_visit(node)
            if isinstance(node.op, ast.Add) and isinstance(node.left, (ast.Tuple, ast.List)) and type(node.left) is type(node.right) \
                    and not any(isinstance(x, ast.Starred) for x in node.left.elts + node.right.elts):
                changed[0] = True
                return ast.copy_location(type(node.left)(elts=list(node.left.elts) + list(node.right.elts), ctx=ast.Load()), node)
            return node

    new = Join().visit(copy.deepcopy(fn.node))
    return replace(fn, node=ast.fix_missing_locations(new)) if changed[0] else fn


# ---------------------------------------------------------------------------------------------------------------------------------
# writer calls of the Workspace: `self._io_call(H5Writer.f, a, b, mode=...)`, directly, through a forwarding method
# (`def _w(self, fun, *args, **kw): return self._io_call(fun, *args, mode="r+", **kw)`), through a wrapper of one writer function
# (`def _del(self, uid, kind, **kw): self._io_call(H5Writer.remove_entity, uid, kind, ...)`), or with the function and its arguments
# chosen per branch into locals (`fun = H5Writer.f; args = (a, b)` ... `self._io_call(fun, *args, ...)`).
def writer_calls_of(call, fn_node, K, depth=0):
    """[(writer function text, [positional argument exprs])] that the call `call` (inside `fn_node`, a method of class K) performs"""
    import copy

    f = call.func
    if not (isinstance(f, ast.Attribute) and isinstance(f.value, ast.Name) and f.value.id in ("self", "cls")) or depth > 3:
        return []
    if f.attr == "_io_call":
        if not call.args:
            return []
        first, rest = call.args[0], list(call.args[1:])
        star = [a for a in rest if isinstance(a, ast.Starred)]
        if not star and not (isinstance(first, ast.Name) and _assigned_blocks(fn_node, first.id)):
            return [(unparse(first), rest)]
        # function and / or arguments held in locals: one candidate per block that binds them together
        out = []
        fname = first.id if isinstance(first, ast.Name) else None
        aname = star[0].value.id if len(star) == 1 and isinstance(star[0].value, ast.Name) else None
        fblocks = _assigned_blocks(fn_node, fname) if fname else {}
        ablocks = _assigned_blocks(fn_node, aname) if aname else {}
        if star and aname is None:
            return []
        if not fblocks and not ablocks:
            return [(unparse(first), rest)]  # parameters of a forwarding method: bound by the caller of that method
        keys = set(fblocks) | set(ablocks) if (fblocks and ablocks) else (set(fblocks) or set(ablocks))
        for b in keys:
            fv = fblocks.get(b) if fblocks else first
            av = ablocks.get(b) if ablocks else None
            if fv is None or (ablocks and av is None):
                continue  # bound apart: not paired
            args = []
            for a in rest:
                if isinstance(a, ast.Starred):
                    if not isinstance(av, (ast.Tuple, ast.List)):
                        args = None
                        break
                    args += list(av.elts)
                else:
                    args.append(a)
            if args is not None:
                out.append((unparse(fv), args))
        return out
    m = K.lookup(f.attr) if K is not None else None
    if not m or m[1] != "method":
        return []
    target = m[2]
    a = target.node.args
    params = [x.arg for x in a.posonlyargs + a.args]
    if params and params[0] in ("self", "cls"):
        params = params[1:]
    if any(isinstance(x, ast.Starred) for x in call.args):
        return []
    bound = dict(zip(params, call.args))
    extra = list(call.args[len(params):])
    for k in call.keywords:
        if k.arg is not None and k.arg in params:
            bound[k.arg] = k.value
    out = []
    for inner in ast.walk(target.node):
        if not isinstance(inner, ast.Call):
            continue
        for fname, args in writer_calls_of(inner, target.node, K, depth + 1):
            if fname in bound:
                fname = unparse(bound[fname])
            elif fname in params:
                continue
            new = []
            for x in args:
                if isinstance(x, ast.Starred) and isinstance(x.value, ast.Name) and a.vararg is not None and x.value.id == a.vararg.arg:
                    new += extra
                elif isinstance(x, ast.Name) and x.id in bound:
                    new.append(bound[x.id])
                elif isinstance(x, ast.Name) and x.id in params:
                    new.append(ast.Constant(value=None))  # a defaulted parameter the caller did not pass
                else:
                    new.append(copy.deepcopy(x))
            out.append((fname, new))
    return out


def _assigned_blocks(fn_node, name):
    """{id of the statement list: value} for every simple assignment `name = value` / `name: T = value` in the function, keyed by the
    block (body list) that holds the statement"""
    out = {}
    if name is None:
        return out
    for n in ast.walk(fn_node):
        for fld in ("body", "orelse", "finalbody"):
            blk = getattr(n, fld, None)
            if isinstance(blk, list):
                for s in blk:
                    if isinstance(s, (ast.Assign, ast.AnnAssign)) and getattr(s, "value", None) is not None:
                        tgs = s.targets if isinstance(s, ast.Assign) else [s.target]
                        if any(isinstance(t, ast.Name) and t.id == name for t in tgs):
                            out[id(blk)] = s.value
    return out
