"""C03's store -> persist engine: sa/persist.py's PersistEngine with the parts that matched layout made semantic.

Nothing is relaxed: every override either resolves a spelling the base engine read literally (a route held in a local
or a hoisted constant, keyword arguments of the gateway, a guard clause in place of a nested `if`) to the same event
the literal spelling produces, or removes an alias fact that no path can realise (a local re-bound to a fresh object
before it is edited).

* aliases of backing fields are flow-sensitive (reaching definitions on the CFG): `x = self._f[k]` in one branch and
  `x = fresh(); x[k] = ...` in the other no longer makes the second an in-place edit of `_f`;
* the route of `update_attribute(E, route)` may be a literal, a local bound once to a literal, or a module / class
  level constant; the entity / route may be passed by keyword;
* the gateway-availability guard (`if self.workspace:` / `if self.parent is not None:` around nothing but persistence
  calls) is recognised in its guard-clause form (`if not self.workspace: return` followed by nothing but persistence
  calls) and through a local alias of the tested object; a test that depends on a parameter through a local is no
  longer taken for a gateway guard (tightening).
"""

from __future__ import annotations

import ast
import copy

from ..cfg import CFG, forward
from ..model import AnalysisError, FuncInfo, chain, unparse
from ..normalize import expanded, single_assignments
from ..persist import MUTATORS as _MUTATORS
from ..persist import PersistEngine
from ..tables import WriterTables

GATEWAY = "update_attribute"
# members of an entity / type / component object that lead to the workspace: a test on one of them, guarding nothing but
# persistence calls, asks whether the gateway can be reached at all (false only while the constructor runs)
# (`on_file` is the gateway's own gate — C03.W4 — so testing it first changes nothing)
# (`geoh5` / `h5file`: for the Workspace itself the gateway is its own open file)
GATEWAY_MEMBERS = {"workspace", "parent", "on_file", "geoh5", "h5file"}


# ---------------------------------------------------------------------------------------------- gateway call arguments
def gateway_params(proj) -> list:
    """Parameter names of Workspace.update_attribute after self: [entity, attribute, ...]."""
    try:
        return proj.func("Workspace.update_attribute").params[1:]
    except Exception:  # pragma: no cover - the anchor is checked by the engine's constructor
        return ["entity", "attribute"]


def gateway_args(proj, call: ast.Call):
    """(entity expr | None, route expr | None) of a `<ws>.update_attribute(...)` call, positional or by keyword."""
    names = gateway_params(proj)
    vals: dict = {}
    for i, a in enumerate(call.args):
        if isinstance(a, ast.Starred):
            break
        if i < len(names):
            vals[names[i]] = a
    for kw in call.keywords:
        if kw.arg is not None and kw.arg not in vals:
            vals[kw.arg] = kw.value
    ent = vals.get(names[0]) if names else None
    route = vals.get(names[1]) if len(names) > 1 else None
    return ent, route


def has_gateway_kw(proj, call: ast.Call, name: str) -> bool:
    """Is the gateway's extra argument `name` (e.g. `values`) passed, by keyword or position?"""
    names = gateway_params(proj)
    if any(kw.arg == name for kw in call.keywords):
        return True
    return name in names and len(call.args) > names.index(name)


def _local_const_at(fn_node, name, at):
    """The string literal the local `name` holds where the expression `at` is evaluated: the closest preceding statement
    of the same block that binds it, when that is a plain `name = "<literal>"` (anything else: None)."""
    for parent in ast.walk(fn_node):
        for fld in ("body", "orelse", "finalbody"):
            blk = getattr(parent, fld, None)
            if not (isinstance(blk, list) and blk and isinstance(blk[0], ast.stmt)):
                continue
            for i, st in enumerate(blk):
                if not isinstance(st, (ast.Expr, ast.Assign, ast.AnnAssign, ast.AugAssign, ast.Return)) or not any(x is at for x in ast.walk(st)):
                    continue
                for prev in reversed(blk[:i]):
                    if not any(isinstance(x, ast.Name) and x.id == name and isinstance(x.ctx, (ast.Store, ast.Del)) for x in ast.walk(prev)):
                        continue
                    if isinstance(prev, ast.Assign) and len(prev.targets) == 1 and isinstance(prev.targets[0], ast.Name) \
                            and isinstance(prev.value, ast.Constant) and isinstance(prev.value.value, str):
                        return prev.value.value
                    return None
                return None
    return None


def const_route(proj, fn, expr, at=None, node=None):
    """The string a route expression denotes, or None when it is not a compile-time constant: a literal, a local bound
    exactly once to one, a module-level or class-level constant."""
    if expr is None:
        return None
    if isinstance(expr, ast.Constant):
        return expr.value if isinstance(expr.value, str) else None
    e = expanded(expr, fn.node)
    if isinstance(e, ast.Constant):
        return e.value if isinstance(e.value, str) else None
    if isinstance(e, ast.Name):
        if at is not None and any(isinstance(x, ast.Name) and x.id == e.id and isinstance(x.ctx, ast.Store) for x in ast.walk(fn.node)):
            return _local_const_at(node if node is not None else fn.node, e.id, at)  # a local bound more than once: the binding that reaches the call
        r = proj.resolve_name(fn.module, e.id)
        if r and r[0] == "assign" and isinstance(r[1][1], ast.Constant) and isinstance(r[1][1].value, str):
            return r[1][1].value
        return None
    if isinstance(e, ast.Attribute) and isinstance(e.value, ast.Name):
        owner = None
        if fn.cls is not None and e.value.id in ("self", "cls", fn.self_name or ""):
            owner = fn.cls
        else:
            r = proj.resolve_name(fn.module, e.value.id)
            if r and r[0] == "class":
                owner = r[1]
        if owner is not None:
            m = owner.lookup(e.attr)
            if m and m[1] == "assign" and isinstance(m[2], ast.Constant) and isinstance(m[2].value, str):
                return m[2].value
    return None


def sink_entity(call: ast.Call, sink: str | None):
    """The entity handed DIRECTLY to the writer's fallback sink (`H5Writer.write_attributes(file, E)`, or through a wrapper that
    is given the writer function first: `self._io_call(H5Writer.write_attributes, E, mode="r+")`), else None."""
    if not sink:
        return None

    def is_sink(e):
        return (isinstance(e, ast.Attribute) and e.attr == sink) or (isinstance(e, ast.Name) and e.id == sink)

    args = [a for a in call.args if not isinstance(a, ast.Starred)]
    if is_sink(call.func) and isinstance(call.func, ast.Attribute) and len(args) >= 2:
        return args[1]
    for i, a in enumerate(args[:-1]):
        if is_sink(a) and isinstance(a, ast.Attribute):
            return args[i + 1]
    return None


def is_gateway_stmt(s, sink: str | None = None) -> bool:
    return (
        isinstance(s, ast.Expr)
        and isinstance(s.value, ast.Call)
        and isinstance(s.value.func, ast.Attribute)
        and (s.value.func.attr == GATEWAY or sink_entity(s.value, sink) is not None)
    )


def negated(test):
    """The logical negation of a test, simplified for the shapes guards take."""
    if isinstance(test, ast.UnaryOp) and isinstance(test.op, ast.Not):
        return test.operand
    if isinstance(test, ast.Compare) and len(test.ops) == 1:
        flip = {ast.Is: ast.IsNot, ast.IsNot: ast.Is, ast.Eq: ast.NotEq, ast.NotEq: ast.Eq, ast.In: ast.NotIn, ast.NotIn: ast.In}
        for a, b in flip.items():
            if isinstance(test.ops[0], a):
                return ast.copy_location(ast.Compare(left=test.left, ops=[b()], comparators=test.comparators), test)
    return ast.copy_location(ast.UnaryOp(op=ast.Not(), operand=test), test)


def _is_bare_return(s) -> bool:
    return isinstance(s, ast.Return) and (s.value is None or (isinstance(s.value, ast.Constant) and s.value.value is None))


def fold_tail_guard(fn_node, sink=None):
    """`...; if G: return; P1; P2` (P* persistence calls, at the end of the function body) -> `...; if not G: P1; P2`.
    The statements keep their identity and positions; the original node is not modified."""
    body = fn_node.body
    for i, s in enumerate(body):
        rest = body[i + 1:]
        if (
            isinstance(s, ast.If) and not s.orelse and len(s.body) == 1 and _is_bare_return(s.body[0])
            and rest and all(is_gateway_stmt(x, sink) for x in rest)
        ):
            new_if = ast.copy_location(ast.If(test=negated(s.test), body=list(rest), orelse=[]), s)
            ast.fix_missing_locations(new_if)
            new = copy.copy(fn_node)
            new.body = body[:i] + [new_if]
            return new
    return fn_node


def literal_strings(proj, fn, expr):
    """The string constants of a list / tuple literal, written in place or bound once at module / class level (a local
    bound once to such a literal too), in order; None for anything else."""
    e = expanded(expr, fn.node) if isinstance(expr, ast.Name) else expr
    if isinstance(e, ast.Name):
        r = proj.resolve_name(fn.module, e.id)
        e = r[1][1] if (r and r[0] == "assign") else e
    elif isinstance(e, ast.Attribute) and isinstance(e.value, ast.Name):
        owner = None
        if fn.cls is not None and e.value.id in ("self", "cls", fn.self_name or ""):
            owner = fn.cls
        else:
            r = proj.resolve_name(fn.module, e.value.id)
            owner = r[1] if (r and r[0] == "class") else None
        m = owner.lookup(e.attr) if owner is not None else None
        e = m[2] if (m and m[1] == "assign") else e
    if isinstance(e, (ast.List, ast.Tuple)) and e.elts and all(isinstance(x, ast.Constant) and isinstance(x.value, str) for x in e.elts):
        return [x.value for x in e.elts]
    return None


def route_values(proj, fn, expr, at=None):
    """Every string a route expression can denote, or None when that cannot be bounded: one constant (see const_route), or
    the elements of the literal sequence(s) a loop variable ranges over."""
    v = const_route(proj, fn, expr, at=at)
    if v is not None:
        return [v]
    if not isinstance(expr, ast.Name):
        return None
    out = []
    for n in ast.walk(fn.node):
        if isinstance(n, (ast.For, ast.comprehension)) and isinstance(n.target, ast.Name) and n.target.id == expr.id:
            vals = literal_strings(proj, fn, n.iter)
            if vals is None:
                return None
            out += [x for x in vals if x not in out]
    # every binding of the name must be one of those loops
    n_loops = sum(1 for n in ast.walk(fn.node) if isinstance(n, (ast.For, ast.comprehension)) and isinstance(n.target, ast.Name) and n.target.id == expr.id)
    n_stores = sum(1 for n in ast.walk(fn.node) if isinstance(n, ast.Name) and n.id == expr.id and isinstance(n.ctx, (ast.Store, ast.Del)))
    if not out or n_stores != n_loops:
        return None
    return out


def unroll_constant_loops(proj, fn, fn_node, limit=8):
    """`for r in ("a", "b"): BODY(r)` -> `BODY("a"); BODY("b"); r = "b"` when the sequence is a literal (or a constant
    bound to one) of at most `limit` strings, the loop has no else / break / continue, does not re-bind its variable and
    hands it to a call: the loop runs exactly once per element, so the straight-line form has the same paths.  The
    original node is not modified (a copy is returned when something was unrolled)."""
    def candidate(node):
        if node.orelse or not isinstance(node.target, ast.Name):
            return None
        vals = literal_strings(proj, fn, node.iter)
        if vals is None or len(vals) > limit:
            return None
        name = node.target.id
        for st in node.body:
            for x in ast.walk(st):
                if isinstance(x, (ast.Break, ast.Continue, ast.Yield, ast.YieldFrom, ast.FunctionDef, ast.Lambda)):
                    return None
                if isinstance(x, ast.Name) and x.id == name and isinstance(x.ctx, (ast.Store, ast.Del)):
                    return None
        handed = any(isinstance(c, ast.Call) and any(isinstance(a, ast.Name) and a.id == name for a in list(c.args) + [k.value for k in c.keywords])
                     for st in node.body for c in ast.walk(st))
        return vals if handed else None

    if not any(isinstance(n, ast.For) and candidate(n) is not None for n in ast.walk(fn_node)):
        return fn_node

    class U(ast.NodeTransformer):
        def visit_For(self, node):
            self.generic_visit(node)
            vals = candidate(node)
            if vals is None:
                return node
            name = node.target.id
            out = []
            for v in vals:
                class S(ast.NodeTransformer):
                    def visit_Name(self, x, v=v):
                        if x.id == name and isinstance(x.ctx, ast.Load):
                            return ast.copy_location(ast.Constant(value=v), x)
                        return x
                out += [S().visit(copy.deepcopy(st)) for st in node.body]
            out.append(ast.copy_location(ast.Assign(targets=[ast.Name(id=name, ctx=ast.Store())], value=ast.Constant(value=vals[-1]), lineno=node.lineno), node))
            return out

        def visit_FunctionDef(self, node):
            if node is not new:
                return node  # nested definitions are not part of this function's paths
            self.generic_visit(node)
            return node

    new = copy.deepcopy(fn_node)
    new = U().visit(new)
    ast.fix_missing_locations(new)
    return new


def _fold_constants(proj, fn, node):
    """Fold what became constant once the parameters were bound: built names, look-ups in literal tables (module / class level
    dicts keyed by constants), and single-assignment locals that now hold a string constant — to a fixed point."""

    def table(e):
        v = None
        if isinstance(e, ast.Dict):
            v = e
        elif isinstance(e, ast.Name):
            r = proj.resolve_name(fn.module, e.id)
            v = r[1][1] if (r and r[0] == "assign") else None
        elif isinstance(e, ast.Attribute) and isinstance(e.value, ast.Name):
            owner = None
            if fn.cls is not None and e.value.id in ("self", "cls", fn.self_name or ""):
                owner = fn.cls
            else:
                r = proj.resolve_name(fn.module, e.value.id)
                owner = r[1] if (r and r[0] == "class") else None
            m = owner.lookup(e.attr) if owner is not None else None
            v = m[2] if (m and m[1] == "assign") else None
        return v if isinstance(v, ast.Dict) and all(isinstance(k, ast.Constant) for k in v.keys) else None

    class Tables(ast.NodeTransformer):
        def visit_Subscript(self, n):
            self.generic_visit(n)
            if isinstance(n.ctx, ast.Load) and isinstance(n.slice, ast.Constant):
                d = table(n.value)
                if d is not None:
                    for k, v in zip(d.keys, d.values):
                        if k.value == n.slice.value and isinstance(v, ast.Constant):
                            return ast.copy_location(ast.Constant(value=v.value), n)
            return n

    for _ in range(4):
        before = ast.dump(node)
        node.body = [_FoldStrings().visit(Tables().visit(st)) for st in node.body]
        consts = {k: v for k, v in single_assignments(node).items() if isinstance(v, ast.Constant) and isinstance(v.value, str)}

        class Prop(ast.NodeTransformer):
            def visit_Name(self, x):
                if isinstance(x.ctx, ast.Load) and x.id in consts:
                    return ast.copy_location(ast.Constant(value=consts[x.id].value), x)
                return x

        if consts:
            node.body = [Prop().visit(st) for st in node.body]
        if ast.dump(node) == before:
            break
    return node


class _FoldStrings(ast.NodeTransformer):
    """Constant folding of the ways a name is built from string constants: f"_{'x'}", "_" + "x", "_%s" % "x", "_{}".format("x")."""

    @staticmethod
    def _s(e):
        return e.value if isinstance(e, ast.Constant) and isinstance(e.value, str) else None

    def visit_JoinedStr(self, n):
        self.generic_visit(n)
        parts = []
        for v in n.values:
            if isinstance(v, ast.Constant) and isinstance(v.value, str):
                parts.append(v.value)
            elif isinstance(v, ast.FormattedValue) and v.conversion == -1 and v.format_spec is None and self._s(v.value) is not None:
                parts.append(v.value.value)
            else:
                return n
        return ast.copy_location(ast.Constant(value="".join(parts)), n)

    def visit_BinOp(self, n):
        self.generic_visit(n)
        a = self._s(n.left)
        if a is None:
            return n
        if isinstance(n.op, ast.Add) and self._s(n.right) is not None:
            return ast.copy_location(ast.Constant(value=a + n.right.value), n)
        if isinstance(n.op, ast.Mod):
            args = n.right.elts if isinstance(n.right, ast.Tuple) else [n.right]
            if all(self._s(x) is not None for x in args):
                try:
                    return ast.copy_location(ast.Constant(value=a % tuple(x.value for x in args)), n)
                except (TypeError, ValueError):
                    return n
        return n

    def visit_Call(self, n):
        self.generic_visit(n)
        if isinstance(n.func, ast.Attribute) and n.func.attr == "format" and self._s(n.func.value) is not None and not n.keywords \
                and all(self._s(x) is not None for x in n.args):
            try:
                return ast.copy_location(ast.Constant(value=n.func.value.value.format(*[x.value for x in n.args])), n)
            except (IndexError, KeyError, ValueError):
                return n
        return n


class _FlowAliases(dict):
    """The flow-insensitive alias map (fallback) plus one map per CFG node's AST (state on entry of the node)."""

    def __init__(self, base, per_node):
        super().__init__(base)
        self.per_node = per_node

    def at(self, node):
        return self.per_node.get(id(node), self)


def fuse_generator_loops(proj, fn):
    """`for T in G(args): BODY`, G a generator function of the package whose every `yield E` ends an iteration of G's own loop
    (or of G's body) -> G's statements with each `yield E` replaced by `T = E; BODY` (loop fusion): the producer's reads and
    skips and the consumer's writes are one loop again.  Returns a FuncInfo with the fused body (the original untouched), or
    `fn` itself when nothing can be fused soundly (BODY breaks, G returns a value / has several frames, names clash)."""
    def generator_of(call):
        f = call.func
        target = None
        if isinstance(f, ast.Attribute) and isinstance(f.value, ast.Name):
            owner = None
            if fn.cls is not None and f.value.id in ("self", "cls", fn.self_name or ""):
                owner = fn.cls
            else:
                r = proj.resolve_name(fn.module, f.value.id)
                owner = r[1] if (r and r[0] == "class") else None
            m = owner.lookup(f.attr) if owner is not None else None
            target = m[2] if (m and m[1] == "method") else None
        elif isinstance(f, ast.Name):
            r = proj.resolve_name(fn.module, f.id)
            target = r[1] if (r and r[0] == "func") else None
        if target is None or target.node is fn.node:
            return None
        ys = [x for x in ast.walk(target.node) if isinstance(x, (ast.Yield, ast.YieldFrom))]
        if not ys or any(isinstance(x, ast.YieldFrom) for x in ys):
            return None
        if any(isinstance(x, ast.Return) and x.value is not None for x in ast.walk(target.node)):
            return None
        if any(isinstance(x, (ast.FunctionDef, ast.Lambda)) for st in target.node.body for x in ast.walk(st)):
            return None
        a = target.node.args
        if a.vararg or a.kwarg or call.keywords or any(isinstance(x, ast.Starred) for x in call.args):
            return None
        return target

    def fuse(loop):
        if loop.orelse or not isinstance(loop.iter, ast.Call):
            return None
        if any(isinstance(x, ast.Break) for st in loop.body for x in ast.walk(st)):
            return None
        G = generator_of(loop.iter)
        if G is None:
            return None
        params = [x.arg for x in G.node.args.posonlyargs + G.node.args.args]
        if G.kind in ("method", "classmethod") and params:
            params = params[1:]
        if len(params) != len(loop.iter.args):
            return None
        taken = {x.id for x in ast.walk(fn.node) if isinstance(x, ast.Name)} | {x.arg for x in ast.walk(fn.node) if isinstance(x, ast.arg)}
        own = {x.id for x in ast.walk(G.node) if isinstance(x, ast.Name) and isinstance(x.ctx, (ast.Store, ast.Del))} | set(params)
        ren = {nm: nm + "__g" for nm in own if nm in taken}
        body = copy.deepcopy([st for st in G.node.body if not (isinstance(st, ast.Expr) and isinstance(st.value, ast.Constant))])

        class R(ast.NodeTransformer):
            def visit_Name(self, x):
                return ast.copy_location(ast.Name(id=ren[x.id], ctx=x.ctx), x) if x.id in ren else x

        body = [R().visit(st) for st in body]
        ok = [True]

        class Y(ast.NodeTransformer):
            def visit_Expr(self, st):
                if isinstance(st.value, ast.Yield):
                    val = st.value.value if st.value.value is not None else ast.Constant(value=None)
                    bind = ast.copy_location(ast.Assign(targets=[copy.deepcopy(loop.target)], value=val, lineno=st.lineno), st)
                    return [bind] + copy.deepcopy(loop.body)
                return st

            def generic_visit(self, node):
                # a yield that is not the last statement of its block would need the consumer's `continue` re-routed
                for fld in ("body", "orelse", "finalbody"):
                    blk = getattr(node, fld, None)
                    if isinstance(blk, list):
                        for i, st in enumerate(blk):
                            if isinstance(st, ast.Expr) and isinstance(st.value, ast.Yield) and i != len(blk) - 1:
                                ok[0] = False
                return super().generic_visit(node)

        if any(isinstance(x, ast.Yield) and not any(isinstance(st, ast.Expr) and st.value is x for st in ast.walk(ast.Module(body=body, type_ignores=[])))
               for st0 in body for x in ast.walk(st0)):
            return None  # a yield used as an expression
        mod = Y().visit(ast.Module(body=body, type_ignores=[]))
        if not ok[0]:
            return None
        # the consumer's `continue` must land on the producer's loop: every yield sits (last) in a loop body or at top level
        pre = [ast.copy_location(ast.Assign(targets=[ast.Name(id=ren.get(prm, prm), ctx=ast.Store())], value=copy.deepcopy(arg), lineno=loop.lineno), loop)
               for prm, arg in zip(params, loop.iter.args) if not (isinstance(arg, ast.Name) and arg.id == ren.get(prm, prm))]
        return pre + mod.body

    class F(ast.NodeTransformer):
        done = False

        def visit_For(self, node):
            self.generic_visit(node)
            out = fuse(node)
            if out is None:
                return node
            F.done = True
            return out

        def visit_FunctionDef(self, node):
            if node is not new:
                return node
            self.generic_visit(node)
            return node

    if not any(isinstance(x, ast.For) and isinstance(x.iter, ast.Call) for x in ast.walk(fn.node)):
        return fn
    new = copy.deepcopy(fn.node)
    F.done = False
    new = F().visit(new)
    if not F.done:
        return fn
    ast.fix_missing_locations(new)
    key = ("fused", fn)
    return FuncInfo(name=fn.name, module=fn.module, node=new, cls=fn.cls, kind=fn.kind, prop=fn.prop)


class RobustWriterTables(WriterTables):
    """sa/tables.py's route table, completed for a dispatch by COMPUTED NAME: `writer = getattr(cls, f"write_{attribute}", None)`,
    called under whatever guard (`attribute in KEY_MAP and writer is not None`).  The attribute strings such a look-up can
    reach are the ones for which the built name is a method of the writer; for each of them the function is evaluated
    with the attribute fixed to that constant (branches pruned, KEY_MAP put in as its literal, the look-up resolved) and
    the writer method actually reached becomes the route — or none, when the guard sends it to the fallback."""

    def _dispatch(self):
        super()._dispatch()
        self._computed_name_dispatch()

    def _skip(self):
        """The skip list of the fallback sink, read on the function with a producer generator fused back into its loop
        (`for key, value in cls.iter_attributes(entity)` with the reads and skips inside the generator)."""
        fn = self.writer.methods.get("write_attributes")
        if fn is None:
            raise AnalysisError("anchor H5Writer.write_attributes not found")
        fused = fuse_generator_loops(self.p, fn)
        if fused is fn:
            return super()._skip()
        from ..tables import const_seq

        self.skip_keys = []
        loops = [n for n in ast.walk(fused.node) if isinstance(n, ast.For) and "attribute_map" in unparse(n.iter)
                 and isinstance(n.target, ast.Tuple) and len(n.target.elts) == 2 and isinstance(n.target.elts[0], ast.Name)]
        if not loops:
            raise AnalysisError("H5Writer.write_attributes: loop over attribute_map not found")
        loop = loops[-1]
        keyvar = loop.target.elts[0].id
        for n in ast.walk(loop):
            if isinstance(n, ast.If) and any(isinstance(s_, ast.Continue) for s_ in n.body):
                for c in ast.walk(n.test):
                    if isinstance(c, ast.Compare) and isinstance(c.left, ast.Name) and c.left.id == keyvar and isinstance(c.ops[0], ast.In):
                        seq = const_seq(self.p, self.writer_mod, c.comparators[0], self.writer)
                        if seq is not None:
                            self.skip_keys += list(seq)

    def _computed_name_dispatch(self):
        from ..kinds import reach
        from ..normalize import Normalizer

        fn0 = self.writer.methods["update_field"]
        attr = self.uf_attr
        fn = Normalizer(self.p).view(fn0)
        from ..normalize import unroll_row_loops
        import dataclasses as _dc

        _node, _k = unroll_row_loops(fn.node)  # a dispatch written as a literal row table walked by a for..else
        if _k:
            fn = _dc.replace(fn, node=_node)
        defs = single_assignments(fn.node)
        methods = set(self.writer.methods)

        def built(e, value):
            """the string the name expression denotes when the attribute is `value`"""
            class A(ast.NodeTransformer):
                def visit_Name(self, x):
                    return ast.copy_location(ast.Constant(value=value), x) if (x.id == attr and isinstance(x.ctx, ast.Load)) else x
            r = _FoldStrings().visit(A().visit(copy.deepcopy(expanded(e, fn.node, defs))))
            return r.value if isinstance(r, ast.Constant) and isinstance(r.value, str) else None

        def is_lookup(c):
            return isinstance(c, ast.Call) and isinstance(c.func, ast.Name) and c.func.id == "getattr" and len(c.args) >= 2 \
                and isinstance(c.args[0], ast.Name) and c.args[0].id in ("cls", "self", self.writer.name) \
                and any(isinstance(x, ast.Name) and x.id == attr for x in ast.walk(expanded(c.args[1], fn.node, defs)))

        lookups = [c for c in ast.walk(fn.node) if is_lookup(c)]
        if not lookups:
            return
        marker = "\x00"
        cands = []
        for c in lookups:
            pat = built(c.args[1], marker)
            if pat is None or pat.count(marker) != 1:
                raise AnalysisError(f"h5_writer.py:{fn0.node.lineno}: writer looked up by a computed name that cannot be evaluated")
            pre, suf = pat.split(marker)
            for m in sorted(methods):
                if m.startswith(pre) and m.endswith(suf) and len(m) > len(pre) + len(suf):
                    x = m[len(pre): len(m) - len(suf)] if suf else m[len(pre):]
                    if x not in cands:
                        cands.append(x)
        # locals that hold the looked-up writer
        holders = {}
        for n in ast.walk(fn.node):
            if isinstance(n, ast.Assign) and len(n.targets) == 1 and isinstance(n.targets[0], ast.Name) and is_lookup(n.value):
                holders[n.targets[0].id] = n.value

        # the package's KEY_MAP (kept by name in the views) as a literal, so that `attribute in KEY_MAP` can be decided
        class Lit(ast.NodeTransformer):
            def visit_Compare(self_, n):
                self_.generic_visit(n)
                if len(n.ops) == 1 and isinstance(n.ops[0], (ast.In, ast.NotIn)) and isinstance(n.comparators[0], ast.Name):
                    r = self.p.resolve_name(fn.module, n.comparators[0].id)
                    v = r[1][1] if (r and r[0] == "assign") else None
                elif len(n.ops) == 1 and isinstance(n.ops[0], (ast.In, ast.NotIn)) and isinstance(n.comparators[0], ast.Attribute) \
                        and isinstance(n.comparators[0].value, ast.Name) and n.comparators[0].value.id in ("cls", "self", self.writer.name):
                    m = self.writer.lookup(n.comparators[0].attr)
                    v = m[2] if (m and m[1] == "assign") else None
                else:
                    return n
                if isinstance(v, ast.Call) and isinstance(v.func, ast.Name) and v.func.id in ("frozenset", "set", "tuple", "list") and len(v.args) == 1:
                    v = v.args[0]  # frozenset(("a", "b")) holds what its literal argument holds
                if isinstance(v, ast.Dict) and all(isinstance(k, ast.Constant) for k in v.keys):
                    n.comparators = [ast.copy_location(ast.Dict(keys=[ast.Constant(value=k.value) for k in v.keys],
                                                                 values=[ast.Constant(value=None) for _ in v.keys]), n.comparators[0])]
                elif isinstance(v, (ast.List, ast.Tuple, ast.Set)) and all(isinstance(k, ast.Constant) for k in v.elts):
                    n.comparators = [ast.copy_location(ast.Tuple(elts=[ast.Constant(value=k.value) for k in v.elts], ctx=ast.Load()), n.comparators[0])]
                return n

        node = Lit().visit(copy.deepcopy(fn.node))
        ast.fix_missing_locations(node)
        g = CFG(node)

        def method_of(e):
            ch = chain(e)
            if ch and ch[0] in ("cls", self.writer.name, "self") and len(ch) == 2 and ch[1] in methods:
                return ch[1]
            return None

        changed = False
        for x in cands:
            if x in self.routes:
                continue
            facts = {"const:" + attr: x}
            for nm, c in holders.items():
                facts["notnone:" + nm] = built(c.args[1], x) in methods
            calls = []
            for nd in reach(g, [g.entry], attr, facts):
                if nd.ast is None or isinstance(nd.ast, list) or nd.kind == "with":
                    continue
                for c in ast.walk(nd.ast):
                    if not isinstance(c, ast.Call):
                        continue
                    m = method_of(c.func)
                    if m is None and isinstance(c.func, ast.Name) and c.func.id in holders:
                        m = built(holders[c.func.id].args[1], x)
                        m = m if m in methods else None
                    elif m is None and is_lookup(c.func):
                        m = built(c.func.args[1], x)
                        m = m if m in methods else None
                    if m is not None and m.startswith(("write_", "update_")) and m != "write_entity_type" and m not in calls:
                        calls.append(m)
            if len(calls) == 1 and calls[0] != self.fallback:
                self.routes[x] = calls[0]
                changed = True
            elif len(calls) > 1 and self.fallback not in calls:
                raise AnalysisError(f"h5_writer.py:{fn0.node.lineno}: unrecognised dispatcher branch for attribute {x!r} ({calls})")
        if changed:
            by_handler: dict = {}
            for r, h in self.routes.items():
                by_handler.setdefault(h, []).append(r)
            self.route_groups = [(rs, h) for h, rs in by_handler.items()]
            self.value_routes = [r for r, h in self.routes.items() if h == "write_data_values"]
            self.array_routes = [r for r, h in self.routes.items() if h == "write_array_attribute"]
            self.dedicated_routes = [r for r, h in self.routes.items() if h not in ("write_data_values", "write_array_attribute")]


class RobustPersistEngine(PersistEngine):
    # ------------------------------------------------------------------------------------------------ CFG
    def norm_node(self, fn):
        """The function as the engine reads it: loops over a literal sequence of routes unrolled, a trailing
        availability guard clause folded into the nested form."""
        key = ("norm-node", fn)
        if key not in self._memo:
            self._memo[key] = fold_tail_guard(unroll_constant_loops(self.p, fn, fn.node), self.t.fallback)
        return self._memo[key]

    def cfg(self, fn):
        if fn not in self._cfg:
            self._cfg[fn] = CFG(self.norm_node(fn))
        return self._cfg[fn]

    # --------------------------------------------------------------------------------------------- aliases
    def _aliases(self, fn, K):
        key = ("flow-aliases", fn)  # the class plays no part in what a local aliases
        if key not in self._memo:
            self._memo[key] = self._flow_aliases(fn, K)
        return self._memo[key]

    def _insensitive_aliases(self, fn, K):
        """sa/persist.py's flow-insensitive alias map, made to terminate: that fixpoint re-binds a name every time it meets an
        assignment from a different field (`c = self.a` in one branch, `c = self.b` in the other flips for ever); here a
        name keeps the first field found and the iteration only goes on while NEW names appear."""
        sn = fn.self_name
        out: dict = {}
        changed = True
        while changed:
            changed = False
            for n in ast.walk(fn.node):
                if isinstance(n, ast.Assign) and len(n.targets) == 1 and isinstance(n.targets[0], ast.Name) and n.targets[0].id not in out:
                    f = self._root_field(n.value, sn, out, K)
                    if f and f[0] == "self":
                        out[n.targets[0].id] = f[1]
                        changed = True
        return out

    def _flow_aliases(self, fn, K):
        base = self._insensitive_aliases(fn, K)
        if not base:
            return base
        sn = fn.self_name
        g = self.cfg(fn)

        def as_map(env):
            out = {}
            for nm, fld in sorted(env):
                out[nm] = fld
            return out

        def bound_names(target):
            return {x.id for x in ast.walk(target) if isinstance(x, ast.Name) and isinstance(x.ctx, (ast.Store, ast.Del))}

        def transfer(node, env):
            src = node.ast
            if src is None or isinstance(src, list) or node.kind in ("entry", "exit", "rexit", "withexit", "break", "continue", "def"):
                return env
            if node.kind == "except":
                return frozenset(p for p in env if p[0] != getattr(src, "name", None))
            stmts = [src]
            kill, gen = set(), set()
            for st in stmts:
                if node.kind == "fornext":
                    kill |= {x.id for x in ast.walk(st) if isinstance(x, ast.Name)}
                    continue
                if node.kind == "with":
                    for it in st.items:
                        if it.optional_vars is not None:
                            kill |= bound_names(it.optional_vars)
                    continue
                simple = None
                if isinstance(st, ast.Assign) and len(st.targets) == 1 and isinstance(st.targets[0], ast.Name):
                    simple = (st.targets[0].id, st.value)
                elif isinstance(st, ast.AnnAssign) and isinstance(st.target, ast.Name) and st.value is not None:
                    simple = (st.target.id, st.value)
                for x in ast.walk(st):
                    if isinstance(x, ast.Name) and isinstance(x.ctx, (ast.Store, ast.Del)):
                        kill.add(x.id)
                if simple is not None:
                    r = self._root_field(simple[1], sn, as_map(env), K)
                    if r and r[0] == "self":
                        gen.add((simple[0], r[1]))
            out = frozenset(p for p in env if p[0] not in kill) | frozenset(gen)
            if any(lab == "exc" for _, lab in node.succ):
                # the statement may be interrupted before it (re)binds: the handler sees either state
                return {"exc": env | out, None: out}
            return out

        IN = forward(g, frozenset(), transfer, lambda a, b: a | b)
        per_node: dict = {}
        merged: dict = {}
        for node, env in IN.items():
            if node.ast is None or isinstance(node.ast, list):
                continue
            merged.setdefault(id(node.ast), set()).update(env)
        for k, env in merged.items():
            per_node[k] = as_map(env)
        return _FlowAliases(base, per_node)

    def events(self, fn, K, node, aliases):
        if isinstance(aliases, _FlowAliases):
            aliases = aliases.at(node)
        yield from super().events(fn, K, node, aliases)

    # ------------------------------------------------------------------------------------------ gateway calls
    def _call_events(self, fn, K, n, sn, aliases):
        f = n.func
        if isinstance(f, ast.Attribute) and f.attr == GATEWAY:
            ent, route_expr = gateway_args(self.p, n)
            if ent is not None:
                ent_x = ent if (isinstance(ent, ast.Name) and ent.id == sn) else expanded(ent, fn.node)
                recv = "self" if (isinstance(ent_x, ast.Name) and ent_x.id == sn) else unparse(ent)
                route = const_route(self.p, fn, route_expr, at=n, node=self.norm_node(fn))
                call = n
                if not n.args:  # keyword spelling: the engine's bookkeeping reads args[0]
                    call = ast.copy_location(ast.Call(func=n.func, args=[ent] + ([route_expr] if route_expr is not None else []), keywords=[]), n)
                yield ("persist", recv, route, call)
                return
        ent = sink_entity(n, self.t.fallback)
        if ent is not None:
            # the fallback sink called directly: what `update_attribute(E, "attributes")` ends in
            ent_x = ent if (isinstance(ent, ast.Name) and ent.id == sn) else expanded(ent, fn.node)
            recv = "self" if (isinstance(ent_x, ast.Name) and ent_x.id == sn) else unparse(ent)
            yield ("persist", recv, "attributes", ast.copy_location(ast.Call(func=n.func, args=[ent, ast.Constant(value="attributes")], keywords=[]), n))
            return
        target = None
        if isinstance(f, ast.Attribute) and f.attr not in _MUTATORS:
            target = self.resolve_self_call(fn, K, n)
        elif isinstance(f, ast.Name) and n.args and isinstance(n.args[0], ast.Name) and n.args[0].id == sn:
            target = self._module_helper(fn, f.id)
        if target is not None:
            spec = self._specialise(fn, target, n)
            if spec is not target or isinstance(f, ast.Name):
                yield ("call", spec, n)
                return
        yield from super()._call_events(fn, K, n, sn, aliases)

    # ------------------------------------------------------------------------------- helpers taking the route
    def _module_helper(self, fn, name):
        """A module-level function handed `self` as its first argument: analysed like a method of the class."""
        r = self.p.resolve_name(fn.module, name)
        if not (r and r[0] == "func"):
            return None
        target = r[1]
        if target.cls is not None or not target.params or fn.cls is None:
            return None
        key = ("modhelper", target, fn.cls)
        if key not in self._memo:
            self._memo[key] = FuncInfo(name=target.name, module=target.module, node=target.node, cls=fn.cls, kind="method")
        return self._memo[key]

    def _specialise(self, fn, target, call):
        """`self._persist("vertices")` with `def _persist(self, route): ...update_attribute(self, route)`: the helper with
        its route parameter(s) replaced by the constant of this call site (a FuncInfo per distinct constant binding)."""
        a = target.node.args
        if a.vararg or a.kwarg or any(isinstance(x, ast.Starred) for x in call.args) or any(k.arg is None for k in call.keywords):
            return target
        # parameters of the helper that reach a gateway call as its route
        params = [x.arg for x in a.posonlyargs + a.args + a.kwonlyargs]
        used = set()
        tdefs = single_assignments(target.node)

        def through_locals(e):
            """parameters a name-building expression depends on, single-assignment locals and table look-ups included:
            `attribute = TABLE[association]; setattr(self, f"_{attribute}", v)` depends on `association`"""
            if not isinstance(e, (ast.Name, ast.JoinedStr, ast.BinOp, ast.Subscript)) and not (
                    isinstance(e, ast.Call) and isinstance(e.func, ast.Attribute) and e.func.attr == "format"):
                return set()
            if isinstance(e, ast.Name) and e.id not in tdefs:
                return {e.id} & set(params)
            return {y.id for y in ast.walk(expanded(e, target.node, tdefs)) if isinstance(y, ast.Name) and y.id in params}

        for c in ast.walk(target.node):
            if isinstance(c, ast.Call) and isinstance(c.func, ast.Attribute) and c.func.attr == GATEWAY:
                _e, r = gateway_args(self.p, c)
                if r is not None:
                    used |= through_locals(r)
            elif isinstance(c, ast.Call):
                # handed on to a further helper, possibly inside the name it builds: setattr(self, f"_{attribute}", value)
                for x in list(c.args) + [k.value for k in c.keywords]:
                    used |= through_locals(x)
            elif isinstance(c, ast.For) and isinstance(c.iter, ast.Name) and c.iter.id in params:
                used.add(c.iter.id)  # the routes handed over as a sequence
        rebound = {x.id for x in ast.walk(target.node) if isinstance(x, ast.Name) and isinstance(x.ctx, (ast.Store, ast.Del))}
        used -= rebound
        if not used:
            return target
        pos = [x.arg for x in a.posonlyargs + a.args]
        args = list(call.args)
        if target.kind in ("method", "classmethod", "setter", "getter") and isinstance(call.func, ast.Attribute):
            recv = call.func.value
            ch = chain(call.func)
            implicit_self = (isinstance(recv, ast.Name) and recv.id in ("self", "cls", fn.self_name or "")) or bool(ch and ch[0] == "super()")
            if implicit_self:
                pos = pos[1:]
        binding = dict(zip(pos, args))
        for k in call.keywords:
            binding[k.arg] = k.value
        defaults = dict(zip([x.arg for x in a.posonlyargs + a.args][len(a.posonlyargs + a.args) - len(a.defaults):], a.defaults))
        for k, d in zip(a.kwonlyargs, a.kw_defaults):
            if d is not None:
                defaults[k.arg] = d
        consts = {}
        for prm in sorted(used):
            e = binding.get(prm, defaults.get(prm))
            v = const_route(self.p, fn, e) if prm in binding else (e.value if isinstance(e, ast.Constant) and isinstance(e.value, str) else None)
            if v is None and e is not None:
                seq = literal_strings(self.p, fn, e) if prm in binding else (
                    [x.value for x in e.elts] if isinstance(e, (ast.List, ast.Tuple)) and e.elts and all(
                        isinstance(x, ast.Constant) and isinstance(x.value, str) for x in e.elts) else None)
                v = tuple(seq) if seq else None
            if v is not None:
                consts[prm] = v
        if not consts:
            return target
        key = ("spec", target, tuple(sorted(consts.items())))
        if key not in self._memo:
            node = copy.deepcopy(target.node)

            class S(ast.NodeTransformer):
                def visit_Name(self, x):
                    if isinstance(x.ctx, ast.Load) and x.id in consts:
                        v = consts[x.id]
                        if isinstance(v, tuple):
                            return ast.copy_location(ast.Tuple(elts=[ast.Constant(value=y) for y in v], ctx=ast.Load()), x)
                        return ast.copy_location(ast.Constant(value=v), x)
                    return x

            node.body = [S().visit(st) for st in node.body]
            node = _fold_constants(self.p, target, node)
            ast.fix_missing_locations(node)
            self._memo[key] = FuncInfo(name=target.name, module=target.module, node=node, cls=target.cls, kind=target.kind, prop=target.prop)
        return self._memo[key]

    # ----------------------------------------------------------------------------------------- gateway guard
    def _gateway_guard(self, fn, K, node) -> bool:
        """`if self.workspace:` / `if self.parent is not None:` / `if self._geoh5 and <writable>:` around nothing but
        persistence calls: gateway availability, treated as always true."""
        st = node.stmt
        if not isinstance(st, ast.If) or st.orelse or not st.body or not all(is_gateway_stmt(x, self.t.fallback) for x in st.body):
            return False
        # the test must not depend on the assigned value, directly or through a local
        params = set(fn.params[1:]) | {a.arg for a in fn.node.args.kwonlyargs}
        defs = single_assignments(fn.node)
        test = expanded(st.test, fn.node, defs)
        if any(isinstance(x, ast.Name) and x.id in params for x in ast.walk(test)):
            return False
        # ... and must be about the gateway itself: the members through which the entity reaches its workspace
        sn = fn.self_name
        return any(isinstance(x, ast.Attribute) and x.attr.lstrip("_") in GATEWAY_MEMBERS and isinstance(x.value, ast.Name) and x.value.id == sn
                   for x in ast.walk(test))
