"""Helpers of the C04 rules: bindings of locals (every definition, tuple unpacking resolved position by position, the
`_ret = None` initialisations of expanded helpers ignored), expansion of aliases / temporaries / hoisted module and class
level values, reaching definitions on the CFG, and the set of conditions that guard a statement (nested ifs, guard clauses,
De Morgan) — so that the rules decide by what a site DOES and not by where it is written or how its locals are spelled."""

from __future__ import annotations

import ast
import copy
from dataclasses import replace

from ..cfg import CFG, forward
from ..model import unparse
from ..normalize import rule_named_constants

_DEPTH = 10


# ---------------------------------------------------------------------- bindings
def _is_ret_init(name: str, value) -> bool:
    """`_ret__iN = None`: the initialisation helper expansion puts in front of an expanded body."""
    return name.startswith("_ret__i") and isinstance(value, ast.Constant) and value.value is None


def _pos(value, i: int):
    """The expression standing for position `i` of an unpacked value."""
    if isinstance(value, (ast.Tuple, ast.List)) and not any(isinstance(e, ast.Starred) for e in value.elts) and i < len(value.elts):
        return value.elts[i]
    if isinstance(value, ast.Subscript) and isinstance(value.slice, ast.Slice) and value.slice.lower is None and value.slice.step is None:
        value = value.value  # x[:n] unpacked position by position
    return ast.copy_location(ast.Subscript(value=value, slice=ast.Constant(value=i), ctx=ast.Load()), value)


def params_of(fn_node) -> set:
    a = fn_node.args
    out = {x.arg for x in a.posonlyargs + a.args + a.kwonlyargs}
    if a.vararg:
        out.add(a.vararg.arg)
    if a.kwarg:
        out.add(a.kwarg.arg)
    return out


class Defs:
    """Every binding of every local of a function.  `self.all[name]` = list of defining expressions (None = opaque: loop
    target, augmented assignment, `except ... as`, starred unpacking); tuple targets are resolved position by position,
    through a name bound to tuples when needed."""

    def __init__(self, fn_node):
        self.fn = fn_node
        self.params = params_of(fn_node)
        self.all: dict = {}
        pending = []  # (target tuple, value) whose value is a Name: resolved once the simple bindings are known
        for n in ast.walk(fn_node):
            if isinstance(n, ast.Assign):
                for t in n.targets:
                    self._bind(t, n.value, pending)
            elif isinstance(n, ast.AnnAssign) and n.value is not None:
                self._bind(n.target, n.value, pending)
            elif isinstance(n, ast.NamedExpr):
                self._bind(n.target, n.value, pending)
            elif isinstance(n, ast.AugAssign):
                if isinstance(n.target, ast.Name):
                    self.all.setdefault(n.target.id, []).append(None)
            elif isinstance(n, (ast.With, ast.AsyncWith)):
                for it in n.items:
                    if it.optional_vars is not None:
                        self._bind(it.optional_vars, it.context_expr, pending)
            elif isinstance(n, (ast.For, ast.AsyncFor, ast.comprehension)):
                for x in ast.walk(n.target):
                    if isinstance(x, ast.Name):
                        self.all.setdefault(x.id, []).append(None)
            elif isinstance(n, ast.ExceptHandler) and n.name:
                self.all.setdefault(n.name, []).append(None)
        for tgt, val in pending:
            srcs = [v for v in self.all.get(val.id, []) if v is not None] if val.id not in self.params else []
            if srcs and all(isinstance(v, (ast.Tuple, ast.List)) and len(v.elts) == len(tgt.elts) for v in srcs):
                for v in srcs:
                    for i, t in enumerate(tgt.elts):
                        self._bind(t, v.elts[i], [])
            else:
                for i, t in enumerate(tgt.elts):
                    self._bind(t, _pos(val, i), [])

    def _bind(self, target, value, pending):
        if isinstance(target, ast.Name):
            if not _is_ret_init(target.id, value):
                self.all.setdefault(target.id, []).append(value)
        elif isinstance(target, (ast.Tuple, ast.List)):
            if any(isinstance(t, ast.Starred) for t in target.elts):
                for x in ast.walk(target):
                    if isinstance(x, ast.Name):
                        self.all.setdefault(x.id, []).append(None)
            elif isinstance(value, ast.Name):
                pending.append((target, value))
            else:
                for i, t in enumerate(target.elts):
                    self._bind(t, _pos(value, i), pending)
        # attribute / subscript targets bind no local

    def of(self, name: str) -> list:
        """The known defining expressions of a local (opaque bindings left out)."""
        return [v for v in self.all.get(name, []) if v is not None]

    def single(self, name: str):
        """The only definition of a local bound exactly once (never a parameter), else None."""
        if name in self.params:
            return None
        vals = self.all.get(name, [])
        return vals[0] if len(vals) == 1 and vals[0] is not None else None

    def rebound(self, name: str) -> bool:
        return name in self.all


def _outer_value(name_or_attr, fn, project):
    """Value of a module-level name / class-level constant referred to from `fn` (hoisted tables and constants), else None."""
    if fn is None or project is None:
        return None
    e = name_or_attr
    if isinstance(e, ast.Name):
        r = project.resolve_name(fn.module, e.id)
        if r and r[0] == "assign":
            # the package's own named mapping tables (the rules refer to them by name) stay as they are
            return None if isinstance(r[1][1], ast.Dict) and e.id in rule_named_constants() else r[1][1]
        return None
    if isinstance(e, ast.Attribute) and isinstance(e.value, ast.Name):
        owner = None
        if fn.cls is not None and e.value.id in ("self", "cls", fn.self_name or ""):
            owner = fn.cls
        else:
            r = project.resolve_name(fn.module, e.value.id)
            if r and r[0] == "class":
                owner = r[1]
        if owner is None:
            return None
        m = owner.lookup(e.attr)
        if m and m[1] == "assign" and m[2] is not None and (e.attr.isupper() or (e.attr.startswith("_") and isinstance(m[2], (ast.List, ast.Tuple, ast.Dict, ast.Set)))):
            return _in_class_scope(m[2], m[0])
    return None


def _in_class_scope(value, owner, _depth=0):
    """A class-level value with the bare names it reads from its own class body replaced by their values."""

    class C(ast.NodeTransformer):
        def visit_Name(self, n):
            v = owner.class_assigns.get(n.id)
            if isinstance(n.ctx, ast.Load) and v is not None and v[0] is not None and _depth < 4:
                return ast.copy_location(_in_class_scope(v[0], owner, _depth + 1), n)
            return n

    return C().visit(copy.deepcopy(value))


class Scope:
    """Expansion of expressions of one (normalised) function: locals bound once -> their definition, names of the enclosing
    module / constants of the class -> their value."""

    def __init__(self, fn, project=None, keep=()):
        self.fn = fn
        self.node = fn.node
        self.p = project
        self.defs = Defs(fn.node)
        self.keep = set(keep)  # locals the caller identifies by role: never replaced by their definition

    def expand(self, expr, _depth=0):
        if expr is None or _depth > _DEPTH:
            return expr
        sc = self

        class E(ast.NodeTransformer):
            def visit_Name(self, n):
                if not isinstance(n.ctx, ast.Load):
                    return n
                if n.id in sc.keep:
                    return n
                v = sc.defs.single(n.id)
                if v is None and n.id not in sc.defs.params and not sc.defs.rebound(n.id):
                    v = _outer_value(n, sc.fn, sc.p)
                if v is not None:
                    return ast.copy_location(sc.expand(copy.deepcopy(v), _depth + 1), n)
                return n

            def visit_Attribute(self, n):
                if isinstance(n.ctx, ast.Load):
                    v = _outer_value(n, sc.fn, sc.p)
                    if v is not None:
                        return ast.copy_location(sc.expand(copy.deepcopy(v), _depth + 1), n)
                self.generic_visit(n)
                return n

            def visit_Lambda(self, n):
                return n

        return E().visit(copy.deepcopy(expr))

    def text(self, expr) -> str:
        return unparse(self.expand(expr))

    def sources(self, expr, _seen=None, _depth=0) -> list:
        """The alternative expanded expressions an expression may stand for: a local bound on several paths yields one
        per definition (a parameter or an opaque binding yields the bare name)."""
        _seen = _seen or set()
        if isinstance(expr, ast.Name) and expr.id not in self.keep and _depth <= _DEPTH:
            vals = self.defs.all.get(expr.id, [])
            if vals and expr.id not in _seen:
                out = [expr] if expr.id in self.defs.params else []  # a re-bound parameter: the value passed in, or one of its re-bindings
                for v in vals:
                    out += [expr] if v is None else self.sources(v, _seen | {expr.id}, _depth + 1)
                return out
        return [self.expand(expr)]


def inline_aliases(fn_node):
    """Copy of a function with every local that is bound once to a side-effect-free expression over things that are never
    re-bound — a plain path (`ws = self.workspace`, `parent = entity.parent`), a constant, a test read once into a local
    (`is_data = isinstance(entity, Data)`, `missing = self.keys is None`) — replaced by that expression wherever it is read."""
    defs = Defs(fn_node)

    def pure(e, nm):
        if isinstance(e, ast.Name):
            return e.id != nm and (e.id in ("self", "cls") or e.id in alias or not defs.rebound(e.id))  # parameters / globals never re-bound
        if isinstance(e, ast.Attribute):
            return pure(e.value, nm)
        if isinstance(e, ast.Constant):
            return True
        if isinstance(e, ast.Tuple):
            return all(pure(x, nm) for x in e.elts)
        if isinstance(e, ast.Compare):
            return pure(e.left, nm) and all(pure(x, nm) for x in e.comparators)
        if isinstance(e, ast.BoolOp):
            return all(pure(x, nm) for x in e.values)
        if isinstance(e, ast.UnaryOp) and isinstance(e.op, ast.Not):
            return pure(e.operand, nm)
        if isinstance(e, ast.Call) and isinstance(e.func, ast.Name) and e.func.id in ("isinstance", "hasattr") and not e.keywords:
            return all(pure(x, nm) for x in e.args)
        return False

    alias: dict = {}
    grown = True
    while grown:  # aliases of aliases
        grown = False
        for nm in defs.all:
            v = defs.single(nm)
            if nm not in alias and v is not None and not isinstance(v, ast.Tuple) and pure(v, nm):
                alias[nm] = v
                grown = True
    if not alias:
        return fn_node

    class A(ast.NodeTransformer):
        def visit_Name(self, n):
            if isinstance(n.ctx, ast.Load) and n.id in alias:
                return ast.copy_location(A().visit(copy.deepcopy(alias[n.id])), n)
            return n

    new = copy.deepcopy(fn_node)
    new.body = [A().visit(s) for s in new.body]
    return ast.fix_missing_locations(new)


def nview(ctx, spec_or_fn):
    """Normalised view of a function (private helpers expanded, hoisted literals substituted — ctx.view) with its path
    aliases inlined."""
    fn = ctx.view(spec_or_fn)
    key = ("c04.nview", id(fn.node))
    if key not in ctx.cache:
        ctx.cache[key] = replace(fn, node=inline_aliases(fn.node))
    return ctx.cache[key]


# ---------------------------------------------------------------------- reaching definitions
PARAM = "<parameter>"
OPAQUE = "<opaque>"


def _stmt_bindings(node):
    """(name, value | OPAQUE) bound by one CFG node."""
    out = []
    a = node.ast
    if a is None or isinstance(a, list):
        return out

    def bind(t, v):
        if isinstance(t, ast.Name):
            out.append((t.id, v))
        elif isinstance(t, (ast.Tuple, ast.List)):
            for i, x in enumerate(t.elts):
                if isinstance(x, ast.Starred):
                    bind(x.value, OPAQUE)
                else:
                    bind(x, OPAQUE if v is OPAQUE or isinstance(v, ast.Name) else _pos(v, i))

    if node.kind == "stmt":
        if isinstance(a, ast.Assign):
            for t in a.targets:
                bind(t, a.value)
        elif isinstance(a, ast.AnnAssign) and a.value is not None:
            bind(a.target, a.value)
        elif isinstance(a, ast.AugAssign):
            bind(a.target, OPAQUE)
    elif node.kind == "with":
        for it in a.items:
            if it.optional_vars is not None:
                bind(it.optional_vars, it.context_expr)
    elif node.kind == "fornext":
        for x in ast.walk(a):
            if isinstance(x, ast.Name):
                out.append((x.id, OPAQUE))
    elif node.kind == "except" and getattr(a, "name", None):
        out.append((a.name, OPAQUE))
    if node.kind in ("stmt", "test", "return", "foriter", "assert"):
        for x in ast.walk(a):
            if isinstance(x, ast.NamedExpr) and isinstance(x.target, ast.Name):
                out.append((x.target.id, x.value))
    return [(n, v) for n, v in out if not (v is not OPAQUE and _is_ret_init(n, v))]


class Reaching:
    """Reaching definitions of the locals of a function: `at(stmt, name)` = the values (expressions, PARAM, OPAQUE) that
    may be bound to `name` when the statement starts."""

    def __init__(self, fn_node):
        self.g = CFG(fn_node)
        self.values = {PARAM: PARAM}  # def id -> value
        binds = {}
        for n in self.g.nodes:
            bs = _stmt_bindings(n)
            if bs:
                binds[n] = bs
        init = frozenset((p, PARAM) for p in params_of(fn_node))

        def transfer(n, state):
            bs = binds.get(n)
            if not bs:
                return state
            names = {b[0] for b in bs}
            out = {(nm, d) for nm, d in state if nm not in names}
            for i, (nm, v) in enumerate(bs):
                did = (n.id, i)
                self.values[did] = v
                out.add((nm, did))
            return frozenset(out)

        self.IN = forward(self.g, init, transfer, lambda a, b: a | b)
        self.by_stmt = {}
        for n in self.g.nodes:
            if n.ast is not None and not isinstance(n.ast, list):
                self.by_stmt.setdefault(id(n.ast), n)
                self.by_stmt.setdefault(id(n.stmt), n)

    def node_of(self, stmt):
        return self.by_stmt.get(id(stmt))

    def at(self, stmt_or_node, name: str) -> list:
        n = stmt_or_node if hasattr(stmt_or_node, "succ") else self.node_of(stmt_or_node)
        if n is None or n not in self.IN:
            return [(None, OPAQUE)]
        return sorted([(d, self.values[d]) for nm, d in self.IN[n] if nm == name], key=lambda x: (0, (0, 0)) if x[0] is PARAM else (1, x[0]))

    def def_node(self, did):
        return self.g.nodes[did[0]] if isinstance(did, tuple) else None


# ---------------------------------------------------------------------- guards
def atoms(test, polarity: bool = True) -> list:
    """A condition known to hold with the given polarity, as the list of (atomic test, polarity) it implies:
    `a and b` true -> a true, b true; `a or b` false -> a false, b false (De Morgan); `not x` flips.  A disjunction
    that holds (or a conjunction that fails) implies no single atom: it is kept whole."""
    if isinstance(test, ast.UnaryOp) and isinstance(test.op, ast.Not):
        return atoms(test.operand, not polarity)
    if isinstance(test, ast.BoolOp) and ((isinstance(test.op, ast.And) and polarity) or (isinstance(test.op, ast.Or) and not polarity)):
        out = []
        for v in test.values:
            out += atoms(v, polarity)
        return out
    return [(test, polarity)]


_JUMPS = (ast.Continue, ast.Return, ast.Raise, ast.Break)


def guards_of(fn_node, target):
    """[(test, polarity, holder)] for every condition that holds when `target` (a node inside the function) is evaluated:
    the enclosing ifs (with the branch taken), the guard clauses `if t: continue / return / raise / break` that precede
    it in an enclosing block, and the `if` clauses of an enclosing comprehension.  `holder` is the statement carrying the
    condition."""
    path = []

    def find(node, trail):
        if node is target:
            path.extend(trail)
            return True
        for fld, val in ast.iter_fields(node):
            if isinstance(val, list):
                for i, ch in enumerate(val):
                    if isinstance(ch, ast.AST) and find(ch, trail + [(node, fld, i)]):
                        return True
            elif isinstance(val, ast.AST):
                if find(val, trail + [(node, fld, None)]):
                    return True
        return False

    if not find(fn_node, []):
        return []
    out = []
    for node, fld, i in path:
        if isinstance(node, ast.If) and fld in ("body", "orelse"):
            out.append((node.test, fld == "body", node))
        if isinstance(node, ast.IfExp) and fld in ("body", "orelse"):
            out.append((node.test, fld == "body", node))
        if isinstance(node, ast.While) and fld == "body":
            out.append((node.test, True, node))
        if fld in ("body", "orelse", "finalbody") and i is not None and isinstance(getattr(node, fld), list):
            for prev in getattr(node, fld)[:i]:
                if isinstance(prev, ast.If) and prev.body and isinstance(prev.body[-1], _JUMPS) and not prev.orelse:
                    out.append((prev.test, False, prev))
                elif isinstance(prev, ast.If) and prev.orelse and isinstance(prev.orelse[-1], _JUMPS) and not isinstance(prev.body[-1], _JUMPS):
                    out.append((prev.test, True, prev))
        if isinstance(node, (ast.ListComp, ast.SetComp, ast.GeneratorExp, ast.DictComp)) and fld in ("elt", "key", "value"):
            for g in node.generators:
                for c in g.ifs:
                    out.append((c, True, node))
    return out


def contains(outer, inner) -> bool:
    return any(x is inner for x in ast.walk(outer))


def enclosing(fn_node, target, kinds):
    """The innermost node of one of `kinds` that contains `target`, else None."""
    best = None
    for n in ast.walk(fn_node):
        if isinstance(n, kinds) and n is not target and contains(n, target):
            if best is None or contains(best, n):
                best = n
    return best


def call_name(call) -> str | None:
    if isinstance(call, ast.Call):
        f = call.func
        return f.attr if isinstance(f, ast.Attribute) else getattr(f, "id", None)
    return None
