"""Helpers of the C04 rules: bindings of locals (every definition, tuple unpacking resolved position by position, the
`_ret = None` initialisations of expanded helpers ignored), expansion of aliases / temporaries / hoisted module and class
level values, reaching definitions on the CFG, and the set of conditions that guard a statement (nested ifs, guard clauses,
De Morgan) — so that the rules decide by what a site DOES and not by where it is written or how its locals are spelled."""

from __future__ import annotations

import ast
import copy
from dataclasses import replace

from ..cfg import CFG, forward
from ..model import unparse
from ..normalize import rule_named_constants

_DEPTH = 10


# ---------------------------------------------------------------------- bindings
def _is_ret_init(name: str, value) -> bool:
    """`_ret__iN = None`: the initialisation helper expansion puts in front of an expanded body."""
    return name.startswith("_ret__i") and isinstance(value, ast.Constant) and value.value is None


def _pos(value, i: int):
    """The expression standing for position `i` of an unpacked value."""
    if isinstance(value, (ast.Tuple, ast.List)) and not any(isinstance(e, ast.Starred) for e in value.elts) and i < len(value.elts):
        return value.elts[i]
    if isinstance(value, ast.Subscript) and isinstance(value.slice, ast.Slice) and value.slice.lower is None and value.slice.step is None:
        value = value.value  # x[:n] unpacked position by position
    return ast.copy_location(ast.Subscript(value=value, slice=ast.Constant(value=i), ctx=ast.Load()), value)


def params_of(fn_node) -> set:
    a = fn_node.args
    out = {x.arg for x in a.posonlyargs + a.args + a.kwonlyargs}
    if a.vararg:
        out.add(a.vararg.arg)
    if a.kwarg:
        out.add(a.kwarg.arg)
    return out


class Defs:
    """Every binding of every local of a function.  `self.all[name]` = list of defining expressions (None = opaque: loop
    target, augmented assignment, `except ... as`, starred unpacking); tuple targets are resolved position by position,
    through a name bound to tuples when needed."""

    def __init__(self, fn_node):
        self.fn = fn_node
        self.params = params_of(fn_node)
        self.all: dict = {}
        pending = []  # (target tuple, value) whose value is a Name: resolved once the simple bindings are known
        for n in ast.walk(fn_node):
            if isinstance(n, ast.Assign):
                for t in n.targets:
                    self._bind(t, n.value, pending)
            elif isinstance(n, ast.AnnAssign) and n.value is not None:
                self._bind(n.target, n.value, pending)
            elif isinstance(n, ast.NamedExpr):
                self._bind(n.target, n.value, pending)
            elif isinstance(n, ast.AugAssign):
                if isinstance(n.target, ast.Name):
                    self.all.setdefault(n.target.id, []).append(None)
            elif isinstance(n, (ast.With, ast.AsyncWith)):
                for it in n.items:
                    if it.optional_vars is not None:
                        self._bind(it.optional_vars, it.context_expr, pending)
            elif isinstance(n, (ast.For, ast.AsyncFor, ast.comprehension)):
                for x in ast.walk(n.target):
                    if isinstance(x, ast.Name):
                        self.all.setdefault(x.id, []).append(None)
            elif isinstance(n, ast.ExceptHandler) and n.name:
                self.all.setdefault(n.name, []).append(None)
        for tgt, val in pending:
            srcs = [v for v in self.all.get(val.id, []) if v is not None] if val.id not in self.params else []
            if srcs and all(isinstance(v, (ast.Tuple, ast.List)) and len(v.elts) == len(tgt.elts) for v in srcs):
                for v in srcs:
                    for i, t in enumerate(tgt.elts):
                        self._bind(t, v.elts[i], [])
            else:
                for i, t in enumerate(tgt.elts):
                    self._bind(t, _pos(val, i), [])

    def _bind(self, target, value, pending):
        if isinstance(target, ast.Name):
            if not _is_ret_init(target.id, value):
                self.all.setdefault(target.id, []).append(value)
        elif isinstance(target, (ast.Tuple, ast.List)):
            if any(isinstance(t, ast.Starred) for t in target.elts):
                for x in ast.walk(target):
                    if isinstance(x, ast.Name):
                        self.all.setdefault(x.id, []).append(None)
            elif isinstance(value, ast.Name):
                pending.append((target, value))
            else:
                for i, t in enumerate(target.elts):
                    self._bind(t, _pos(value, i), pending)
        # attribute / subscript targets bind no local

    def of(self, name: str) -> list:
        """The known defining expressions of a local (opaque bindings left out)."""
        return [v for v in self.all.get(name, []) if v is not None]

    def single(self, name: str):
        """The only definition of a local bound exactly once (never a parameter), else None."""
        if name in self.params:
            return None
        vals = self.all.get(name, [])
        return vals[0] if len(vals) == 1 and vals[0] is not None else None

    def rebound(self, name: str) -> bool:
        return name in self.all


def _outer_value(name_or_attr, fn, project):
    """Value of a module-level name / class-level constant referred to from `fn` (hoisted tables and constants), else None."""
    if fn is None or project is None:
        return None
    e = name_or_attr
    if isinstance(e, ast.Name):
        r = project.resolve_name(fn.module, e.id)
        if r and r[0] == "assign":
            # the package's own named mapping tables (the rules refer to them by name) stay as they are
            return None if isinstance(r[1][1], ast.Dict) and e.id in rule_named_constants() else r[1][1]
        return None
    if isinstance(e, ast.Attribute) and isinstance(e.value, ast.Name):
        owner = None
        if fn.cls is not None and e.value.id in ("self", "cls", fn.self_name or ""):
            owner = fn.cls
        else:
            r = project.resolve_name(fn.module, e.value.id)
            if r and r[0] == "class":
                owner = r[1]
        if owner is None:
            return None
        m = owner.lookup(e.attr)
        if m and m[1] == "assign" and m[2] is not None and (e.attr.isupper() or (e.attr.startswith("_") and isinstance(m[2], (ast.List, ast.Tuple, ast.Dict, ast.Set)))):
            return _in_class_scope(m[2], m[0])
    return None


def _in_class_scope(value, owner, _depth=0):
    """A class-level value with the bare names it reads from its own class body replaced by their values."""

    class C(ast.NodeTransformer):
        def visit_Name(self, n):
            v = owner.class_assigns.get(n.id)
            if isinstance(n.ctx, ast.Load) and v is not None and v[0] is not None and _depth < 4:
                return ast.copy_location(_in_class_scope(v[0], owner, _depth + 1), n)
            return n

    return C().visit(copy.deepcopy(value))


def record_fields(call, fn, project):
    """(field names, ClassInfo | None) when `call` constructs a record — a NamedTuple / dataclass of the package, or a
    `namedtuple('X', [...])` bound at module level — else None."""
    if project is None or fn is None or not isinstance(call, ast.Call) or not isinstance(call.func, ast.Name):
        return None
    r = project.resolve_name(fn.module, call.func.id)
    if not r:
        return None
    if r[0] == "class" and r[1].node is not None:
        ci = r[1]
        is_record = any(unparse(b).split(".")[-1] == "NamedTuple" for b in ci.node.bases) or \
            any("dataclass" in unparse(d) for d in ci.node.decorator_list)
        if not is_record:
            return None
        fields = [st.target.id for st in ci.node.body if isinstance(st, ast.AnnAssign) and isinstance(st.target, ast.Name) and "ClassVar" not in unparse(st.annotation)]
        return fields, ci
    if r[0] == "assign" and isinstance(r[1][1], ast.Call) and call_name(r[1][1]) == "namedtuple" and len(r[1][1].args) >= 2:
        spec = r[1][1].args[1]
        if isinstance(spec, ast.Constant) and isinstance(spec.value, str):
            return spec.value.replace(",", " ").split(), None
        if isinstance(spec, (ast.List, ast.Tuple)) and all(isinstance(e, ast.Constant) for e in spec.elts):
            return [e.value for e in spec.elts], None
    return None


def project_record(call, attr, fn, project, _depth=0):
    """The expression `<record constructor call>.<attr>` stands for: the argument given for a field, or the returned
    expression of a simple property with its `self.<field>` reads replaced likewise; None when unknown."""
    rf = record_fields(call, fn, project)
    if rf is None or _depth > 4 or any(isinstance(a, ast.Starred) for a in call.args) or any(k.arg is None for k in call.keywords):
        return None
    fields, ci = rf
    if attr in fields:
        i = fields.index(attr)
        if i < len(call.args):
            return call.args[i]
        for k in call.keywords:
            if k.arg == attr:
                return k.value
        if ci is not None:
            for st in ci.node.body:
                if isinstance(st, ast.AnnAssign) and isinstance(st.target, ast.Name) and st.target.id == attr and st.value is not None:
                    return st.value
        return None
    if ci is not None and attr in ci.props and ci.props[attr].getter is not None:
        g = ci.props[attr].getter
        body = [st for st in g.node.body if not (isinstance(st, ast.Expr) and isinstance(st.value, ast.Constant))]
        if len(body) == 1 and isinstance(body[0], ast.Return) and body[0].value is not None and g.params:
            me = g.params[0]
            failed = []

            class P(ast.NodeTransformer):
                def visit_Attribute(self, n):
                    if isinstance(n.value, ast.Name) and n.value.id == me:
                        v = project_record(call, n.attr, fn, project, _depth + 1)
                        if v is None:
                            failed.append(n.attr)
                            return n
                        return copy.deepcopy(v)
                    self.generic_visit(n)
                    return n

                def visit_Name(self, n):
                    if n.id == me:
                        failed.append(me)  # the record used as a whole: not a projection
                    return n

            out = P().visit(copy.deepcopy(body[0].value))
            if not failed:
                return out
    return None


class Scope:
    """Expansion of expressions of one (normalised) function: locals bound once -> their definition, names of the enclosing
    module / constants of the class -> their value."""

    def __init__(self, fn, project=None, keep=()):
        self.fn = fn
        self.node = fn.node
        self.p = project
        self.defs = Defs(fn.node)
        self.keep = set(keep)  # locals the caller identifies by role: never replaced by their definition

    def expand(self, expr, _depth=0):
        if expr is None or _depth > _DEPTH:
            return expr
        sc = self

        class E(ast.NodeTransformer):
            def visit_Name(self, n):
                if not isinstance(n.ctx, ast.Load):
                    return n
                if n.id in sc.keep:
                    return n
                v = sc.defs.single(n.id)
                if v is None and n.id not in sc.defs.params and not sc.defs.rebound(n.id):
                    v = _outer_value(n, sc.fn, sc.p)
                if v is not None:
                    return ast.copy_location(sc.expand(copy.deepcopy(v), _depth + 1), n)
                return n

            def visit_Attribute(self, n):
                if isinstance(n.ctx, ast.Load):
                    v = _outer_value(n, sc.fn, sc.p)
                    if v is not None:
                        return ast.copy_location(sc.expand(copy.deepcopy(v), _depth + 1), n)
                self.generic_visit(n)
                if isinstance(n.ctx, ast.Load) and isinstance(n.value, ast.Call):
                    # a field / simple property of a record built in place (NamedTuple, dataclass): the value it was built from
                    v = project_record(n.value, n.attr, sc.fn, sc.p)
                    if v is not None:
                        return ast.copy_location(copy.deepcopy(v), n)
                return n

            def visit_Subscript(self, n):
                self.generic_visit(n)
                i = n.slice.value if isinstance(n.slice, ast.Constant) else None
                if isinstance(n.ctx, ast.Load) and isinstance(i, int) and not isinstance(i, bool) and i >= 0:
                    if isinstance(n.value, ast.Tuple) and i < len(n.value.elts) and not any(isinstance(e, ast.Starred) for e in n.value.elts):
                        return n.value.elts[i]  # position of a tuple built in place
                    rf = record_fields(n.value, sc.fn, sc.p)
                    if rf is not None and i < len(rf[0]):
                        v = project_record(n.value, rf[0][i], sc.fn, sc.p)
                        if v is not None:
                            return ast.copy_location(copy.deepcopy(v), n)
                return n

            def visit_Lambda(self, n):
                return n

        return E().visit(copy.deepcopy(expr))

    def text(self, expr) -> str:
        return unparse(self.expand(expr))

    def sources(self, expr, _seen=None, _depth=0) -> list:
        """The alternative expanded expressions an expression may stand for: a local bound on several paths yields one
        per definition (a parameter or an opaque binding yields the bare name)."""
        _seen = _seen or set()
        if isinstance(expr, ast.Name) and expr.id not in self.keep and _depth <= _DEPTH:
            vals = self.defs.all.get(expr.id, [])
            if vals and expr.id not in _seen:
                out = [expr] if expr.id in self.defs.params else []  # a re-bound parameter: the value passed in, or one of its re-bindings
                for v in vals:
                    out += [expr] if v is None else self.sources(v, _seen | {expr.id}, _depth + 1)
                return out
        if isinstance(expr, (ast.Attribute, ast.Subscript)) and isinstance(expr.ctx, ast.Load) and _depth <= _DEPTH \
                and any(isinstance(x, ast.Name) and len(self.defs.all.get(x.id, [])) > 1 and x.id not in self.keep for x in ast.walk(self.expand(expr.value))):
            # a field / position of a record (or tuple) that is built on several paths: one alternative per path
            out = []
            for b in self.sources(expr.value, _seen, _depth + 1):
                e = copy.copy(expr)
                e.value = b
                e = self.expand(e)
                unprojected = isinstance(e, type(expr)) and unparse(e.value) == unparse(self.expand(b))
                out += [e] if unprojected else self.sources(e, _seen, _depth + 1)
            return out
        return [self.expand(expr)]


def inline_aliases(fn_node):
    """Copy of a function with every local that is bound once to a side-effect-free expression over things that are never
    re-bound — a plain path (`ws = self.workspace`, `parent = entity.parent`), a constant, a test read once into a local
    (`is_data = isinstance(entity, Data)`, `missing = self.keys is None`) — replaced by that expression wherever it is read."""
    defs = Defs(fn_node)

    def pure(e, nm, strict=True):
        if isinstance(e, ast.Name):
            # parameters / globals never re-bound (strict); any other local when only the shape is asked for
            return e.id != nm and (not strict or e.id in ("self", "cls") or e.id in alias or not defs.rebound(e.id))
        if isinstance(e, ast.Attribute):
            return pure(e.value, nm, strict)
        if isinstance(e, ast.Constant):
            return True
        if isinstance(e, ast.Tuple):
            return all(pure(x, nm, strict) for x in e.elts)
        if isinstance(e, ast.Compare):
            return pure(e.left, nm, strict) and all(pure(x, nm, strict) for x in e.comparators)
        if isinstance(e, ast.BoolOp):
            return all(pure(x, nm, strict) for x in e.values)
        if isinstance(e, ast.UnaryOp) and isinstance(e.op, ast.Not):
            return pure(e.operand, nm, strict)
        if isinstance(e, ast.Call) and isinstance(e.func, ast.Name) and e.func.id in ("isinstance", "hasattr") and not e.keywords:
            return all(pure(x, nm, strict) for x in e.args)
        return False

    alias: dict = {}
    grown = True
    while grown:  # aliases of aliases
        grown = False
        for nm in defs.all:
            v = defs.single(nm)
            if nm not in alias and v is not None and not isinstance(v, ast.Tuple) and pure(v, nm):
                alias[nm] = v
                grown = True
    # a test read into a local over names that ARE re-bound somewhere (`missing = values is None` ... `values = values.astype(..)`):
    # replaced at a use only when every name it reads has the same reaching definitions at the use as at the binding
    flow_alias = {}
    for nm in defs.all:
        v = defs.single(nm)
        if nm not in alias and v is not None and isinstance(v, (ast.Compare, ast.BoolOp, ast.UnaryOp, ast.Call)):
            if pure(v, nm, strict=False):  # purity of the shape only; stability is decided per use below
                flow_alias[nm] = v
    if not alias and not flow_alias:
        return fn_node

    class A(ast.NodeTransformer):
        def visit_Name(self, n):
            if isinstance(n.ctx, ast.Load) and n.id in alias:
                return ast.copy_location(A().visit(copy.deepcopy(alias[n.id])), n)
            return n

    new = copy.deepcopy(fn_node)
    new.body = [A().visit(s) for s in new.body]
    if flow_alias:
        try:
            rd = Reaching(new)
        except Exception:  # a construct the CFG does not model: leave the flow-dependent aliases alone
            rd = None
        if rd is not None:
            where_bound = {}
            for n in rd.g.nodes:
                if n.kind == "stmt" and isinstance(n.ast, (ast.Assign, ast.AnnAssign)):
                    for t in (n.ast.targets if isinstance(n.ast, ast.Assign) else [n.ast.target]):
                        if isinstance(t, ast.Name) and t.id in flow_alias:
                            where_bound[t.id] = n

            def stable(nm, use):
                d = where_bound.get(nm)
                if d is None or d not in rd.IN or use not in rd.IN:
                    return False
                if [x[0] for x in rd.at(use, nm)] != [(d.id, i) for i, b in enumerate(_stmt_bindings(d)) if b[0] == nm]:
                    return False
                read = {x.id for x in ast.walk(flow_alias[nm]) if isinstance(x, ast.Name)}
                return all([x[0] for x in rd.at(use, r)] == [x[0] for x in rd.at(d, r)] for r in read)

            for n in rd.g.nodes:
                if n.kind != "test" or n.ast is None or not isinstance(n.stmt, (ast.If, ast.While)):
                    continue

                class F(ast.NodeTransformer):
                    def visit_Name(self, x, n=n):
                        if isinstance(x.ctx, ast.Load) and x.id in flow_alias and stable(x.id, n):
                            return ast.copy_location(copy.deepcopy(where_bound[x.id].ast.value), x)
                        return x

                n.stmt.test = F().visit(n.stmt.test)
    return ast.fix_missing_locations(new)


# ---------------------------------------------------------------------- dispatch tables
class _Cannot(Exception):
    pass


def _subst_names(stmts, mapping):
    """Copies of statements with the (read) names of `mapping` replaced by expressions; `getattr(x, 'lit')` -> `x.lit`."""

    class S(ast.NodeTransformer):
        def visit_Name(self, n):
            if isinstance(n.ctx, ast.Load) and n.id in mapping:
                return ast.copy_location(copy.deepcopy(mapping[n.id]), n)
            return n

        def visit_Call(self, n):
            self.generic_visit(n)
            if isinstance(n.func, ast.Name) and n.func.id == "getattr" and len(n.args) == 2 and not n.keywords \
                    and isinstance(n.args[1], ast.Constant) and isinstance(n.args[1].value, str) and n.args[1].value.isidentifier():
                return ast.copy_location(ast.Attribute(value=n.args[0], attr=n.args[1].value, ctx=ast.Load()), n)
            return n

    return [S().visit(copy.deepcopy(s)) for s in stmts]


def _loop_jumps(stmt) -> bool:
    """The statement holds a break / continue of the enclosing loop (those of nested loops are their own)."""
    if isinstance(stmt, (ast.Break, ast.Continue)):
        return True
    if isinstance(stmt, (ast.For, ast.AsyncFor, ast.While)):
        return any(_loop_jumps(s) for s in stmt.orelse)
    if isinstance(stmt, (ast.FunctionDef, ast.AsyncFunctionDef, ast.ClassDef)):
        return False
    for fld in ("body", "orelse", "finalbody"):
        if any(_loop_jumps(s) for s in getattr(stmt, fld, []) or [] if isinstance(s, ast.stmt)):
            return True
    return any(_loop_jumps(s) for h in getattr(stmt, "handlers", []) or [] for s in h.body)


def unroll_table_loops(fn, project=None, max_items: int = 8):
    """Copy of a function in which every `for <targets> in <literal table>` — a tuple / list of tuples written in place,
    bound once to a local, hoisted to the module or the class, or the `.items()` of such a dict — is written out entry by
    entry, `break` / `continue` / `else` turned into the nesting they mean.  A table of (class, bound method) pairs scanned
    with isinstance and left at the first hit becomes the if / elif chain it stands for.  Loops that cannot be written out
    exactly (targets re-bound or read after the loop, jumps inside try / with) are left as they are."""
    fn_node = fn.node
    sc = Scope(fn, project)

    def table_of(it):
        e = sc.expand(it)
        if isinstance(e, ast.Call) and isinstance(e.func, ast.Attribute) and e.func.attr == "items" and not e.args and isinstance(e.func.value, ast.Dict) \
                and all(k is not None for k in e.func.value.keys):
            return [ast.Tuple(elts=[k, v], ctx=ast.Load()) for k, v in zip(e.func.value.keys, e.func.value.values)]
        if isinstance(e, (ast.Tuple, ast.List)) and not any(isinstance(x, ast.Starred) for x in e.elts):
            return list(e.elts)
        return None

    def bind(target, item):
        if isinstance(target, ast.Name):
            return {target.id: item}
        if isinstance(target, (ast.Tuple, ast.List)) and isinstance(item, (ast.Tuple, ast.List)) and len(target.elts) == len(item.elts) \
                and not any(isinstance(x, ast.Starred) for x in list(target.elts) + list(item.elts)):
            out = {}
            for t, v in zip(target.elts, item.elts):
                out.update(bind(t, v))
            return out
        raise _Cannot()

    def seq(stmts, rest):
        for i, s in enumerate(stmts):
            if isinstance(s, ast.Break):
                return stmts[:i]
            if isinstance(s, ast.Continue):
                return stmts[:i] + rest()
            if isinstance(s, ast.If) and _loop_jumps(s):
                after = stmts[i + 1:]
                b = seq(list(s.body) + copy.deepcopy(after), rest)
                o = seq(list(s.orelse) + copy.deepcopy(after), rest)
                return stmts[:i] + [ast.copy_location(ast.If(test=s.test, body=b or [ast.copy_location(ast.Pass(), s)], orelse=o), s)]
            if _loop_jumps(s):
                raise _Cannot()
        return stmts + rest()

    def unroll(loop, outside_reads):
        items = table_of(loop.iter)
        if items is None or not (0 < len(items) <= max_items):
            raise _Cannot()
        names = {x.id for x in ast.walk(loop.target) if isinstance(x, ast.Name)}
        if any(isinstance(x, ast.Name) and x.id in names and isinstance(x.ctx, (ast.Store, ast.Del)) for s in loop.body + loop.orelse for x in ast.walk(s)):
            raise _Cannot()
        if names & outside_reads:
            raise _Cannot()
        maps = [bind(loop.target, it) for it in items]

        def build(k):
            if k == len(maps):
                return copy.deepcopy(loop.orelse)
            return seq(_subst_names(loop.body, maps[k]), lambda: build(k + 1))

        return build(0) or [ast.copy_location(ast.Pass(), loop)]

    changed = [False]

    def block(stmts):
        out = []
        for s in stmts:
            for fld in ("body", "orelse", "finalbody"):
                blk = getattr(s, fld, None)
                if isinstance(blk, list) and blk and isinstance(blk[0], ast.stmt):
                    setattr(s, fld, block(blk))
            for h in getattr(s, "handlers", []) or []:
                h.body = block(h.body)
            if isinstance(s, ast.For):
                inside = {id(x) for x in ast.walk(s)}
                reads = {x.id for x in ast.walk(new) if isinstance(x, ast.Name) and isinstance(x.ctx, ast.Load) and id(x) not in inside}
                try:
                    out += unroll(s, reads)
                    changed[0] = True
                    continue
                except _Cannot:
                    pass
            out.append(s)
        return out

    new = copy.deepcopy(fn_node)
    if not any(isinstance(x, ast.For) for x in ast.walk(new)):
        return fn
    new.body = block(new.body)
    if not changed[0]:
        return fn
    return replace(fn, node=ast.fix_missing_locations(new))


def expand_table_calls(fn, project=None):
    """Copy of a function in which a call through a table of callables looked up by a key — `TABLE[key](args)`,
    `TABLE.get(key, default)(args)`, directly or through a local bound once to the looked-up callable, the table being a dict
    literal with constant keys written in place, bound once to a local or hoisted to the module / the class — is written as the
    `if key == k1: f1(args) elif key == k2: ...` chain it stands for (statement level: expression statements, assignments, returns)."""
    sc = Scope(fn, project)

    def lookup(func):
        e = sc.expand(func)
        table = key = default = None
        if isinstance(e, ast.Subscript) and isinstance(e.value, ast.Dict):
            table, key = e.value, e.slice
        elif isinstance(e, ast.Call) and isinstance(e.func, ast.Attribute) and e.func.attr == "get" and isinstance(e.func.value, ast.Dict) and 1 <= len(e.args) <= 2 and not e.keywords:
            table, key = e.func.value, e.args[0]
            default = e.args[1] if len(e.args) == 2 else None
        if table is None or not table.keys or len(table.keys) > 12 or not all(isinstance(k, ast.Constant) for k in table.keys):
            return None
        if not all(isinstance(v, (ast.Attribute, ast.Name)) for v in list(table.values) + ([default] if default is not None else [])):
            return None
        return table, key, default

    def rewrite(s):
        call = s.value if isinstance(s, (ast.Expr, ast.Assign, ast.Return)) and isinstance(getattr(s, "value", None), ast.Call) else None
        if call is None or isinstance(call.func, ast.Attribute) and not isinstance(sc.expand(call.func), (ast.Subscript, ast.Call)):
            return None
        found = lookup(call.func)
        if found is None:
            return None
        table, key, default = found

        def with_func(f):
            c = copy.deepcopy(s)
            c.value.func = copy.deepcopy(f)
            return c

        if default is not None:
            tail = [with_func(default)]
        else:
            tail = [ast.copy_location(ast.Raise(exc=ast.Call(func=ast.Name(id="KeyError", ctx=ast.Load()), args=[copy.deepcopy(key)], keywords=[]), cause=None), s)]
        for k, v in reversed(list(zip(table.keys, table.values))):
            test = ast.Compare(left=copy.deepcopy(key), ops=[ast.Eq()], comparators=[copy.deepcopy(k)])
            tail = [ast.copy_location(ast.If(test=test, body=[with_func(v)], orelse=tail), s)]
        return tail

    changed = [False]

    def block(stmts):
        out = []
        for s in stmts:
            for fld in ("body", "orelse", "finalbody"):
                blk = getattr(s, fld, None)
                if isinstance(blk, list) and blk and isinstance(blk[0], ast.stmt):
                    setattr(s, fld, block(blk))
            for h in getattr(s, "handlers", []) or []:
                h.body = block(h.body)
            r = rewrite(s)
            if r is not None:
                changed[0] = True
                out += r
            else:
                out.append(s)
        return out

    if not any(isinstance(x, ast.Dict) for x in ast.walk(fn.node)) and not any(isinstance(x, ast.Subscript) and isinstance(x.ctx, ast.Load) for x in ast.walk(fn.node)):
        return fn
    new = copy.deepcopy(fn.node)
    sc = Scope(replace(fn, node=new), project)
    new.body = block(new.body)
    if not changed[0]:
        return fn
    return replace(fn, node=ast.fix_missing_locations(new))


def nview(ctx, spec_or_fn):
    """Normalised view of a function: dispatch tables written out (loops over literal tables, calls through a dict of
    callables), then helpers expanded and hoisted literals substituted (ctx.view), then path aliases inlined."""
    fn0 = ctx.p.func(spec_or_fn) if isinstance(spec_or_fn, str) else spec_or_fn
    key = ("c04.nview", id(fn0.node))
    if key not in ctx.cache:
        pre = expand_table_calls(unroll_table_loops(fn0, ctx.p), ctx.p)
        fn = ctx.view(pre)
        ctx.cache[key] = (replace(fn, node=inline_aliases(fn.node)), pre, fn)  # the intermediate views are kept alive (caches are keyed by id)
    return ctx.cache[key][0]


# ---------------------------------------------------------------------- reaching definitions
PARAM = "<parameter>"
OPAQUE = "<opaque>"


def _stmt_bindings(node):
    """(name, value | OPAQUE) bound by one CFG node."""
    out = []
    a = node.ast
    if a is None or isinstance(a, list):
        return out

    def bind(t, v):
        if isinstance(t, ast.Name):
            out.append((t.id, v))
        elif isinstance(t, (ast.Tuple, ast.List)):
            for i, x in enumerate(t.elts):
                if isinstance(x, ast.Starred):
                    bind(x.value, OPAQUE)
                else:
                    bind(x, OPAQUE if v is OPAQUE or isinstance(v, ast.Name) else _pos(v, i))

    if node.kind == "stmt":
        if isinstance(a, ast.Assign):
            for t in a.targets:
                bind(t, a.value)
        elif isinstance(a, ast.AnnAssign) and a.value is not None:
            bind(a.target, a.value)
        elif isinstance(a, ast.AugAssign):
            bind(a.target, OPAQUE)
    elif node.kind == "with":
        for it in a.items:
            if it.optional_vars is not None:
                bind(it.optional_vars, it.context_expr)
    elif node.kind == "fornext":
        for x in ast.walk(a):
            if isinstance(x, ast.Name):
                out.append((x.id, OPAQUE))
    elif node.kind == "except" and getattr(a, "name", None):
        out.append((a.name, OPAQUE))
    if node.kind in ("stmt", "test", "return", "foriter", "assert"):
        for x in ast.walk(a):
            if isinstance(x, ast.NamedExpr) and isinstance(x.target, ast.Name):
                out.append((x.target.id, x.value))
    return [(n, v) for n, v in out if not (v is not OPAQUE and _is_ret_init(n, v))]


class Reaching:
    """Reaching definitions of the locals of a function: `at(stmt, name)` = the values (expressions, PARAM, OPAQUE) that
    may be bound to `name` when the statement starts."""

    def __init__(self, fn_node):
        self.g = CFG(fn_node)
        self.values = {PARAM: PARAM}  # def id -> value
        binds = {}
        for n in self.g.nodes:
            bs = _stmt_bindings(n)
            if bs:
                binds[n] = bs
        init = frozenset((p, PARAM) for p in params_of(fn_node))

        def transfer(n, state):
            bs = binds.get(n)
            if not bs:
                return state
            names = {b[0] for b in bs}
            out = {(nm, d) for nm, d in state if nm not in names}
            for i, (nm, v) in enumerate(bs):
                did = (n.id, i)
                self.values[did] = v
                out.add((nm, did))
            return frozenset(out)

        self.IN = forward(self.g, init, transfer, lambda a, b: a | b)
        self.by_stmt = {}
        for n in self.g.nodes:
            if n.ast is not None and not isinstance(n.ast, list):
                self.by_stmt.setdefault(id(n.ast), n)
                self.by_stmt.setdefault(id(n.stmt), n)

    def node_of(self, stmt):
        return self.by_stmt.get(id(stmt))

    def at(self, stmt_or_node, name: str) -> list:
        n = stmt_or_node if hasattr(stmt_or_node, "succ") else self.node_of(stmt_or_node)
        if n is None or n not in self.IN:
            return [(None, OPAQUE)]
        return sorted([(d, self.values[d]) for nm, d in self.IN[n] if nm == name], key=lambda x: (0, (0, 0)) if x[0] is PARAM else (1, x[0]))

    def def_node(self, did):
        return self.g.nodes[did[0]] if isinstance(did, tuple) else None


# ---------------------------------------------------------------------- guards
def atoms(test, polarity: bool = True) -> list:
    """A condition known to hold with the given polarity, as the list of (atomic test, polarity) it implies:
    `a and b` true -> a true, b true; `a or b` false -> a false, b false (De Morgan); `not x` flips.  A disjunction
    that holds (or a conjunction that fails) implies no single atom: it is kept whole."""
    if isinstance(test, ast.UnaryOp) and isinstance(test.op, ast.Not):
        return atoms(test.operand, not polarity)
    if isinstance(test, ast.BoolOp) and ((isinstance(test.op, ast.And) and polarity) or (isinstance(test.op, ast.Or) and not polarity)):
        out = []
        for v in test.values:
            out += atoms(v, polarity)
        return out
    return [(test, polarity)]


_JUMPS = (ast.Continue, ast.Return, ast.Raise, ast.Break)


def guards_of(fn_node, target):
    """[(test, polarity, holder)] for every condition that holds when `target` (a node inside the function) is evaluated:
    the enclosing ifs (with the branch taken), the guard clauses `if t: continue / return / raise / break` that precede
    it in an enclosing block, and the `if` clauses of an enclosing comprehension.  `holder` is the statement carrying the
    condition."""
    path = []

    def find(node, trail):
        if node is target:
            path.extend(trail)
            return True
        for fld, val in ast.iter_fields(node):
            if isinstance(val, list):
                for i, ch in enumerate(val):
                    if isinstance(ch, ast.AST) and find(ch, trail + [(node, fld, i)]):
                        return True
            elif isinstance(val, ast.AST):
                if find(val, trail + [(node, fld, None)]):
                    return True
        return False

    if not find(fn_node, []):
        return []
    out = []
    for node, fld, i in path:
        if isinstance(node, ast.If) and fld in ("body", "orelse"):
            out.append((node.test, fld == "body", node))
        if isinstance(node, ast.IfExp) and fld in ("body", "orelse"):
            out.append((node.test, fld == "body", node))
        if isinstance(node, ast.While) and fld == "body":
            out.append((node.test, True, node))
        if fld in ("body", "orelse", "finalbody") and i is not None and isinstance(getattr(node, fld), list):
            for prev in getattr(node, fld)[:i]:
                if isinstance(prev, ast.If) and prev.body and isinstance(prev.body[-1], _JUMPS) and not prev.orelse:
                    out.append((prev.test, False, prev))
                elif isinstance(prev, ast.If) and prev.orelse and isinstance(prev.orelse[-1], _JUMPS) and not isinstance(prev.body[-1], _JUMPS):
                    out.append((prev.test, True, prev))
        if isinstance(node, (ast.ListComp, ast.SetComp, ast.GeneratorExp, ast.DictComp)) and fld in ("elt", "key", "value"):
            for g in node.generators:
                for c in g.ifs:
                    out.append((c, True, node))
    return out


def contains(outer, inner) -> bool:
    return any(x is inner for x in ast.walk(outer))


def enclosing(fn_node, target, kinds):
    """The innermost node of one of `kinds` that contains `target`, else None."""
    best = None
    for n in ast.walk(fn_node):
        if isinstance(n, kinds) and n is not target and contains(n, target):
            if best is None or contains(best, n):
                best = n
    return best


def call_name(call) -> str | None:
    if isinstance(call, ast.Call):
        f = call.func
        return f.attr if isinstance(f, ast.Attribute) else getattr(f, "id", None)
    return None
