"""C05.ITERMUT sites beyond the literal `for x in <name>.<list>`: the same obligation (no in-place removal from the list while it
is being walked) exists when the list is first read into a local, fetched with getattr, or walked by a comprehension / a generator
expression (whose consumer runs while the list is being walked).  The engine (sa/itermut.py) is shared and unchanged: these sites are
handed to it as loops."""

from __future__ import annotations

import ast

from ..itermut import CHILD, CHILDLIST, LIST, OTHER, IterMut
from ..normalize import expanded, single_assignments


def _owner_attr(e, params):
    """(owner, attr) when `e` reads a list attribute of a parameter: `<p>.<attr>` or getattr(<p>, "<attr>"[, default])"""
    if isinstance(e, ast.Attribute) and isinstance(e.value, ast.Name) and e.value.id in params:
        return e.value.id, e.attr
    if isinstance(e, ast.Call) and isinstance(e.func, ast.Name) and e.func.id == "getattr" and len(e.args) >= 2 and isinstance(e.args[0], ast.Name) \
            and e.args[0].id in params and isinstance(e.args[1], ast.Constant) and isinstance(e.args[1].value, str):
        return e.args[0].id, e.args[1].value
    if isinstance(e, ast.BoolOp) and isinstance(e.op, ast.Or):  # `<p>.<attr> or []`
        for v in e.values:
            r = _owner_attr(v, params)
            if r:
                return r
    return None


class IterMutX(IterMut):
    def eval(self, e, env, target) -> set:
        # a comprehension / generator that yields the elements of the walked list is a container of its elements (the engine
        # treats them as unknown): handing it to a helper hands the children over
        if isinstance(e, (ast.GeneratorExp, ast.ListComp, ast.SetComp)):
            v = self.eval(e.elt, env, target)
            if CHILD in v:
                return {CHILDLIST}
            src = self.eval(e.generators[0].iter, env, target)
            if (LIST in src or CHILDLIST in src) and isinstance(e.elt, ast.Name) and isinstance(e.generators[0].target, ast.Name) \
                    and e.elt.id == e.generators[0].target.id:
                return {CHILDLIST}
            return {OTHER}
        return super().eval(e, env, target)

    def loops(self):
        for fn in self.p.all_functions():
            params = set(fn.params)
            defs = None
            parents = None
            for n in ast.walk(fn.node):
                if isinstance(n, ast.For):
                    if isinstance(n.iter, ast.Attribute) and isinstance(n.iter.value, ast.Name):
                        if n.iter.value.id in params:
                            yield fn, n, n.iter.value.id, n.iter.attr
                        continue
                    # the list read once into a local / fetched with getattr
                    if isinstance(n.iter, (ast.Name, ast.Call, ast.BoolOp)):
                        defs = single_assignments(fn.node) if defs is None else defs
                        oa = _owner_attr(expanded(n.iter, fn.node, defs) if isinstance(n.iter, ast.Name) else n.iter, params)
                        if oa:
                            yield fn, n, oa[0], oa[1]
                elif isinstance(n, (ast.ListComp, ast.SetComp, ast.DictComp, ast.GeneratorExp)):
                    defs = single_assignments(fn.node) if defs is None else defs
                    for i, gen in enumerate(n.generators):
                        it = expanded(gen.iter, fn.node, defs) if isinstance(gen.iter, ast.Name) else gen.iter
                        oa = _owner_attr(it, params)
                        if not oa or not isinstance(gen.target, (ast.Name, ast.Tuple)):
                            continue
                        # what runs while the list is walked: the conditions, the inner generators, the element expression, and — for
                        # a lazy generator — the call that consumes it
                        body = [ast.Expr(value=c) for c in gen.ifs]
                        for g2 in n.generators[i + 1:]:
                            body += [ast.Expr(value=g2.iter)] + [ast.Expr(value=c) for c in g2.ifs]
                        body += [ast.Expr(value=n.key), ast.Expr(value=n.value)] if isinstance(n, ast.DictComp) else [ast.Expr(value=n.elt)]
                        if isinstance(n, ast.GeneratorExp):
                            if parents is None:
                                parents = {id(c): p_ for p_ in ast.walk(fn.node) for c in ast.iter_child_nodes(p_)}
                            par = parents.get(id(n))
                            if isinstance(par, ast.Call):
                                body.append(ast.Expr(value=par))
                        loop = ast.For(target=gen.target, iter=gen.iter, body=body, orelse=[])
                        ast.copy_location(loop, n)
                        for b in body:
                            ast.copy_location(b, n)
                        yield fn, loop, oa[0], oa[1]
