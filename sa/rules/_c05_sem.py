"""Semantic helpers of the C05 rules: the rules ask WHAT a function does on the paths of one kind of entity, on the
normalised view (private helpers expanded, hoisted constants substituted) and with local aliases / temporaries undone,
so that renaming a local, extracting a helper, turning a nested `if` into a guard clause or hoisting a table does not
change a verdict."""

from __future__ import annotations

import ast
from collections import deque

from ..cfg import CFG
from ..kinds import tv
from ..model import unparse
from ..normalize import expanded, single_assignments

_flat_names = ("Data", "Groups", "Objects")
_pure_calls = ("isinstance", "hasattr", "getattr", "type", "bool")


def _falsy_literal(e) -> bool:
    return (isinstance(e, ast.Constant) and not e.value) or (isinstance(e, (ast.List, ast.Tuple, ast.Set)) and not e.elts) or (isinstance(e, ast.Dict) and not e.keys)


class _Bools(ast.NodeTransformer):
    """Spellings of a truth test reduced to the tested expression: `X == False` / `X != True` -> `not X`;  `X == True` -> `X`;
    `bool(X)` -> `X`;  `len(X) > 0`, `len(X) != 0`, `len(X) >= 1` -> `X`;  `len(X) == 0` -> `not X`;
    `X or []` -> `X`."""

    def visit_Call(self, n):
        self.generic_visit(n)
        if isinstance(n.func, ast.Name) and n.func.id == "bool" and len(n.args) == 1 and not n.keywords:
            return n.args[0]
        return n

    def visit_BoolOp(self, n):
        self.generic_visit(n)
        if isinstance(n.op, ast.Or):
            vals = [v for v in n.values if not _falsy_literal(v)]
            if len(vals) == 1:
                return vals[0]
            if vals and len(vals) < len(n.values):
                return ast.copy_location(ast.BoolOp(op=ast.Or(), values=vals), n)
        return n

    def visit_Compare(self, n):
        self.generic_visit(n)
        if len(n.ops) != 1:
            return n
        op, rhs = n.ops[0], n.comparators[0]
        if isinstance(rhs, ast.Constant) and isinstance(rhs.value, bool):
            # equality only: `X is False` is NOT a truth test (a flag read back from a file is numpy.int8(0), which is falsy and equal
            # to False but not identical to it), so identity comparisons stay what they are: undecided
            positive = isinstance(op, ast.Eq)
            if not positive and not isinstance(op, ast.NotEq):
                return n
            if positive == rhs.value:
                return n.left
            return ast.copy_location(ast.UnaryOp(op=ast.Not(), operand=n.left), n)
        if isinstance(n.left, ast.Call) and isinstance(n.left.func, ast.Name) and n.left.func.id == "len" and len(n.left.args) == 1 \
                and isinstance(rhs, ast.Constant) and type(rhs.value) is int:
            x = n.left.args[0]
            if (isinstance(op, (ast.Gt, ast.NotEq)) and rhs.value == 0) or (isinstance(op, ast.GtE) and rhs.value == 1):
                return x
            if (isinstance(op, ast.Eq) and rhs.value == 0) or (isinstance(op, ast.Lt) and rhs.value == 1):
                return ast.copy_location(ast.UnaryOp(op=ast.Not(), operand=x), n)
        return n


def name_of(f):
    """Last attribute / bare name of a call's function."""
    return f.attr if isinstance(f, ast.Attribute) else getattr(f, "id", None)


class Fx:
    """A function (normally a normalised view) with its CFG; expressions are compared after alias expansion and the
    tests are evaluated (three-valued) after alias expansion."""

    def __init__(self, fn):
        self.fn = fn
        self.node = fn.node
        self.g = CFG(fn.node)
        self.defs = single_assignments(fn.node)
        self._tests: dict = {}
        self._flags = None

    # ---------------------------------------------------------------- expressions
    def x(self, expr):
        return expanded(expr, self.node, self.defs)

    def xt(self, expr) -> str:
        return unparse(self.x(expr))

    def test(self, n):
        if n not in self._tests:
            self._tests[n] = _Bools().visit(self.x(n.ast))
        return self._tests[n]

    def decided(self, n, var, facts):
        """value of a test node under the facts alone (no path constants)"""
        return tv(self.test(n), var, facts) if n.kind == "test" else None

    # ---------------------------------------------------------------- paths
    def flags(self) -> set:
        """Locals that only ever hold constants (`found = False ... found = True`, the result variable of an expanded
        helper that returns True / False / None): their value is followed along each path."""
        if self._flags is None:
            stores: dict = {}
            consts: dict = {}
            for n in ast.walk(self.node):
                if isinstance(n, ast.Name) and isinstance(n.ctx, (ast.Store, ast.Del)):
                    stores[n.id] = stores.get(n.id, 0) + 1
                if isinstance(n, ast.Assign) and len(n.targets) == 1 and isinstance(n.targets[0], ast.Name) and isinstance(n.value, ast.Constant):
                    consts[n.targets[0].id] = consts.get(n.targets[0].id, 0) + 1
            a = self.node.args
            params = {x.arg for x in a.posonlyargs + a.args + a.kwonlyargs}
            self._flags = {k for k, c in consts.items() if stores.get(k) == c and k not in params}
        return self._flags

    def _facts(self, facts, env):
        if not env:
            return facts
        add = {}
        for name, val in env:
            add[f"truthy:{name}"] = bool(val)
            add[f"const:{name}"] = val
            add[f"notnone:{name}"] = val is not None
        if isinstance(facts, KindFacts):
            return facts.derive(add)
        out = dict(facts)
        out.update(add)
        return out

    def succ(self, n, var, facts, env=()):
        if n.kind == "test":
            t = self.test(n)
            v = bool(t.value) if isinstance(t, ast.Constant) else tv(t, var, self._facts(facts, env))
            if v is True:
                return [(m, l) for m, l in n.succ if l != "false"]
            if v is False:
                return [(m, l) for m, l in n.succ if l != "true"]
        return n.succ

    def reach(self, starts, var=None, facts=None, avoid=lambda n: False, stop=lambda n: False, avoid_env=None):
        """Nodes reachable from `starts` on paths that are feasible under the kind facts and under the constants the
        flag locals hold on that very path."""
        facts = facts if facts is not None else {}
        flags = self.flags()
        seen = set()
        dq = deque((n, frozenset()) for n in starts)
        while dq:
            st = dq.popleft()
            n, env = st
            if st in seen or avoid(n) or (avoid_env is not None and avoid_env(n, dict(env))):
                continue
            seen.add(st)
            if stop(n):
                continue
            if flags and n.kind == "stmt" and isinstance(n.ast, ast.Assign) and len(n.ast.targets) == 1 and isinstance(n.ast.targets[0], ast.Name) \
                    and n.ast.targets[0].id in flags and isinstance(n.ast.value, ast.Constant):
                nm = n.ast.targets[0].id
                try:
                    env = frozenset([x for x in env if x[0] != nm] + [(nm, n.ast.value.value)])
                except TypeError:  # unhashable constant: cannot happen for ast.Constant
                    env = frozenset(x for x in env if x[0] != nm)
            for m, _ in self.succ(n, var, facts, env):
                if (m, env) not in seen:
                    dq.append((m, env))
        return {n for n, _ in seen}

    # ---------------------------------------------------------------- calls of a CFG node
    @staticmethod
    def calls(n) -> list:
        if n.ast is None or isinstance(n.ast, list):
            return []
        if n.kind == "with":
            return [c for it in n.ast.items for c in ast.walk(it.context_expr) if isinstance(c, ast.Call)]
        return [c for c in ast.walk(n.ast) if isinstance(c, ast.Call)]

    def has_call(self, n, pred) -> bool:
        return any(pred(c) for c in self.calls(n))

    def node_of(self, sub):
        """The CFG node whose statement / expression contains the AST node `sub`."""
        for n in self.g.nodes:
            if n.ast is None or isinstance(n.ast, list):
                continue
            roots = [it.context_expr for it in n.ast.items] if n.kind == "with" else [n.ast]
            if any(sub is y for r in roots for y in ast.walk(r)):
                return n
        return None

    def names_in(self, expr) -> set:
        return {y.id for y in ast.walk(self.x(expr)) if isinstance(y, ast.Name)}


def effectful(calls):
    return [c for c in calls if not (isinstance(c.func, ast.Name) and c.func.id in _pure_calls)]


# -------------------------------------------------------------------- kinds
class KindFacts(dict):
    """facts for kinds.tv: `isinstance(x, C)` for an x known to be an instance of class K — True when C is K or an ancestor
    of K, False when no class of the package derives from both, unknown otherwise (C a descendant of K, or a mix-in);
    and / or for an x known NOT to be an instance of the `excluded` classes — False for them and their descendants."""

    def __init__(self, project, kind=None, extra=None, excluded=()):
        super().__init__(extra or {})
        self.p = project
        self.k = kind
        self.excluded = tuple(excluded)
        self._memo: dict = {}

    def derive(self, extra):
        d = dict(self)
        d.update(extra)
        return KindFacts(self.p, self.k, d, self.excluded)

    def get(self, key, default=None):
        if key in self:
            return self[key]
        if not isinstance(key, str) or not key.isidentifier():
            return default
        if key not in self._memo:
            self._memo[key] = self._rel(key)
        v = self._memo[key]
        return default if v is None else v

    def _rel(self, name):
        cands = self.p.by_name.get(name, [])
        if len(cands) != 1:
            return None
        c = cands[0]
        if any(e in c.mro for e in self.excluded):
            return False
        if self.k is None:
            return None
        if c in self.k.mro:
            return True
        if any(c in s.mro for s in self.p.subclasses(self.k)):
            return None
        return False


def _str_consts(F, expr, var, facts) -> set:
    """Constants (strings, None) an expression can evaluate to (conditional expressions decided by the kind facts)."""
    if isinstance(expr, ast.Constant) and (isinstance(expr.value, str) or expr.value is None):
        return {expr.value}
    if isinstance(expr, ast.IfExp):
        v = tv(_Bools().visit(F.x(expr.test)), var, facts)
        out = set()
        if v is not False:
            out |= _str_consts(F, expr.body, var, facts)
        if v is not True:
            out |= _str_consts(F, expr.orelse, var, facts)
        return out
    return set()


def _class_of(project, mod, expr):
    r = project.resolve_expr(mod, expr) if isinstance(expr, (ast.Name, ast.Attribute)) else None
    if r and r[0] == "class":
        return r[1]
    nm = name_of(expr) if isinstance(expr, (ast.Name, ast.Attribute)) else None
    cands = project.by_name.get(nm, []) if nm else []
    return cands[0] if len(cands) == 1 else None


def _pairs(lit):
    """[(key expr, value expr)] of a {K: v} literal or of a sequence of (K, v) pairs."""
    if isinstance(lit, ast.Dict):
        return [(k, v) for k, v in zip(lit.keys, lit.values) if k is not None]
    if isinstance(lit, (ast.Tuple, ast.List)) and lit.elts and all(isinstance(e, (ast.Tuple, ast.List)) and len(e.elts) == 2 for e in lit.elts):
        return [(e.elts[0], e.elts[1]) for e in lit.elts]
    return None


def _hoisted(project, fn, expr):
    """The literal a module-level name / class attribute is bound to (a table the view did not substitute)."""
    if isinstance(expr, ast.Name):
        r = project.resolve_name(fn.module, expr.id)
        if r and r[0] == "assign":
            return r[1][1]
    if isinstance(expr, ast.Attribute) and isinstance(expr.value, ast.Name):
        owner = None
        if fn.cls is not None and expr.value.id in ("self", "cls", fn.self_name or ""):
            owner = fn.cls
        else:
            r = project.resolve_name(fn.module, expr.value.id)
            if r and r[0] == "class":
                owner = r[1]
        m = owner.lookup(expr.attr) if owner is not None else None
        if m and m[1] == "assign":
            return m[2]
    return None


def entity_cursors(F, var) -> list:
    """`var` and the locals that stand for "the entity being handled": bound only from `var`, from another cursor or from
    `<cursor>.parent` (a tail recursion on entity.parent turned into a loop that walks `child = child.parent`), and bound
    from a cursor itself at least once."""
    binds: dict = {}
    other = set()
    for n in ast.walk(F.node):
        if isinstance(n, (ast.Assign, ast.AnnAssign)) and n.value is not None:
            for t in (n.targets if isinstance(n, ast.Assign) else [n.target]):
                if isinstance(t, ast.Name):
                    binds.setdefault(t.id, []).append(n.value)
                else:
                    other |= {y.id for y in ast.walk(t) if isinstance(y, ast.Name) and isinstance(y.ctx, ast.Store)}
        elif isinstance(n, (ast.For, ast.comprehension)):
            other |= {y.id for y in ast.walk(n.target) if isinstance(y, ast.Name)}
        elif isinstance(n, (ast.AugAssign, ast.NamedExpr)):
            other |= {y.id for y in ast.walk(n.target) if isinstance(y, ast.Name)}
        elif isinstance(n, ast.With):
            other |= {y.id for it in n.items if it.optional_vars is not None for y in ast.walk(it.optional_vars) if isinstance(y, ast.Name)}
    cur = [var]
    changed = True
    while changed:
        changed = False
        for nm, vals in binds.items():
            if nm in cur or nm in other:
                continue

            def from_cursor(v, nm=nm):
                if isinstance(v, ast.Name):
                    return v.id in cur or v.id == nm
                return isinstance(v, ast.Attribute) and v.attr == "parent" and isinstance(v.value, ast.Name) and (v.value.id in cur or v.value.id == nm)

            if all(from_cursor(v) for v in vals) and any(isinstance(v, ast.Name) and v.id in cur for v in vals):
                cur.append(nm)
                changed = True
    return cur


def containers_of_kind(project, fn, var, kind, universe=_flat_names, ctx=None, _depth=0, symbols=False, probe=None) -> set:
    """Flat-container names function `fn` (a view) can choose for an entity of class `kind` held by `var` (or by the cursor
    local that walks from `var` up its parents, when that is what the function classifies):
    * the string constants assigned / returned on the paths that are feasible for that kind (isinstance chains, guard
      clauses with early returns, an `else` default, conditional expressions, `<chosen> or <default>`), and
    * the value of the first matching entry of a class -> name table ({K: name} or ((K, name), ...)) that a loop scans
      with `isinstance(var, <key>)`."""
    F = Fx(fn)
    cursors = entity_cursors(F, var)
    if len(cursors) > 1:
        tested = {F.xt(c.args[0]) for c in ast.walk(fn.node) if isinstance(c, ast.Call) and name_of(c.func) == "isinstance" and len(c.args) == 2}
        subjects = [c for c in cursors if c in tested] or [var]
    else:
        subjects = [var]
    out = set()
    for subject in subjects:
        out |= _containers_of(project, F, fn, subject, kind, universe, ctx, _depth, symbols, probe)
    return out


class _OrNone:
    """a universe of names that also admits None (what a function delegated to can return when nothing matches)"""

    def __init__(self, universe):
        self.u = universe.u if isinstance(universe, _OrNone) else universe

    def __contains__(self, x):
        return x is None or x in self.u


def _delegate(project, fn, F, call, var):
    """(callee, its parameter receiving `var`, [(other parameter, the expression it is bound to)]) for `f(var, ..)` / `K.f(var, ..)` /
    `self.f(var, ..)` resolved in the package, else None.  The other parameters are bound from the call (positional, keyword; caller
    locals expanded) or from their defaults."""
    if not isinstance(call, ast.Call) or any(k.arg is None for k in call.keywords) or any(isinstance(a, ast.Starred) for a in call.args):
        return None
    pos = [i for i, a in enumerate(call.args) if F.xt(a) == var]
    kws = [k.arg for k in call.keywords if F.xt(k.value) == var]
    if len(pos) + len(kws) != 1:
        return None
    f = call.func
    target = None
    if isinstance(f, ast.Attribute) and isinstance(f.value, ast.Name) and fn.cls is not None and f.value.id in ("self", "cls", fn.self_name or ""):
        m = fn.cls.lookup(f.attr)
        target = m[2] if m and m[1] == "method" else None
    elif isinstance(f, (ast.Name, ast.Attribute)):
        r = project.resolve_expr(fn.module, f)
        target = r[1] if r and r[0] == "func" else None
    if target is None or target.node is fn.node:
        return None
    a = target.node.args
    if a.vararg or a.kwarg:
        return None
    ps = [x.arg for x in a.posonlyargs + a.args]
    defaults = dict(zip(ps[len(ps) - len(a.defaults):], a.defaults))
    for k, d in zip(a.kwonlyargs, a.kw_defaults):
        if d is not None:
            defaults[k.arg] = d
    if target.kind in ("method", "classmethod") and ps:
        recv_is_class = isinstance(f, ast.Attribute) and isinstance(f.value, ast.Name) and f.value.id not in ("self", "cls", fn.self_name or "")
        if not (target.kind == "method" and recv_is_class):
            ps = ps[1:]
    bound = {}
    for i, arg in enumerate(call.args):
        if i >= len(ps):
            return None
        bound[ps[i]] = arg
    for k in call.keywords:
        bound[k.arg] = k.value
    subject = ps[pos[0]] if pos else kws[0]
    others = []
    for q in ps + [k.arg for k in a.kwonlyargs]:
        if q == subject:
            continue
        if q in bound:
            others.append((q, F.x(bound[q])))
        elif q in defaults:
            others.append((q, defaults[q]))
        else:
            return None
    return target, subject, others


def _bound_callee(ctx, callee, others):
    """the view of `callee` with its other parameters turned into locals bound to what the call passes (so that a table or a
    default handed over as an argument is seen where the callee uses it)"""
    import copy

    if not others:
        return sem_view(ctx, callee)
    node = copy.deepcopy(callee.node)
    names = {q for q, _ in others}
    a = node.args
    nd = len(a.defaults)
    plain = a.posonlyargs + a.args
    keep_defaults = [d for x, d in zip(plain[len(plain) - nd:], a.defaults) if x.arg not in names] if nd else []
    a.posonlyargs = [x for x in a.posonlyargs if x.arg not in names]
    a.args = [x for x in a.args if x.arg not in names]
    a.defaults = keep_defaults[-len(a.posonlyargs + a.args):] if keep_defaults and (a.posonlyargs or a.args) else []
    kwd = [(x, d) for x, d in zip(a.kwonlyargs, a.kw_defaults) if x.arg not in names]
    a.kwonlyargs, a.kw_defaults = [x for x, _ in kwd], [d for _, d in kwd]
    pre = [ast.copy_location(ast.Assign(targets=[ast.Name(id=q, ctx=ast.Store())], value=copy.deepcopy(e), lineno=node.lineno), node) for q, e in others]
    doc = node.body[:1] if node.body and isinstance(node.body[0], ast.Expr) and isinstance(node.body[0].value, ast.Constant) else []
    node.body = doc + pre + node.body[len(doc):]
    ast.fix_missing_locations(node)
    return sem_view(ctx, replace_node(callee, node))


def _containers_of(project, F, fn, var, kind, universe, ctx=None, _depth=0, symbols=False, probe=None) -> set:
    facts = KindFacts(project, kind)
    out = set()

    feasible = F.reach([F.g.entry], var, facts)

    busy = set()

    def name_values(name, at):
        """constants (strings, None) the local `name` can hold at node `at`: the constant assignments that reach it on the
        paths of this kind; None (the Python value) in the result = 'may be None'; UNKNOWN when something else can reach it"""
        if (name, at) in busy or len(busy) > 40:
            return None
        busy.add((name, at))
        try:
            return _name_values(name, at)
        finally:
            busy.discard((name, at))

    def _name_values(name, at):
        out, unknown = set(), False
        for m in feasible:
            if not binds(m, name):
                continue
            val = m.ast.value if isinstance(m.ast, (ast.Assign, ast.AnnAssign)) else None
            live = F.reach([x for x, _ in m.succ], var, facts, avoid=lambda x, m=m: x is not m and binds(x, name))
            if at not in live:
                continue
            vs = operand(val, m) if val is not None else None
            if vs is None:
                unknown = True
            else:
                out |= vs
        return None if unknown or not out else out

    def operand(expr, at):
        """set of constants (strings / None) an expression can evaluate to at node `at`, None when it cannot be told"""
        e = F.x(expr)
        cs = _str_consts(F, e, var, facts)
        if cs:
            return cs
        if symbols:
            # an attribute of the object itself stands for its name: `self._data` -> "._data", getattr(self, <name>) -> "." + <name>
            sn = fn.self_name
            if isinstance(e, ast.Attribute) and isinstance(e.value, ast.Name) and sn is not None and e.value.id == sn:
                return {"." + e.attr}
            if isinstance(e, ast.Call) and name_of(e.func) == "getattr" and len(e.args) >= 2 and sn is not None and unparse(e.args[0]) == sn:
                vs = operand(e.args[1], at)
                return None if vs is None else {"." + x for x in vs if isinstance(x, str)}
        if isinstance(e, ast.BoolOp) and isinstance(e.op, ast.Or):
            out = set()
            for i, v in enumerate(e.values):
                vs = operand(v, at)
                if vs is None:
                    return None
                out |= {x for x in vs if x}
                if all(vs) and i < len(e.values) - 1:
                    return out  # cannot be falsy: the later operands are never taken
                if i == len(e.values) - 1:
                    out |= {x for x in vs if not x}
            return out
        if isinstance(e, ast.Name):
            return name_values(e.id, at)
        d = _delegate(project, fn, F, e, var) if ctx is not None and _depth < 2 else None
        if d is not None:
            return containers_of_kind(project, _bound_callee(ctx, d[0], d[2]), d[1], kind, _OrNone(universe), ctx, _depth + 1, symbols)
        return None

    def values(expr, at):
        """container names an assigned / returned expression can stand for"""
        vs = operand(expr, at)
        return {x for x in (vs or ()) if x in universe}

    def binds(m, name):
        if m.kind != "stmt" or not isinstance(m.ast, (ast.Assign, ast.AnnAssign, ast.AugAssign)):
            return False
        tgs = m.ast.targets if isinstance(m.ast, ast.Assign) else [m.ast.target]
        return any(isinstance(t, ast.Name) and t.id == name for t in tgs)

    def loads(m, name):
        if m.ast is None or isinstance(m.ast, list):
            return False
        roots = [it.context_expr for it in m.ast.items] if m.kind == "with" else [m.ast]
        return any(isinstance(y, ast.Name) and y.id == name and isinstance(y.ctx, ast.Load) for r in roots for y in ast.walk(r))

    direct_results = set()  # names returned as they are (`return x`, `return x or <default>`)
    for r in ast.walk(fn.node):
        if isinstance(r, ast.Return) and r.value is not None:
            vs = r.value.values if isinstance(r.value, ast.BoolOp) else [r.value]
            direct_results |= {v.id for v in vs if isinstance(v, ast.Name)}

    if probe is not None:
        # not the function's own result: the values of chosen expressions at chosen nodes, for this kind
        for e, at in probe(F, feasible):
            vs = operand(e, at)
            out |= {x for x in (vs or ()) if x in universe}
        return out
    falls_through = False
    for n in feasible:
        if n.kind == "return":
            rv = operand(n.ast, n) if n.ast is not None else {None}
            if rv is not None and None in rv:
                falls_through = True
        elif F.g.exit in [m for m, _ in n.succ]:
            falls_through = True
    if falls_through and None in universe:
        out.add(None)
    for n in feasible:
        if n.kind == "return" and n.ast is not None:
            out |= values(n.ast, n)
        elif n.kind == "stmt" and isinstance(n.ast, (ast.Assign, ast.AnnAssign)) and n.ast.value is not None:
            vals = values(n.ast.value, n)
            if not vals:
                continue
            tgs = n.ast.targets if isinstance(n.ast, ast.Assign) else [n.ast.target]
            for t in tgs:
                if _depth > 0 and not (isinstance(t, ast.Name) and t.id in direct_results):
                    continue  # a function delegated to counts for what it RETURNS only
                if not isinstance(t, ast.Name):
                    out |= vals
                    continue
                # the value counts when it can still be the one that is read (a default overwritten on every path of this kind does not)
                live = F.reach([m for m, _ in n.succ], var, facts, avoid=lambda m, t=t, n=n: m is not n and binds(m, t.id))
                killers = [m for m in F.g.nodes if m is not n and binds(m, t.id)]
                read = any(loads(m, t.id) for m in live) or any(loads(k, t.id) and any(k is x for p_ in live for x, _ in p_.succ) for k in killers)
                if read:
                    out |= vals
    for lp in ast.walk(fn.node):
        if not isinstance(lp, ast.For):
            continue
        it = F.x(lp.iter)
        if isinstance(it, ast.Call) and isinstance(it.func, ast.Attribute) and it.func.attr == "items" and not it.args:
            it = it.func.value
        pairs = _pairs(it) or _pairs(_hoisted(project, fn, it))
        if not pairs or not (isinstance(lp.target, (ast.Tuple, ast.List)) and len(lp.target.elts) == 2 and isinstance(lp.target.elts[0], ast.Name)):
            continue
        key = lp.target.elts[0].id
        scanned = any(isinstance(c, ast.Call) and name_of(c.func) == "isinstance" and len(c.args) == 2 and F.xt(c.args[0]) == var
                      and key in {y.id for y in ast.walk(c.args[1]) if isinstance(y, ast.Name)} for s_ in lp.body for c in ast.walk(s_))
        if not scanned:
            continue
        for k, v in pairs:
            c = _class_of(project, fn.module, k)
            if c is not None and c in kind.mro:
                if isinstance(v, ast.Constant) and v.value in universe:
                    out.add(v.value)
                break
    return out


# -------------------------------------------------------------------- helpers that were expanded into their callers
def covered_helpers(ctx, fns) -> set:
    """Of the helpers in `fns`: those whose every call in the package was expanded into the caller's view (the
    code is then judged in the context of each caller, not as a function of its own)."""
    out = set()
    fns = [f for f in fns if not f.name.startswith("__")]
    if not fns:
        return out
    names = {f.name for f in fns}
    callers: dict = {}
    for g in ctx.p.all_functions():
        for c in ast.walk(g.node):
            if isinstance(c, ast.Call) and name_of(c.func) in names:
                callers.setdefault(name_of(c.func), set()).add(g)
    for f in fns:
        cs = [g for g in callers.get(f.name, ()) if g.node is not f.node]
        if not cs:
            continue
        left = False
        for g in cs:
            v = sem_view(ctx, g)
            if any(isinstance(c, ast.Call) and name_of(c.func) == f.name for c in ast.walk(v.node)):
                left = True
                break
        if not left:
            out.add(f)
    return out


# -------------------------------------------------------------------- extra normalisation: loops in disguise, table loops
_CONSUMERS = ("list", "tuple", "set", "frozenset", "deque")


class _Loopify(ast.NodeTransformer):
    """Statements that are loops in disguise become `for` loops, so that what runs per element is visible to the rules:
    `[f(x) for x in xs if c]` / `list(map(f, xs))` / `for _ in map(f, xs): pass` used as statements."""

    def __init__(self):
        self.changed = False
        self.n = 0

    def _for(self, target, it, body, at):
        self.changed = True
        return ast.copy_location(ast.For(target=target, iter=it, body=body, orelse=[], lineno=at.lineno), at)

    def _map_call(self, e):
        if isinstance(e, ast.Call) and isinstance(e.func, ast.Name) and e.func.id == "map" and len(e.args) == 2 and not e.keywords \
                and isinstance(e.args[0], (ast.Name, ast.Attribute)):
            return e.args
        return None

    def _from_map(self, m, at, body_after=()):
        self.n += 1
        x = f"_elt__m{self.n}"
        call = ast.Expr(value=ast.Call(func=m[0], args=[ast.Name(id=x, ctx=ast.Load())], keywords=[]))
        return self._for(ast.Name(id=x, ctx=ast.Store()), m[1], [ast.copy_location(call, at)] + list(body_after), at)

    def visit_Expr(self, s):
        v = s.value
        if isinstance(v, (ast.ListComp, ast.SetComp, ast.GeneratorExp)) and len(v.generators) == 1 and not v.generators[0].is_async:
            g = v.generators[0]
            body = [ast.copy_location(ast.Expr(value=v.elt), s)]
            for c in reversed(g.ifs):
                body = [ast.copy_location(ast.If(test=c, body=body, orelse=[]), s)]
            return self._for(g.target, g.iter, body, s)
        if isinstance(v, ast.Call) and isinstance(v.func, (ast.Name, ast.Attribute)) and name_of(v.func) in _CONSUMERS and v.args:
            inner = v.args[0]
            m = self._map_call(inner)
            if m is not None:
                return self._from_map(m, s)
            if isinstance(inner, (ast.ListComp, ast.GeneratorExp)):
                return self.visit_Expr(ast.copy_location(ast.Expr(value=inner), s))
        return s

    def _first_match(self, v):
        """(generator, default) of `next((elt for t in it if c), default)`"""
        if isinstance(v, ast.Call) and isinstance(v.func, ast.Name) and v.func.id == "next" and len(v.args) == 2 and not v.keywords \
                and isinstance(v.args[0], ast.GeneratorExp) and len(v.args[0].generators) == 1 and not v.args[0].generators[0].is_async:
            return v.args[0], v.args[1]
        return None

    def _search(self, gen, hit, at):
        g = gen.generators[0]
        body = hit
        for c in reversed(g.ifs):
            body = [ast.copy_location(ast.If(test=c, body=body, orelse=[]), at)]
        return g, body

    def visit_Return(self, s):
        fm = self._first_match(s.value)
        if fm is None:
            return s
        gen, default = fm
        g, body = self._search(gen, [ast.copy_location(ast.Return(value=gen.elt), s)], s)
        return [self._for(g.target, g.iter, body, s), ast.copy_location(ast.Return(value=default), s)]

    def visit_Assign(self, s):
        fm = self._first_match(s.value)
        if fm is None or len(s.targets) != 1 or not isinstance(s.targets[0], ast.Name):
            return s
        gen, default = fm
        import copy

        hit = [ast.copy_location(ast.Assign(targets=[copy.deepcopy(s.targets[0])], value=gen.elt, lineno=s.lineno), s), ast.copy_location(ast.Break(), s)]
        g, body = self._search(gen, hit, s)
        if len(g.ifs) != 1:
            return s
        lp = self._for(g.target, g.iter, body, s)
        lp.orelse = [ast.copy_location(ast.Assign(targets=[copy.deepcopy(s.targets[0])], value=default, lineno=s.lineno), s)]
        return lp

    def visit_For(self, s):
        self.generic_visit(s)
        m = self._map_call(s.iter)
        if m is not None and not s.orelse and not any(isinstance(y, (ast.Break, ast.Continue)) for b in s.body for y in ast.walk(b)) \
                and not any(isinstance(y, ast.Name) and isinstance(s.target, ast.Name) and y.id == s.target.id for b in s.body for y in ast.walk(b)):
            return self._from_map(m, s, s.body)
        return s


def _table_rows(project, fn, F, it, arity):
    """rows of the literal table a loop scans: [[expr, ...]] (dict.items() -> [key, value]); None when it is not a literal."""
    it = F.x(it)
    items = False
    if isinstance(it, ast.Call) and isinstance(it.func, ast.Attribute) and it.func.attr == "items" and not it.args:
        it, items = it.func.value, True
    if isinstance(it, ast.BinOp) and isinstance(it.op, ast.Add) and not items:
        # two tables chained: T1 + T2
        def side(e):
            x = F.x(e)
            if not isinstance(x, (ast.Tuple, ast.List, ast.BinOp)):
                x = _hoisted(project, fn, x) or x
            return [] if isinstance(x, (ast.Tuple, ast.List)) and not x.elts else _table_rows(project, fn, F, e, arity)

        left, right = side(it.left), side(it.right)
        if left is None or right is None or not 0 < len(left) + len(right) <= 12:
            return None
        return left + right
    if not isinstance(it, (ast.Dict, ast.Tuple, ast.List)):
        it = _hoisted(project, fn, it)
    if items:
        if not isinstance(it, ast.Dict) or arity != 2 or any(k is None for k in it.keys):
            return None
        rows = [[k, v] for k, v in zip(it.keys, it.values)]
    elif isinstance(it, (ast.Tuple, ast.List)):
        if arity == 1:
            rows = [[e] for e in it.elts]
        else:
            if not all(isinstance(e, (ast.Tuple, ast.List)) and len(e.elts) == arity for e in it.elts):
                return None
            rows = [list(e.elts) for e in it.elts]
    else:
        return None
    if not rows or len(rows) > 12 or any(isinstance(y, ast.Starred) for r in rows for y in r):
        return None
    return rows


def unroll_tables(project, fn):
    """Loops over a LITERAL table (tuple / list of rows, {k: v}.items(); local, hoisted to module or class level) are
    unrolled: one copy of the body per row with the loop variables bound to (and replaced by) the row's elements; the shape
    `for k, v in T: if <test>: ...; break` becomes an if / elif chain (a for-else becomes the final else).  A dict of
    callables or of container names scanned with isinstance then reads like the elif chain it replaced.  Returns (node, changed)."""
    import copy

    changed = [False]
    lazy: dict = {}

    def subst(stmts, mapping):
        # constants stay behind their (bound) loop variable: which one is read is then decided per path
        mapping = {k: v for k, v in mapping.items() if not isinstance(v, ast.Constant)}

        class S(ast.NodeTransformer):
            def visit_Name(self, n):
                if isinstance(n.ctx, ast.Load) and n.id in mapping:
                    return ast.copy_location(copy.deepcopy(mapping[n.id]), n)
                return n

        return [S().visit(copy.deepcopy(s)) for s in stmts]

    def own_jumps(stmts, kinds):
        """break / continue statements that belong to this loop (not to a nested one)"""
        out = []

        def walk(ss):
            for s in ss:
                if isinstance(s, kinds):
                    out.append(s)
                elif isinstance(s, (ast.For, ast.While, ast.FunctionDef, ast.AsyncFunctionDef, ast.ClassDef)):
                    if isinstance(s, (ast.For, ast.While)):
                        walk(s.orelse)
                else:
                    for fld in ("body", "orelse", "finalbody"):
                        walk(getattr(s, fld, []) or [])
                    for h in getattr(s, "handlers", []) or []:
                        walk(h.body)

        walk(stmts)
        return out

    def unroll(lp):
        tgt = lp.target
        names = [tgt] if isinstance(tgt, ast.Name) else (list(tgt.elts) if isinstance(tgt, (ast.Tuple, ast.List)) else None)
        if not names or not all(isinstance(t, ast.Name) for t in names):
            return None
        if "F" not in lazy:
            lazy["F"] = Fx(replace_node(fn, node))
        rows = _table_rows(project, fn, lazy["F"], lp.iter, len(names))
        if rows is None:
            return None
        ids = [t.id for t in names]
        if any(isinstance(y, ast.Name) and y.id in ids and isinstance(y.ctx, (ast.Store, ast.Del)) for s in lp.body for y in ast.walk(s)):
            return None
        if own_jumps(lp.body, (ast.Continue,)):
            return None
        brk = own_jumps(lp.body, (ast.Break,))

        def bind(row):
            return [ast.copy_location(ast.Assign(targets=[ast.Name(id=i, ctx=ast.Store())], value=copy.deepcopy(e), lineno=lp.lineno), lp) for i, e in zip(ids, row)]

        if not brk:
            out = []
            for row in rows:
                out += bind(row) + subst(lp.body, dict(zip(ids, row)))
            return out + list(lp.orelse)
        # `if <test>: ...; break` as the only statement: an if / elif chain
        if len(lp.body) == 1 and isinstance(lp.body[0], ast.If) and not lp.body[0].orelse and len(brk) == 1 and lp.body[0].body[-1] is brk[0]:
            tail = list(lp.orelse)
            for row in reversed(rows):
                st = subst([lp.body[0]], dict(zip(ids, row)))[0]
                st.body = st.body[:-1] or [ast.copy_location(ast.Pass(), lp)]
                st.orelse = tail
                tail = bind(row) + [st]
            return tail
        return None

    def block(stmts):
        out = []
        for s in stmts:
            for fld in ("body", "orelse", "finalbody"):
                b = getattr(s, fld, None)
                if isinstance(b, list) and b and isinstance(b[0], ast.stmt):
                    setattr(s, fld, block(b))
            for h in getattr(s, "handlers", []) or []:
                h.body = block(h.body)
            if isinstance(s, ast.For):
                u = unroll(s)
                if u is not None:
                    changed[0] = True
                    out += u
                    continue
            out.append(s)
        return out

    if not any(isinstance(y, ast.For) for y in ast.walk(fn.node)):
        return fn.node, False
    node = copy.deepcopy(fn.node)
    node.body = block(node.body)
    ast.fix_missing_locations(node)
    return node, changed[0]


def replace_node(fn, node):
    from ..model import FuncInfo

    return FuncInfo(name=fn.name, module=fn.module, node=node, cls=fn.cls, kind=fn.kind, prop=fn.prop)


class _Retire(ast.NodeTransformer):
    """Names made by an earlier expansion pass (`x__i3`) get a pass-specific suffix, so that a later pass (which numbers its own
    temporaries from 1 again) cannot reuse them."""

    def __init__(self, tag):
        self.tag = tag

    def _r(self, name):
        import re

        return re.sub(r"__i(\d+)$", lambda m: f"__{self.tag}{m.group(1)}", name) if name else name

    def visit_Name(self, n):
        n.id = self._r(n.id)
        return n

    def visit_ExceptHandler(self, n):
        self.generic_visit(n)
        n.name = self._r(n.name)
        return n


def _drop_dead_inits(stmts):
    """`t = None` directly followed by an unconditional `t = <expr>` (the result variable of an expanded one-line helper): the
    first assignment goes, so that t is a single-assignment local that alias expansion sees through."""
    out = []
    for i, s in enumerate(stmts):
        for fld in ("body", "orelse", "finalbody"):
            b = getattr(s, fld, None)
            if isinstance(b, list) and b and isinstance(b[0], ast.stmt):
                setattr(s, fld, _drop_dead_inits(b))
        for h in getattr(s, "handlers", []) or []:
            h.body = _drop_dead_inits(h.body)
        nxt = stmts[i + 1] if i + 1 < len(stmts) else None
        if isinstance(s, ast.Assign) and len(s.targets) == 1 and isinstance(s.targets[0], ast.Name) and isinstance(s.value, ast.Constant) and s.value.value is None \
                and isinstance(nxt, ast.Assign) and len(nxt.targets) == 1 and isinstance(nxt.targets[0], ast.Name) and nxt.targets[0].id == s.targets[0].id \
                and not any(isinstance(y, ast.Name) and y.id == s.targets[0].id for y in ast.walk(nxt.value)):
            continue
        out.append(s)
    return out


def sem_view(ctx, spec_or_fn):
    """The view the C05 rules look at: loops in disguise made explicit, helpers expanded and constants substituted
    (ctx.view), the same again on what the helpers brought in, loops over literal tables unrolled, and the helpers those
    tables named expanded in turn."""
    import copy

    fn = ctx.p.func(spec_or_fn) if isinstance(spec_or_fn, str) else spec_or_fn
    memo = ctx.cache.setdefault("c05.sem_view", {})
    key = id(fn.node)
    if key in memo:
        return memo[key][-1]
    keep = [fn]  # temporaries stay referenced: the normaliser memoises by id(node)
    lf = _Loopify()
    node = lf.visit(copy.deepcopy(fn.node))
    src = fn
    if lf.changed:
        ast.fix_missing_locations(node)
        src = replace_node(fn, node)
        keep.append(src)
    v = ctx.view(src)
    keep.append(v)

    def again(node, tag):
        node = _Retire(tag).visit(node)
        ast.fix_missing_locations(node)
        u = replace_node(fn, node)
        keep.append(u)
        w = ctx.view(u)
        keep.append(w)
        return w

    # what the expanded helpers brought in: dead initialisations of their result variables, their own loops in disguise
    node = copy.deepcopy(v.node)
    before = ast.dump(node)
    node.body = _drop_dead_inits(node.body)
    lf2 = _Loopify()
    node = lf2.visit(node)
    if lf2.changed or ast.dump(node) != before:
        v = again(node, "a")
    for i in range(2):
        node, changed = unroll_tables(ctx.p, v)
        if not changed:
            break
        v = again(node, "bc"[i])
    memo[key] = keep
    return v
