"""Semantic helpers of the C05 rules: the rules ask WHAT a function does on the paths of one kind of entity, on the
normalised view (private helpers expanded, hoisted constants substituted) and with local aliases / temporaries undone,
so that renaming a local, extracting a helper, turning a nested `if` into a guard clause or hoisting a table does not
change a verdict."""

from __future__ import annotations

import ast
from collections import deque

from ..cfg import CFG
from ..kinds import tv
from ..model import unparse
from ..normalize import expanded, single_assignments

_flat_names = ("Data", "Groups", "Objects")
_pure_calls = ("isinstance", "hasattr", "getattr", "type")


def _falsy_literal(e) -> bool:
    return (isinstance(e, ast.Constant) and not e.value) or (isinstance(e, (ast.List, ast.Tuple, ast.Set)) and not e.elts) or (isinstance(e, ast.Dict) and not e.keys)


class _Bools(ast.NodeTransformer):
    """Spellings of a truth test reduced to the tested expression: `X is False` / `X == False` / `X is not True` -> `not X`;
    `X is True` -> `X`;  `bool(X)` -> `X`;  `len(X) > 0`, `len(X) != 0`, `len(X) >= 1` -> `X`;  `len(X) == 0` -> `not X`;
    `X or []` -> `X`."""

    def visit_Call(self, n):
        self.generic_visit(n)
        if isinstance(n.func, ast.Name) and n.func.id == "bool" and len(n.args) == 1 and not n.keywords:
            return n.args[0]
        return n

    def visit_BoolOp(self, n):
        self.generic_visit(n)
        if isinstance(n.op, ast.Or):
            vals = [v for v in n.values if not _falsy_literal(v)]
            if len(vals) == 1:
                return vals[0]
            if vals and len(vals) < len(n.values):
                return ast.copy_location(ast.BoolOp(op=ast.Or(), values=vals), n)
        return n

    def visit_Compare(self, n):
        self.generic_visit(n)
        if len(n.ops) != 1:
            return n
        op, rhs = n.ops[0], n.comparators[0]
        if isinstance(rhs, ast.Constant) and isinstance(rhs.value, bool):
            positive = isinstance(op, (ast.Is, ast.Eq))
            if not positive and not isinstance(op, (ast.IsNot, ast.NotEq)):
                return n
            if positive == rhs.value:
                return n.left
            return ast.copy_location(ast.UnaryOp(op=ast.Not(), operand=n.left), n)
        if isinstance(n.left, ast.Call) and isinstance(n.left.func, ast.Name) and n.left.func.id == "len" and len(n.left.args) == 1 \
                and isinstance(rhs, ast.Constant) and type(rhs.value) is int:
            x = n.left.args[0]
            if (isinstance(op, (ast.Gt, ast.NotEq)) and rhs.value == 0) or (isinstance(op, ast.GtE) and rhs.value == 1):
                return x
            if (isinstance(op, ast.Eq) and rhs.value == 0) or (isinstance(op, ast.Lt) and rhs.value == 1):
                return ast.copy_location(ast.UnaryOp(op=ast.Not(), operand=x), n)
        return n


def name_of(f):
    """Last attribute / bare name of a call's function."""
    return f.attr if isinstance(f, ast.Attribute) else getattr(f, "id", None)


class Fx:
    """A function (normally a normalised view) with its CFG; expressions are compared after alias expansion and the
    tests are evaluated (three-valued) after alias expansion."""

    def __init__(self, fn):
        self.fn = fn
        self.node = fn.node
        self.g = CFG(fn.node)
        self.defs = single_assignments(fn.node)
        self._tests: dict = {}
        self._flags = None

    # ---------------------------------------------------------------- expressions
    def x(self, expr):
        return expanded(expr, self.node, self.defs)

    def xt(self, expr) -> str:
        return unparse(self.x(expr))

    def test(self, n):
        if n not in self._tests:
            self._tests[n] = _Bools().visit(self.x(n.ast))
        return self._tests[n]

    def decided(self, n, var, facts):
        """value of a test node under the facts alone (no path constants)"""
        return tv(self.test(n), var, facts) if n.kind == "test" else None

    # ---------------------------------------------------------------- paths
    def flags(self) -> set:
        """Locals that only ever hold constants (`found = False ... found = True`, the result variable of an expanded
        helper that returns True / False / None): their value is followed along each path."""
        if self._flags is None:
            stores: dict = {}
            consts: dict = {}
            for n in ast.walk(self.node):
                if isinstance(n, ast.Name) and isinstance(n.ctx, (ast.Store, ast.Del)):
                    stores[n.id] = stores.get(n.id, 0) + 1
                if isinstance(n, ast.Assign) and len(n.targets) == 1 and isinstance(n.targets[0], ast.Name) and isinstance(n.value, ast.Constant):
                    consts[n.targets[0].id] = consts.get(n.targets[0].id, 0) + 1
            a = self.node.args
            params = {x.arg for x in a.posonlyargs + a.args + a.kwonlyargs}
            self._flags = {k for k, c in consts.items() if stores.get(k) == c and k not in params}
        return self._flags

    def _facts(self, facts, env):
        if not env:
            return facts
        add = {}
        for name, val in env:
            add[f"truthy:{name}"] = bool(val)
            add[f"const:{name}"] = val
            add[f"notnone:{name}"] = val is not None
        if isinstance(facts, KindFacts):
            return facts.derive(add)
        out = dict(facts)
        out.update(add)
        return out

    def succ(self, n, var, facts, env=()):
        if n.kind == "test":
            v = tv(self.test(n), var, self._facts(facts, env))
            if v is True:
                return [(m, l) for m, l in n.succ if l != "false"]
            if v is False:
                return [(m, l) for m, l in n.succ if l != "true"]
        return n.succ

    def reach(self, starts, var=None, facts=None, avoid=lambda n: False, stop=lambda n: False):
        """Nodes reachable from `starts` on paths that are feasible under the kind facts and under the constants the
        flag locals hold on that very path."""
        facts = facts if facts is not None else {}
        flags = self.flags()
        seen = set()
        dq = deque((n, frozenset()) for n in starts)
        while dq:
            st = dq.popleft()
            n, env = st
            if st in seen or avoid(n):
                continue
            seen.add(st)
            if stop(n):
                continue
            if flags and n.kind == "stmt" and isinstance(n.ast, ast.Assign) and len(n.ast.targets) == 1 and isinstance(n.ast.targets[0], ast.Name) \
                    and n.ast.targets[0].id in flags and isinstance(n.ast.value, ast.Constant):
                nm = n.ast.targets[0].id
                try:
                    env = frozenset([x for x in env if x[0] != nm] + [(nm, n.ast.value.value)])
                except TypeError:  # unhashable constant: cannot happen for ast.Constant
                    env = frozenset(x for x in env if x[0] != nm)
            for m, _ in self.succ(n, var, facts, env):
                if (m, env) not in seen:
                    dq.append((m, env))
        return {n for n, _ in seen}

    # ---------------------------------------------------------------- calls of a CFG node
    @staticmethod
    def calls(n) -> list:
        if n.ast is None or isinstance(n.ast, list):
            return []
        if n.kind == "with":
            return [c for it in n.ast.items for c in ast.walk(it.context_expr) if isinstance(c, ast.Call)]
        return [c for c in ast.walk(n.ast) if isinstance(c, ast.Call)]

    def has_call(self, n, pred) -> bool:
        return any(pred(c) for c in self.calls(n))

    def node_of(self, sub):
        """The CFG node whose statement / expression contains the AST node `sub`."""
        for n in self.g.nodes:
            if n.ast is None or isinstance(n.ast, list):
                continue
            roots = [it.context_expr for it in n.ast.items] if n.kind == "with" else [n.ast]
            if any(sub is y for r in roots for y in ast.walk(r)):
                return n
        return None

    def names_in(self, expr) -> set:
        return {y.id for y in ast.walk(self.x(expr)) if isinstance(y, ast.Name)}


def effectful(calls):
    return [c for c in calls if not (isinstance(c.func, ast.Name) and c.func.id in _pure_calls)]


# -------------------------------------------------------------------- kinds
class KindFacts(dict):
    """facts for kinds.tv: `isinstance(x, C)` for an x known to be an instance of class K — True when C is K or an ancestor
    of K, False when no class of the package derives from both, unknown otherwise (C a descendant of K, or a mix-in);
    and / or for an x known NOT to be an instance of the `excluded` classes — False for them and their descendants."""

    def __init__(self, project, kind=None, extra=None, excluded=()):
        super().__init__(extra or {})
        self.p = project
        self.k = kind
        self.excluded = tuple(excluded)
        self._memo: dict = {}

    def derive(self, extra):
        d = dict(self)
        d.update(extra)
        return KindFacts(self.p, self.k, d, self.excluded)

    def get(self, key, default=None):
        if key in self:
            return self[key]
        if not isinstance(key, str) or not key.isidentifier():
            return default
        if key not in self._memo:
            self._memo[key] = self._rel(key)
        v = self._memo[key]
        return default if v is None else v

    def _rel(self, name):
        cands = self.p.by_name.get(name, [])
        if len(cands) != 1:
            return None
        c = cands[0]
        if any(e in c.mro for e in self.excluded):
            return False
        if self.k is None:
            return None
        if c in self.k.mro:
            return True
        if any(c in s.mro for s in self.p.subclasses(self.k)):
            return None
        return False


def _str_consts(F, expr, var, facts) -> set:
    """String constants an expression can evaluate to (conditional expressions decided by the kind facts)."""
    if isinstance(expr, ast.Constant) and isinstance(expr.value, str):
        return {expr.value}
    if isinstance(expr, ast.IfExp):
        v = tv(_Bools().visit(F.x(expr.test)), var, facts)
        out = set()
        if v is not False:
            out |= _str_consts(F, expr.body, var, facts)
        if v is not True:
            out |= _str_consts(F, expr.orelse, var, facts)
        return out
    return set()


def _class_of(project, mod, expr):
    r = project.resolve_expr(mod, expr) if isinstance(expr, (ast.Name, ast.Attribute)) else None
    if r and r[0] == "class":
        return r[1]
    nm = name_of(expr) if isinstance(expr, (ast.Name, ast.Attribute)) else None
    cands = project.by_name.get(nm, []) if nm else []
    return cands[0] if len(cands) == 1 else None


def _pairs(lit):
    """[(key expr, value expr)] of a {K: v} literal or of a sequence of (K, v) pairs."""
    if isinstance(lit, ast.Dict):
        return [(k, v) for k, v in zip(lit.keys, lit.values) if k is not None]
    if isinstance(lit, (ast.Tuple, ast.List)) and lit.elts and all(isinstance(e, (ast.Tuple, ast.List)) and len(e.elts) == 2 for e in lit.elts):
        return [(e.elts[0], e.elts[1]) for e in lit.elts]
    return None


def _hoisted(project, fn, expr):
    """The literal a module-level name / class attribute is bound to (a table the view did not substitute)."""
    if isinstance(expr, ast.Name):
        r = project.resolve_name(fn.module, expr.id)
        if r and r[0] == "assign":
            return r[1][1]
    if isinstance(expr, ast.Attribute) and isinstance(expr.value, ast.Name):
        owner = None
        if fn.cls is not None and expr.value.id in ("self", "cls", fn.self_name or ""):
            owner = fn.cls
        else:
            r = project.resolve_name(fn.module, expr.value.id)
            if r and r[0] == "class":
                owner = r[1]
        m = owner.lookup(expr.attr) if owner is not None else None
        if m and m[1] == "assign":
            return m[2]
    return None


def containers_of_kind(project, fn, var, kind, universe=_flat_names) -> set:
    """Flat-container names function `fn` (a view) can choose for an entity `var` of class `kind`:
    * the string constants assigned / returned on the paths that are feasible for that kind (isinstance chains, guard
      clauses with early returns, an `else` default, conditional expressions), and
    * the value of the first matching entry of a class -> name table ({K: name} or ((K, name), ...)) that a loop scans
      with `isinstance(var, <key>)`."""
    F = Fx(fn)
    facts = KindFacts(project, kind)
    out = set()
    def binds(m, name):
        if m.kind != "stmt" or not isinstance(m.ast, (ast.Assign, ast.AnnAssign, ast.AugAssign)):
            return False
        tgs = m.ast.targets if isinstance(m.ast, ast.Assign) else [m.ast.target]
        return any(isinstance(t, ast.Name) and t.id == name for t in tgs)

    def loads(m, name):
        if m.ast is None or isinstance(m.ast, list):
            return False
        roots = [it.context_expr for it in m.ast.items] if m.kind == "with" else [m.ast]
        return any(isinstance(y, ast.Name) and y.id == name and isinstance(y.ctx, ast.Load) for r in roots for y in ast.walk(r))

    for n in F.reach([F.g.entry], var, facts):
        if n.kind == "return" and n.ast is not None:
            out |= {s for s in _str_consts(F, n.ast, var, facts) if s in universe}
        elif n.kind == "stmt" and isinstance(n.ast, (ast.Assign, ast.AnnAssign)) and n.ast.value is not None:
            vals = {s for s in _str_consts(F, n.ast.value, var, facts) if s in universe}
            if not vals:
                continue
            tgs = n.ast.targets if isinstance(n.ast, ast.Assign) else [n.ast.target]
            for t in tgs:
                if not isinstance(t, ast.Name):
                    out |= vals
                    continue
                # the value counts when it can still be the one that is read (a default overwritten on every path of this kind does not)
                live = F.reach([m for m, _ in n.succ], var, facts, avoid=lambda m, t=t, n=n: m is not n and binds(m, t.id))
                killers = [m for m in F.g.nodes if m is not n and binds(m, t.id)]
                read = any(loads(m, t.id) for m in live) or any(loads(k, t.id) and any(k is x for p_ in live for x, _ in p_.succ) for k in killers)
                if read:
                    out |= vals
    for lp in ast.walk(fn.node):
        if not isinstance(lp, ast.For):
            continue
        it = F.x(lp.iter)
        if isinstance(it, ast.Call) and isinstance(it.func, ast.Attribute) and it.func.attr == "items" and not it.args:
            it = it.func.value
        pairs = _pairs(it) or _pairs(_hoisted(project, fn, it))
        if not pairs or not (isinstance(lp.target, (ast.Tuple, ast.List)) and len(lp.target.elts) == 2 and isinstance(lp.target.elts[0], ast.Name)):
            continue
        key = lp.target.elts[0].id
        scanned = any(isinstance(c, ast.Call) and name_of(c.func) == "isinstance" and len(c.args) == 2 and F.xt(c.args[0]) == var
                      and key in {y.id for y in ast.walk(c.args[1]) if isinstance(y, ast.Name)} for s_ in lp.body for c in ast.walk(s_))
        if not scanned:
            continue
        for k, v in pairs:
            c = _class_of(project, fn.module, k)
            if c is not None and c in kind.mro:
                if isinstance(v, ast.Constant) and v.value in universe:
                    out.add(v.value)
                break
    return out


# -------------------------------------------------------------------- helpers that were expanded into their callers
def covered_helpers(ctx, fns) -> set:
    """Of the private helpers in `fns`: those whose every call in the package was expanded into the caller's view (the
    code is then judged in the context of each caller, not as a function of its own)."""
    out = set()
    fns = [f for f in fns if f.name.startswith("_") and not f.name.startswith("__")]
    if not fns:
        return out
    names = {f.name for f in fns}
    callers: dict = {}
    for g in ctx.p.all_functions():
        for c in ast.walk(g.node):
            if isinstance(c, ast.Call) and name_of(c.func) in names:
                callers.setdefault(name_of(c.func), set()).add(g)
    for f in fns:
        cs = [g for g in callers.get(f.name, ()) if g.node is not f.node]
        if not cs:
            continue
        left = False
        for g in cs:
            v = ctx.view(g)
            if any(isinstance(c, ast.Call) and name_of(c.func) == f.name for c in ast.walk(v.node)):
                left = True
                break
        if not left:
            out.add(f)
    return out
