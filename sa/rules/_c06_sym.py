"""Path-wise symbolic execution of small functions (used by the C06 rules; nothing of the library is executed).

A rule that asks "on every path on which S happens, was T tested first / did E happen before" must not depend on how the
code is laid out.  This module enumerates the paths of a function and, on each path, the sequence of things that happen
(`Ev`): calls, stores into attributes / items, deletes, raises, and the atomic conditions that were decided (with their
polarity).  Every expression is CLOSED: locals are replaced by what they stand for on that path, so

* local aliases and values read once into a temporary disappear (`ws = parent.workspace; ws.get_entity(u)`),
* private helpers (`self._h(..)`, `cls._h(..)`, `Class._h(..)`, module-level `_h(..)`) are executed in place with their
  parameters bound (also helpers that return from inside a loop),
* module / class level literal constants are replaced by their value and loops over literal tables are unrolled
  (`for kind, name in table: if isinstance(e, kind): return name`), `getattr(x, "const")` becomes `x.const`,
* conditions are decided atom by atom with short-circuit (`a and b`, `not (a or b)`, guard clause vs nested if, conditional
  expressions give the same atoms), constant conditions are folded.

Locals that are mutated in place (a dict being filled, a list being appended to) keep a name of their own (they are objects,
not values); `objdefs` remembers what they were created from.  Other loops run zero or one time with everything they assign
forgotten before and after (enough for "does X happen under Y" questions).  `try` bodies: the handlers start from the state
before the body with the body's events kept as things that may have happened and without its conditions.
"""

from __future__ import annotations

import ast
import copy

from ..model import AnalysisError, FuncInfo, unparse

try:  # every identifier the rules know by name: a function named otherwise cannot be an anchor and may be executed in place
    from ..normalize import rule_named_identifiers
except ImportError:  # pragma: no cover
    def rule_named_identifiers():
        return None

RAISED = object()
# signals that leave every enclosing loop of the frame (xbreak / xreturn: break / return of a loop body that runs at a yield of
# the generator function being executed in place of the loop's iterable)
_LEAVES = ("return", "raise", "xbreak", "xreturn")
MUTATORS = {"append", "extend", "insert", "update", "pop", "popitem", "clear", "setdefault", "remove", "add", "discard", "sort", "reverse",
            "__setitem__", "__delitem__"}
PURE_BUILTINS = {"isinstance", "issubclass", "getattr", "hasattr", "type", "len", "id", "str", "repr", "bool", "callable", "list", "tuple",
                 "set", "dict", "frozenset", "sorted", "any", "all", "iter", "next", "enumerate", "zip", "int", "float", "super"}
_COMPS = (ast.ListComp, ast.SetComp, ast.DictComp, ast.GeneratorExp)


class Ev:
    """One thing that happens on a path.  kind: call | store | del | aug | raise | return | cond | iter / iterend (one turn of a loop
    starts / is over; node = the loop, expr = the closed iterable when it is not a literal) | obj (a local object that is
    mutated later is created: expr = its name, value = what it is created from)."""

    __slots__ = ("kind", "expr", "value", "pol", "node", "maybe", "facts", "_key")

    def __init__(self, kind, expr, node, value=None, pol=None, maybe=False, facts=()):
        self.kind, self.expr, self.node, self.value, self.pol, self.maybe = kind, expr, node, value, pol, maybe
        self.facts = facts  # the conditions (cond events) decided when this happened
        self._key = None

    def as_maybe(self):
        if self.kind in ("iter", "iterend"):
            return self
        return Ev(self.kind, self.expr, self.node, value=self.value, pol=self.pol, maybe=True, facts=self.facts)

    def key(self):
        if self._key is None and self.kind in ("iter", "iterend"):
            self._key = (self.kind, id(self))  # markers are never identified with one another
        if self._key is None:
            self._key = (self.kind, id(self.node), self.pol, unparse(self.expr) if self.expr is not None else None,
                         unparse(self.value) if self.value is not None else None)
        return self._key

    @property
    def lineno(self):
        return getattr(self.node, "lineno", 0)

    def __repr__(self):
        v = f" = {unparse(self.value)}" if self.value is not None else ""
        p = f" [{self.pol}]" if self.kind == "cond" else ""
        return f"<{self.kind}@{self.lineno} {unparse(self.expr) if self.expr is not None else ''}{v}{p}>"


class Path:
    __slots__ = ("trace", "end", "value", "objdefs")

    def __init__(self, trace, end, value, objdefs):
        self.trace, self.end, self.value, self.objdefs = trace, end, value, objdefs

    def conds_before(self, ev):
        """Normalised (text, polarity) of the conditions decided before event `ev` on this path."""
        return [norm_cond(e.expr, e.pol) for e in ev.facts]

    def when(self, expr):
        """Position in the trace of the earliest evaluation of a call that occurs in the (closed) expression, or None: a value
        read into a local keeps the moment it was read."""
        nodes = {id(x) for x in ast.walk(expr) if isinstance(x, ast.Call)}
        for i, e in enumerate(self.trace):
            if e.kind == "call" and id(e.expr) in nodes:
                return i
        return None

    def iteration_of(self, ev):
        """Position of the `iter` marker of the innermost loop turn inside which the event happens, or None."""
        i = next((k for k, e in enumerate(self.trace) if e is ev), None)
        depth = 0
        for k in range((i if i is not None else 0) - 1, -1, -1):
            e = self.trace[k]
            if e.kind == "iterend":
                depth += 1
            elif e.kind == "iter":
                if depth == 0:
                    return k
                depth -= 1
        return None

    def before(self, ev):
        out = []
        for e in self.trace:
            if e is ev:
                break
            out.append(e)
        return out


def norm_cond(expr, pol):
    """(expr, polarity) with `not`, `is not`, `not in`, `!=` folded into the polarity."""
    while True:
        if isinstance(expr, ast.UnaryOp) and isinstance(expr.op, ast.Not):
            expr, pol = expr.operand, not pol
            continue
        if isinstance(expr, ast.Compare) and len(expr.ops) == 1:
            flip = {ast.IsNot: ast.Is, ast.NotIn: ast.In, ast.NotEq: ast.Eq}.get(type(expr.ops[0]))
            if flip is not None:
                expr = ast.Compare(left=expr.left, ops=[flip()], comparators=expr.comparators)
                pol = not pol
        return expr, pol


def call_name(call):
    f = call.func
    return f.attr if isinstance(f, ast.Attribute) else getattr(f, "id", None)


def _const_literal(v) -> bool:
    if isinstance(v, ast.Constant):
        return True
    if isinstance(v, (ast.List, ast.Tuple, ast.Set)):
        return len(v.elts) <= 60 and all(_const_literal(e) or isinstance(e, (ast.Name, ast.Attribute)) for e in v.elts)
    if isinstance(v, ast.Dict):
        return len(v.keys) <= 60 and all(k is not None and (_const_literal(k) or isinstance(k, (ast.Name, ast.Attribute))) for k in v.keys) \
            and all(_const_literal(x) or isinstance(x, (ast.Name, ast.Attribute)) for x in v.values)
    return False


def _is_reference(v) -> bool:
    """The expression denotes an existing object (no new object is made by evaluating it)."""
    if isinstance(v, (ast.Name, ast.Constant)):
        return True
    if isinstance(v, ast.Attribute):
        return _is_reference(v.value)
    if isinstance(v, ast.Subscript):
        return _is_reference(v.value)
    return False


def mutated_names(fn_node) -> set:
    out = set()
    for n in ast.walk(fn_node):
        if isinstance(n, ast.Subscript) and isinstance(n.ctx, (ast.Store, ast.Del)) and isinstance(n.value, ast.Name):
            out.add(n.value.id)
        elif isinstance(n, ast.Call) and isinstance(n.func, ast.Attribute) and n.func.attr in MUTATORS and isinstance(n.func.value, ast.Name):
            out.add(n.func.value.id)
        elif isinstance(n, ast.AugAssign) and isinstance(n.target, ast.Name):
            out.add(n.target.id)
    return out


def assigned_names(stmts) -> set:
    out = set()
    for s in stmts:
        for n in ast.walk(s):
            if isinstance(n, ast.Name) and isinstance(n.ctx, (ast.Store, ast.Del)):
                out.add(n.id)
            elif isinstance(n, ast.ExceptHandler) and n.name:
                out.add(n.name)
    return out


class _State:
    __slots__ = ("envs", "trace", "objdefs", "decided", "nfid", "conds")

    def __init__(self):
        self.nfid = 0
        self.envs = {}
        self.trace = []
        self.conds = []
        self.objdefs = {}
        self.decided = {}

    def fork(self):
        s = _State()
        s.envs = {k: dict(v) for k, v in self.envs.items()}
        s.trace = list(self.trace)
        s.objdefs = dict(self.objdefs)
        s.decided = dict(self.decided)
        s.nfid = self.nfid
        s.conds = list(self.conds)
        return s

    def add(self, kind, expr, node, value=None, pol=None, maybe=False):
        ev = Ev(kind, expr, node, value=value, pol=pol, maybe=maybe, facts=tuple(self.conds))
        self.trace.append(ev)
        if kind == "cond" and not maybe:
            self.conds.append(ev)
        return ev


class _Frame:
    __slots__ = ("fn", "fid", "stack", "mutated", "gen", "dyn")

    def __init__(self, fn, fid, stack, gen=None, mutated=None, dyn=None):
        self.fn, self.fid, self.stack = fn, fid, stack
        # class of the object `self` stands for (the analysed method's class, kept through super() / self.hook() calls:
        # an overridable hook called by a base-class template is the override of that class)
        self.dyn = dyn if dyn is not None else (fn.cls if fn.kind not in ("staticmethod", "classmethod") else None)
        self.gen = gen  # (for statement, frame of the loop) when this frame runs a generator function the loop iterates
        self.mutated = mutated if mutated is not None else mutated_names(fn.node)


class Sym:
    """paths = Sym(ctx, fn, assume).run()"""

    def __init__(self, ctx, fn: FuncInfo, assume=None, boring=None, limit=6000, depth=5, unroll=16):
        self.p = ctx.p
        self.fn = fn
        self.assume = assume
        # boring(closed condition) -> True for conditions the caller will never ask about: the paths through a compound
        # statement that differ only by such conditions (same bindings afterwards) are folded into one, whose events
        # "may have happened" (each event keeps the conditions under which it happened)
        self.boring = boring
        self.limit = limit
        self.depth = depth
        self.unroll = unroll
        self._n = 0
        self._paths = 0
        self._opaque = 0

    # ------------------------------------------------------------------ public
    def run(self) -> list:
        fr = _Frame(self.fn, 0, (self.fn,), mutated=self._mutated(self.fn))
        st = _State()
        a = self.fn.node.args
        env = {x.arg: ast.Name(id=x.arg, ctx=ast.Load()) for x in a.posonlyargs + a.args + a.kwonlyargs}
        if a.vararg:
            env[a.vararg.arg] = ast.Name(id=a.vararg.arg, ctx=ast.Load())
        if a.kwarg:
            env[a.kwarg.arg] = ast.Name(id=a.kwarg.arg, ctx=ast.Load())
        st.envs[0] = env
        self._ptypes = {}
        if self.fn.cls is not None and self.fn.kind not in ("staticmethod", "classmethod") and self.fn.self_name:
            self._ptypes[self.fn.self_name] = self.fn.cls
        for x in a.posonlyargs + a.args + a.kwonlyargs:
            if x.annotation is not None and x.arg not in self._ptypes:
                k = self._ann_class(x.annotation)
                if k is not None:
                    self._ptypes[x.arg] = k
        out = []
        for s, sig, val in self._block(self._body(self.fn), st, fr):
            self._paths += 1
            if self._paths > self.limit:
                raise AnalysisError(f"{self.fn.qualname}: more than {self.limit} paths (function too branchy for the path analysis)")
            if sig == "return":
                s.add("return", val, None)
            out.append(Path(s.trace, {None: "fall", "return": "return", "raise": "raise"}.get(sig, "fall"), val, s.objdefs))
        return out

    # ------------------------------------------------------------------ helpers
    @staticmethod
    def _body(fn):
        return [s for s in fn.node.body if not (isinstance(s, ast.Expr) and isinstance(s.value, ast.Constant) and isinstance(s.value.value, str))]

    def _sym(self, base, fr, node=None):
        self._opaque += 1
        suffix = f"#{fr.fid}" if fr.fid else ""
        return ast.Name(id=f"{base}{suffix}?{getattr(node, 'lineno', self._opaque)}", ctx=ast.Load())

    def _objname(self, name, fr):
        return name if fr.fid == 0 else f"{name}#{fr.fid}"

    def _havoc(self, names, st, fr, node):
        env = st.envs[fr.fid]
        for nm in names:
            env[nm] = self._sym(nm, fr, node)

    # ------------------------------------------------------------------ name resolution
    def _lookup(self, name, st, fr):
        env = st.envs[fr.fid]
        if name in env:
            return env[name]
        r = self.p.resolve_name(fr.fn.module, name)
        if r and r[0] == "assign" and _const_literal(r[1][1]) and not isinstance(r[1][1], ast.Constant):
            return copy.deepcopy(r[1][1])
        if r and r[0] == "assign" and isinstance(r[1][1], ast.Constant) and isinstance(r[1][1].value, str):
            return copy.deepcopy(r[1][1])
        return None

    def _class_const(self, node, st, fr):
        """`self.table` / `cls.table` / `Class.table` (private or upper-case) bound at class level to a literal container."""
        if not (isinstance(node.value, ast.Name) and (node.attr.isupper() or node.attr.startswith("_")) and not node.attr.startswith("__")):
            return None
        owner = None
        recv = node.value.id
        if fr.fn.cls is not None and recv in ("self", "cls", fr.fn.self_name or ""):
            owner = fr.fn.cls
        elif recv not in st.envs[fr.fid]:
            r = self.p.resolve_name(fr.fn.module, recv)
            if r and r[0] == "class":
                owner = r[1]
        if owner is None:
            return None
        for c in owner.mro:
            if isinstance(c, str):
                continue
            if node.attr in c.class_assigns:
                v = c.class_assigns[node.attr][0]
                if v is not None and isinstance(v, (ast.List, ast.Tuple, ast.Set, ast.Dict)) and _const_literal(v) and not node.attr.startswith("_attribute_map"):
                    return copy.deepcopy(v)
                return None
        return None

    def _close_pure(self, e, st, fr, shadow=frozenset()):
        """Substitute names in an expression that is not evaluated now (lambda / comprehension bodies)."""
        me = self

        class C(ast.NodeTransformer):
            def visit_Name(self, n):
                if isinstance(n.ctx, ast.Load) and n.id not in shadow:
                    v = me._lookup(n.id, st, fr)
                    if v is not None:
                        return copy.deepcopy(v)
                return n

            def _comp(self, n):
                bound = set(shadow)
                for g in n.generators:
                    for x in ast.walk(g.target):
                        if isinstance(x, ast.Name):
                            bound.add(x.id)
                return me._close_pure_children(n, st, fr, frozenset(bound))

            visit_ListComp = visit_SetComp = visit_DictComp = visit_GeneratorExp = _comp

            def visit_Lambda(self, n):
                a = n.args
                bound = set(shadow) | {x.arg for x in a.posonlyargs + a.args + a.kwonlyargs}
                return me._close_pure_children(n, st, fr, frozenset(bound))

        return C().visit(copy.deepcopy(e))

    def _close_pure_children(self, n, st, fr, shadow):
        n = copy.copy(n)
        for f, v in ast.iter_fields(n):
            if isinstance(v, ast.AST):
                setattr(n, f, self._close_pure(v, st, fr, shadow))
            elif isinstance(v, list):
                setattr(n, f, [self._close_pure(x, st, fr, shadow) if isinstance(x, ast.AST) else x for x in v])
        return n

    # ------------------------------------------------------------------ expressions
    def _seq(self, exprs, st, fr):
        """Evaluate expressions left to right: yields (state, [closed ...]) or (state, RAISED)."""
        if not exprs:
            yield st, []
            return
        for s1, v in self._ev(exprs[0], st, fr):
            if v is RAISED:
                yield s1, RAISED
                continue
            for s2, rest in self._seq(exprs[1:], s1, fr):
                if rest is RAISED:
                    yield s2, RAISED
                else:
                    yield s2, [v] + rest

    def _ev(self, e, st, fr):
        """yields (state, closed expression | RAISED)"""
        if e is None:
            yield st, None
            return
        if isinstance(e, ast.Constant):
            yield st, e
            return
        if isinstance(e, ast.Name):
            if isinstance(e.ctx, ast.Load):
                v = self._lookup(e.id, st, fr)
                # the closed value is shared, not copied: a call node inside it IS the node of the event that evaluated it (Path.when)
                yield st, (v if v is not None else e)
            else:
                yield st, e
            return
        if isinstance(e, _COMPS) or isinstance(e, ast.Lambda):
            c = self._close_pure(e, st, fr)
            if not isinstance(e, ast.Lambda):
                for x in ast.walk(c):
                    if isinstance(x, ast.Call):
                        st.add("call", x, e, maybe=True)
            yield st, c
            return
        if isinstance(e, ast.Call):
            yield from self._call(e, st, fr)
            return
        if isinstance(e, ast.Attribute):
            k = self._class_const(e, st, fr) if isinstance(e.ctx, ast.Load) else None
            if k is not None:
                yield st, k
                return
            for s1, v in self._ev(e.value, st, fr):
                if v is RAISED:
                    yield s1, RAISED
                    continue
                fld = self._record_field(v, e.attr) if isinstance(v, ast.Call) else None
                yield s1, (fld if fld is not None else ast.copy_location(ast.Attribute(value=v, attr=e.attr, ctx=ast.Load()), e))
            return
        if isinstance(e, ast.NamedExpr):
            for s1, v in self._ev(e.value, st, fr):
                if v is not RAISED and isinstance(e.target, ast.Name):
                    self._bind(e.target.id, v, s1, fr, e)
                yield s1, v
            return
        if isinstance(e, ast.Subscript):
            for s1, vs in self._seq([e.value, e.slice], st, fr):
                if vs is RAISED:
                    yield s1, RAISED
                    continue
                base, sl = vs
                # constant table look-up
                if isinstance(base, ast.Dict) and isinstance(sl, ast.Constant):
                    hit = [v for k, v in zip(base.keys, base.values) if isinstance(k, ast.Constant) and k.value == sl.value]
                    if hit:
                        yield s1, copy.deepcopy(hit[-1])
                        continue
                if isinstance(base, (ast.Tuple, ast.List)) and isinstance(sl, ast.Constant) and isinstance(sl.value, int) \
                        and -len(base.elts) <= sl.value < len(base.elts) and not any(isinstance(x, ast.Starred) for x in base.elts):
                    yield s1, copy.deepcopy(base.elts[sl.value])
                    continue
                yield s1, ast.copy_location(ast.Subscript(value=base, slice=sl, ctx=ast.Load()), e)
            return
        # generic: evaluate the child expressions in order, rebuild
        fields = []
        for f, v in ast.iter_fields(e):
            if isinstance(v, ast.expr):
                fields.append((f, None, v))
            elif isinstance(v, list):
                for i, x in enumerate(v):
                    if isinstance(x, ast.expr):
                        fields.append((f, i, x))
                    elif isinstance(x, ast.keyword):
                        fields.append((f, i, x))
        exprs = [x.value if isinstance(x, ast.keyword) else x for _, _, x in fields]
        for s1, vs in self._seq(exprs, st, fr):
            if vs is RAISED:
                yield s1, RAISED
                continue
            new = copy.copy(e)
            for f, v in ast.iter_fields(e):
                if isinstance(v, list):
                    setattr(new, f, list(v))
            for (f, i, x), v in zip(fields, vs):
                if isinstance(x, ast.keyword):
                    v = ast.keyword(arg=x.arg, value=v)
                if i is None:
                    setattr(new, f, v)
                else:
                    getattr(new, f)[i] = v
            if hasattr(new, "ctx"):
                new.ctx = ast.Load()
            yield s1, new

    # ------------------------------------------------------------------ calls
    @staticmethod
    def _expandable_name(name) -> bool:
        """Private helpers always; public functions only when no rule knows them by name (a helper a refactoring introduced)."""
        if not name or name.startswith("__"):
            return False
        if name.startswith("_"):
            return True
        known = rule_named_identifiers()
        return known is not None and name not in known

    def _ann_class(self, ann):
        """Class named by an annotation (`K`, `mod.K`, `K | None`, `Optional[K]`, "K"), when it is one class of the package."""
        if isinstance(ann, ast.Constant) and isinstance(ann.value, str):
            try:
                ann = ast.parse(ann.value, mode="eval").body
            except SyntaxError:
                return None
        if isinstance(ann, ast.BinOp) and isinstance(ann.op, ast.BitOr):
            sides = [x for x in (ann.left, ann.right) if not (isinstance(x, ast.Constant) and x.value is None)]
            return self._ann_class(sides[0]) if len(sides) == 1 else None
        if isinstance(ann, ast.Subscript) and unparse(ann.value).endswith("Optional"):
            return self._ann_class(ann.slice)
        name = ann.id if isinstance(ann, ast.Name) else ann.attr if isinstance(ann, ast.Attribute) else None
        cands = self.p.by_name.get(name, []) if name else []
        return cands[0] if len(cands) == 1 else None

    def _attr_class(self, owner, attr):
        """Class of `x.attr`: from the annotation of the property / class attribute of x's class when that is known, else when
        every class of the package that defines a property of that name annotates it with the same class."""
        def of(ci):
            m = ci.lookup(attr)
            if m and m[1] == "prop" and m[2].getter is not None:
                return self._ann_class(m[2].getter.node.returns) if m[2].getter.node.returns is not None else None
            if m and m[1] == "assign" and attr in m[0].class_assigns and m[0].class_assigns[attr][1] is not None:
                return self._ann_class(m[0].class_assigns[attr][1])
            return None

        if owner is not None:
            return of(owner)
        got = {id(c): c for c in (of(ci) for ci in self.p.classes if ci.module is not None and ci.module.in_scope and attr in ci.props) if c is not None}
        undecided = [ci for ci in self.p.classes if ci.module is not None and ci.module.in_scope and attr in ci.props and of(ci) is None]
        return next(iter(got.values())) if len(got) == 1 and not undecided else None

    def _class_of(self, e):
        """Static class of a closed expression (written in terms of the analysed function's parameters), or None."""
        if isinstance(e, ast.Name):
            if e.id not in self._ptypes:
                return None
            return self._ptypes[e.id]
        if isinstance(e, ast.Attribute):
            return self._attr_class(self._class_of(e.value), e.attr)
        if isinstance(e, ast.IfExp):
            a, b = self._class_of(e.body), self._class_of(e.orelse)
            return a if a is b else None
        return None

    def _checks(self, target, call, fr, gen=False):
        if target is None or target in fr.stack or len(fr.stack) > self.depth:
            return None
        yields = [x for s in target.node.body for x in ast.walk(s) if isinstance(x, (ast.Yield, ast.YieldFrom))]
        if gen:
            # a generator function can be run in place of the loop that iterates it when every yield is a statement of its own
            stmts = {id(x.value) for s in target.node.body for x in ast.walk(s) if isinstance(x, ast.Expr)}
            if not yields or any(id(y) not in stmts for y in yields):
                return None
        elif yields:
            return None
        a = target.node.args
        if a.vararg or any(isinstance(x, ast.Starred) for x in call.args) or (any(k.arg is None for k in call.keywords) and not a.kwarg):
            return None
        for d in target.node.decorator_list:
            if unparse(d) not in ("staticmethod", "classmethod"):
                return None
        if any(isinstance(x, (ast.Global, ast.Nonlocal, ast.FunctionDef, ast.AsyncFunctionDef, ast.ClassDef)) for s in target.node.body for x in ast.walk(s)):
            return None
        return target

    def _callee_on(self, call, recv, fr, gen=False):
        """Method called on an object whose class is known from annotations (`parent.workspace.m(..)`, `alias.m(..)`)."""
        name = call.func.attr
        if not self._expandable_name(name):
            return None
        K = self._class_of(recv)
        if K is None:
            return None
        m = K.lookup(name)
        if not (m and m[1] == "method") or m[2].kind not in ("method",):
            return None
        if any(sub.own(name) is not None for sub in self.p.subclasses(K, strict=True)):
            return None  # dynamic dispatch
        return self._checks(m[2], call, fr, gen)

    def _callee(self, call, fr, st, gen=False):
        f = call.func
        name = f.attr if isinstance(f, ast.Attribute) else getattr(f, "id", None)
        if not self._expandable_name(name):
            return None
        fn = fr.fn
        target = None
        if isinstance(f, ast.Attribute) and isinstance(f.value, ast.Name) and (f.value.id in ("self", "cls", fn.self_name or "") or f.value.id not in st.envs[fr.fid]):
            recv = f.value.id
            if fn.cls is not None and recv in ("self", "cls", fn.self_name or ""):
                cls0 = fr.dyn if fr.dyn is not None and recv != "cls" and fn.kind != "classmethod" else fn.cls
                m = cls0.lookup(name)
                if m and m[1] == "method":
                    target = m[2]
                    for sub in self.p.subclasses(cls0, strict=True):
                        if sub.own(name) is not None:
                            return None
            else:
                r = self.p.resolve_name(fn.module, recv)
                if r and r[0] == "class":
                    m = r[1].lookup(name)
                    if m and m[1] == "method":
                        target = m[2]
                elif r and r[0] == "module":  # module.function(..)
                    target = r[1].functions.get(name)
        elif isinstance(f, ast.Name) and name not in st.envs[fr.fid]:
            r = self.p.resolve_name(fn.module, name)
            if r and r[0] == "func":
                target = r[1]
        return self._checks(target, call, fr, gen)

    def _callee_super(self, call, fr):
        """`super().m(..)`: m of the next class after the current one in the MRO of the object's class."""
        f = call.func
        if not (isinstance(f, ast.Attribute) and isinstance(f.value, ast.Call) and isinstance(f.value.func, ast.Name) and f.value.func.id == "super"
                and not f.value.args and not f.value.keywords):
            return None
        fn = fr.fn
        if fn.cls is None or fn.kind != "method" or f.attr.startswith("__") or not (self._expandable_name(f.attr) or f.attr == fn.name):
            return None
        mro = [c for c in (fr.dyn or fn.cls).mro if not isinstance(c, str)]
        if fn.cls not in mro:
            return None
        for c in mro[mro.index(fn.cls) + 1:]:
            o = c.own(f.attr)
            if o is not None:
                return self._checks(o[1], call, fr) if o[0] == "method" and o[1].kind == "method" else None
        return None

    # ------------------------------------------------------------------ locals mutated through a helper
    def _static_callee(self, call, fn):
        """Package function a call resolves to from the text alone (self._h / cls._h / Class._h / h), expandable or not."""
        f = call.func
        name = f.attr if isinstance(f, ast.Attribute) else getattr(f, "id", None)
        if not self._expandable_name(name):
            return None, False
        if isinstance(f, ast.Attribute) and isinstance(f.value, ast.Name):
            recv = f.value.id
            if fn.cls is not None and recv in ("self", "cls", fn.self_name or ""):
                m = fn.cls.lookup(name)
                return (m[2], True) if m and m[1] == "method" else (None, False)
            r = self.p.resolve_name(fn.module, recv)
            if r and r[0] == "class":
                m = r[1].lookup(name)
                return (m[2], m[2].kind == "classmethod") if m and m[1] == "method" else (None, False)
            if r and r[0] == "module":
                return r[1].functions.get(name), False
        elif isinstance(f, ast.Name):
            r = self.p.resolve_name(fn.module, name)
            if r and r[0] == "func":
                return r[1], False
        return None, False

    def _mutated(self, fn, _stack=()):
        """Locals / parameters of fn mutated in place: directly, or by being handed to a package helper that mutates the
        corresponding parameter (so that a dictionary filled by helpers keeps a name of its own)."""
        cache = self.__dict__.setdefault("_mut_cache", {})
        key = id(fn.node)
        if key in cache:
            return cache[key]
        out = set(mutated_names(fn.node))
        if key not in _stack and len(_stack) < 4:
            for c in ast.walk(fn.node):
                if not isinstance(c, ast.Call) or not any(isinstance(a, ast.Name) for a in list(c.args) + [k.value for k in c.keywords]):
                    continue
                callee, bound = self._static_callee(c, fn)
                if callee is None or callee.node is fn.node:
                    continue
                a = callee.node.args
                params = [x.arg for x in a.posonlyargs + a.args]
                if callee.kind in ("method", "classmethod") and bound and params:
                    params = params[1:]
                theirs = self._mutated(callee, _stack + (key,))
                for prm, arg in list(zip(params, c.args)) + [(k.arg, k.value) for k in c.keywords if k.arg]:
                    if isinstance(arg, ast.Name) and prm in theirs:
                        out.add(arg.id)
        if not _stack:
            cache[key] = out
        return out

    # ------------------------------------------------------------------ record types (NamedTuple / dataclass)
    def _record(self, call):
        """(field names, defaults) when the closed call constructs a NamedTuple / dataclass of the package."""
        f = call.func
        name = f.id if isinstance(f, ast.Name) else f.attr if isinstance(f, ast.Attribute) else None
        cache = self.__dict__.setdefault("_records", {})
        if name not in cache:
            cache[name] = None
            cands = self.p.by_name.get(name, []) if name else []
            if len(cands) == 1 and cands[0].node is not None:
                ci = cands[0]
                def named(x, what):
                    if unparse(x).split("(")[0].endswith(what):
                        return True
                    r = self.p.resolve_name(ci.module, x.id) if isinstance(x, ast.Name) and ci.module is not None else None
                    return bool(r and r[0] == "external" and str(r[1]).endswith(what))

                tup = any(named(b, "NamedTuple") for b in ci.node.bases)
                rec = tup or any(named(d.func if isinstance(d, ast.Call) else d, "dataclass") for d in ci.node.decorator_list)
                if rec and "__init__" not in ci.methods and "__new__" not in ci.methods and "__post_init__" not in ci.methods:
                    fields = [(x.target.id, x.value) for x in ci.node.body if isinstance(x, ast.AnnAssign) and isinstance(x.target, ast.Name)]
                    cache[name] = ([n for n, _ in fields], dict(fields), tup)
        return cache[name]

    def _record_field(self, call, attr):
        rec = self._record(call)
        if rec is None or attr not in rec[0] or any(isinstance(a, ast.Starred) for a in call.args) or any(k.arg is None for k in call.keywords):
            return None
        i = rec[0].index(attr)
        if i < len(call.args):
            return call.args[i]
        for k in call.keywords:
            if k.arg == attr:
                return k.value
        return copy.deepcopy(rec[1][attr]) if rec[1].get(attr) is not None and _const_literal(rec[1][attr]) else None

    def _call(self, e, st, fr):
        callee = self._callee(e, fr, st)
        func_parts = [e.func.value] if isinstance(e.func, ast.Attribute) else [e.func]
        args = list(e.args)
        kws = list(e.keywords)
        exprs = func_parts + [a.value if isinstance(a, ast.Starred) else a for a in args] + [k.value for k in kws]
        for s1, vs in self._seq(exprs, st, fr):
            if vs is RAISED:
                yield s1, RAISED
                continue
            f0 = vs[0]
            cargs = []
            for a, v in zip(args, vs[1:1 + len(args)]):
                cargs.append(ast.Starred(value=v, ctx=ast.Load()) if isinstance(a, ast.Starred) else v)
            ckws = [ast.keyword(arg=k.arg, value=v) for k, v in zip(kws, vs[1 + len(args):])]
            func = ast.Attribute(value=f0, attr=e.func.attr, ctx=ast.Load()) if isinstance(e.func, ast.Attribute) else f0
            if callee is not None:
                on_self = isinstance(e.func, ast.Attribute) and isinstance(e.func.value, ast.Name) and e.func.value.id == (fr.fn.self_name or "self") and fr.fn.kind == "method"
                yield from self._inline(e, callee, f0, cargs, ckws, s1, fr, dyn=fr.dyn if on_self else None)
                continue
            sup = self._callee_super(e, fr)
            if sup is not None:
                me = self._lookup(fr.fn.self_name, s1, fr) or ast.Name(id=fr.fn.self_name, ctx=ast.Load())
                yield from self._inline(e, sup, me, cargs, ckws, s1, fr, bound=True, dyn=fr.dyn)
                continue
            if isinstance(e.func, ast.Attribute):
                on = self._callee_on(e, f0, fr)
                if on is not None:
                    yield from self._inline(e, on, f0, cargs, ckws, s1, fr, bound=True, dyn=self._class_of(f0))
                    continue
            elif isinstance(func, ast.Attribute):
                # a bound method taken from a table / kept in a local: `handler = self._m; handler(x)`
                on = self._callee_on(ast.Call(func=func, args=e.args, keywords=e.keywords), func.value, fr)
                if on is not None:
                    yield from self._inline(e, on, func.value, cargs, ckws, s1, fr, bound=True)
                    continue
            # getattr(x, "const") is x.const
            if isinstance(func, ast.Name) and func.id == "getattr" and len(cargs) == 2 and not ckws and isinstance(cargs[1], ast.Constant) \
                    and isinstance(cargs[1].value, str) and cargs[1].value.isidentifier():
                yield s1, ast.copy_location(ast.Attribute(value=cargs[0], attr=cargs[1].value, ctx=ast.Load()), e)
                continue
            c = ast.copy_location(ast.Call(func=func, args=cargs, keywords=ckws), e)
            if self._record(c) is None:  # building a plain record is not an event
                s1.add("call", c, e)
            yield s1, c

    def _bind_call(self, e, callee, recv, cargs, ckws, fr, bound):
        """parameter -> closed argument, or None when the call cannot be matched to the signature."""
        a = callee.node.args
        params = [x.arg for x in a.posonlyargs + a.args]
        defaults = dict(zip(params[len(params) - len(a.defaults):], a.defaults))
        for k, d in zip(a.kwonlyargs, a.kw_defaults):
            params.append(k.arg)
            if d is not None:
                defaults[k.arg] = d
        vals = list(cargs)
        if callee.kind in ("method", "classmethod") and (bound or isinstance(e.func, ast.Attribute)):
            recv_is_class = not bound and isinstance(e.func.value, ast.Name) and e.func.value.id not in ("self", "cls", fr.fn.self_name or "")
            if not (callee.kind == "method" and recv_is_class):
                vals = [recv] + vals
        binding = dict(zip(params, vals))
        extra, star = [], []
        for k in ckws:
            if k.arg is None:
                star.append(k.value)
            elif k.arg in params:
                binding[k.arg] = k.value
            else:
                extra.append(k)
        if a.kwarg:
            # **kwargs of the callee: what the call passes on (`**kwargs`) plus the keywords no parameter takes
            binding[a.kwarg.arg] = star[0] if len(star) == 1 and not extra else ast.Dict(
                keys=[None] * len(star) + [ast.Constant(value=k.arg) for k in extra], values=star + [k.value for k in extra])
        elif star or extra:
            return None
        for prm in params:
            if prm not in binding:
                if prm not in defaults:
                    return None
                binding[prm] = copy.deepcopy(defaults[prm])
        return binding

    def _inline(self, e, callee, recv, cargs, ckws, st, fr, bound=False, dyn=None):
        binding = self._bind_call(e, callee, recv, cargs, ckws, fr, bound)
        if binding is None:
            # cannot bind: leave the call as it is
            func = ast.Attribute(value=recv, attr=e.func.attr, ctx=ast.Load()) if isinstance(e.func, ast.Attribute) else recv
            c = ast.copy_location(ast.Call(func=func, args=cargs, keywords=ckws), e)
            st.add("call", c, e)
            yield st, c
            return
        st.nfid += 1
        nfr = _Frame(callee, st.nfid, fr.stack + (callee,), mutated=self._mutated(callee), dyn=dyn)
        st.envs[nfr.fid] = binding
        for s1, sig, val in self._block(self._body(callee), st, nfr):
            s1.envs.pop(nfr.fid, None)
            if sig == "raise":
                yield s1, RAISED
            elif sig == "return" and val is not None:
                yield s1, val
            else:
                yield s1, ast.Constant(value=None)

    # ------------------------------------------------------------------ conditions
    def _test(self, e, st, fr):
        """yields (state, True | False | RAISED) deciding the test atom by atom."""
        if isinstance(e, ast.UnaryOp) and isinstance(e.op, ast.Not):
            for s1, v in self._test(e.operand, st, fr):
                yield s1, (v if v is RAISED else (not v))
            return
        if isinstance(e, ast.BoolOp):
            stop = isinstance(e.op, ast.Or)

            def rec(i, s):
                for s1, v in self._test(e.values[i], s, fr):
                    if v is RAISED or v is stop or i == len(e.values) - 1:
                        yield s1, v
                    else:
                        yield from rec(i + 1, s1)

            yield from rec(0, st)
            return
        if isinstance(e, ast.IfExp):
            for s1, v in self._test(e.test, st, fr):
                if v is RAISED:
                    yield s1, v
                else:
                    yield from self._test(e.body if v else e.orelse, s1, fr)
            return
        for s1, c in self._ev(e, st, fr):
            if c is RAISED:
                yield s1, RAISED
            else:
                yield from self._decide(c, s1, e)

    @staticmethod
    def _fold(c):
        """Truth value of a closed expression when it is a constant, else None."""
        if isinstance(c, ast.Constant):
            return bool(c.value)
        if isinstance(c, (ast.Tuple, ast.List, ast.Set)) and not any(isinstance(x, ast.Starred) for x in c.elts):
            return bool(c.elts)
        if isinstance(c, ast.Dict) and all(k is not None for k in c.keys):
            return bool(c.keys)
        if isinstance(c, ast.Compare) and len(c.ops) == 1:
            l, op, r = c.left, c.ops[0], c.comparators[0]
            if isinstance(op, (ast.Is, ast.IsNot)) and isinstance(r, ast.Constant) and r.value is None:
                if isinstance(l, ast.Constant):
                    return (l.value is None) == isinstance(op, ast.Is)
                if isinstance(l, (ast.Tuple, ast.List, ast.Set, ast.Dict, ast.JoinedStr) + _COMPS):
                    return isinstance(op, ast.IsNot)
            if isinstance(op, (ast.Eq, ast.NotEq)) and isinstance(l, ast.Constant) and isinstance(r, ast.Constant):
                return (l.value == r.value) == isinstance(op, ast.Eq)
            if isinstance(op, (ast.In, ast.NotIn)) and isinstance(l, ast.Constant) and isinstance(r, (ast.Tuple, ast.List, ast.Set)) \
                    and all(isinstance(x, ast.Constant) for x in r.elts):
                return (l.value in [x.value for x in r.elts]) == isinstance(op, ast.In)
            if isinstance(op, (ast.In, ast.NotIn)) and isinstance(l, ast.Constant) and isinstance(r, ast.Dict) \
                    and all(isinstance(x, ast.Constant) for x in r.keys):
                return (l.value in [x.value for x in r.keys]) == isinstance(op, ast.In)
        return None

    @staticmethod
    def _stable(c) -> bool:
        """The atom cannot change its value along a path (names and constants under isinstance / is / == only)."""
        for x in ast.walk(c):
            if isinstance(x, ast.Call):
                if not (isinstance(x.func, ast.Name) and x.func.id in ("isinstance", "issubclass", "type")):
                    return False
            elif isinstance(x, (ast.Attribute, ast.Subscript, ast.Lambda) + _COMPS):
                return False
        return True

    def _decide(self, c, st, node):
        if isinstance(c, ast.UnaryOp) and isinstance(c.op, ast.Not):
            for s1, v in self._decide(c.operand, st, node):
                yield s1, (not v)
            return
        if isinstance(c, ast.BoolOp):
            stop = isinstance(c.op, ast.Or)

            def rec(i, s):
                for s1, v in self._decide(c.values[i], s, node):
                    if v is stop or i == len(c.values) - 1:
                        yield s1, v
                    else:
                        yield from rec(i + 1, s1)

            yield from rec(0, st)
            return
        if isinstance(c, ast.IfExp):
            for s1, v in self._decide(c.test, st, node):
                yield from self._decide(c.body if v else c.orelse, s1, node)
            return
        if isinstance(c, ast.Compare) and len(c.ops) == 1 and isinstance(c.left, ast.IfExp):
            # (a if t else b) OP x  is  (a OP x) if t else (b OP x)
            alt = [ast.Compare(left=x, ops=c.ops, comparators=c.comparators) for x in (c.left.body, c.left.orelse)]
            yield from self._decide(ast.IfExp(test=c.left.test, body=alt[0], orelse=alt[1]), st, node)
            return
        v = self._fold(c)
        if v is None and self.assume is not None:
            v = self.assume(c)
        key = None
        if v is None and self._stable(c):
            nc, pol = norm_cond(c, True)
            key = unparse(nc)
            if key in st.decided:
                v = st.decided[key] == pol
        if v is not None:
            st.add("cond", c, node, pol=bool(v))
            yield st, bool(v)
            return
        s2 = st.fork()
        for s, pol in ((st, True), (s2, False)):
            if key is not None:
                nc, p0 = norm_cond(c, True)
                s.decided[key] = (pol == p0)
            s.add("cond", c, node, pol=pol)
            yield s, pol

    # ------------------------------------------------------------------ bindings
    def _bind(self, name, v, st, fr, node):
        env = st.envs[fr.fid]
        if v is None:
            env[name] = self._sym(name, fr, node)
            return
        if name in fr.mutated and not _is_reference(v):
            on = self._objname(name, fr)
            st.objdefs[on] = v
            env[name] = ast.Name(id=on, ctx=ast.Load())
            st.add("obj", env[name], node, value=v)
            return
        env[name] = v

    def _assign_target(self, t, v, st, fr, node):
        """yields states after `t = v` (v closed or None for unknown)."""
        if isinstance(t, ast.Name):
            self._bind(t.id, v, st, fr, node)
            yield st
        elif isinstance(t, (ast.Tuple, ast.List)):
            if isinstance(v, ast.Call) and self._record(v) is not None and self._record(v)[2]:
                flds = [self._record_field(v, n) for n in self._record(v)[0]]
                if all(x is not None for x in flds):
                    v = ast.Tuple(elts=flds, ctx=ast.Load())
            if isinstance(v, (ast.Tuple, ast.List)) and len(v.elts) == len(t.elts) and not any(isinstance(x, ast.Starred) for x in list(v.elts) + list(t.elts)):
                def rec(i, s):
                    if i == len(t.elts):
                        yield s
                        return
                    for s1 in self._assign_target(t.elts[i], v.elts[i], s, fr, node):
                        yield from rec(i + 1, s1)
                yield from rec(0, st)
            else:
                for x in ast.walk(t):
                    if isinstance(x, ast.Name):
                        st.envs[fr.fid][x.id] = self._sym(x.id, fr, node)
                yield st
        elif isinstance(t, ast.Starred):
            yield from self._assign_target(t.value, None, st, fr, node)
        elif isinstance(t, ast.Attribute):
            for s1, b in self._ev(t.value, st, fr):
                if b is RAISED:
                    continue
                s1.add("store", ast.copy_location(ast.Attribute(value=b, attr=t.attr, ctx=ast.Load()), t), node, value=v)
                yield s1
        elif isinstance(t, ast.Subscript):
            for s1, vs in self._seq([t.value, t.slice], st, fr):
                if vs is RAISED:
                    continue
                s1.add("store", ast.copy_location(ast.Subscript(value=vs[0], slice=vs[1], ctx=ast.Load()), t), node, value=v)
                yield s1
        else:
            yield st

    # ------------------------------------------------------------------ statements
    def _block(self, stmts, st, fr):
        """yields (state, signal, value); signal None | 'return' | 'raise' | 'break' | 'continue'."""
        if not stmts:
            yield st, None, None
            return
        for s1, sig, val in self._stmt(stmts[0], st, fr):
            if sig is None:
                yield from self._block(stmts[1:], s1, fr)
            else:
                yield s1, sig, val

    def _stmt(self, s, st, fr):
        if self.boring is not None and isinstance(s, (ast.If, ast.For, ast.AsyncFor, ast.While, ast.With, ast.AsyncWith, ast.Try)):
            n0, conds0 = len(st.trace), list(st.conds)
            yield from self._join(list(self._stmt1(s, st, fr)), n0, conds0)
        else:
            yield from self._stmt1(s, st, fr)

    @staticmethod
    def _signature(st):
        return (tuple(sorted((fid, k, unparse(v)) for fid, env in st.envs.items() for k, v in env.items())),
                tuple(sorted((k, unparse(v)) for k, v in st.objdefs.items())))

    def _join(self, outs, n0, conds0):
        groups: dict = {}
        for o in outs:
            if o[1] is None and all(self.boring(e.expr) for e in o[0].trace[n0:] if e.kind == "cond" and not e.maybe):
                groups.setdefault(self._signature(o[0]), []).append(o)
        folded = set()
        for grp in groups.values():
            if len(grp) < 2:
                continue
            states = [o[0] for o in grp]
            keysets = [{e.key() for e in sx.trace[n0:] if not e.maybe} for sx in states]
            common = set.intersection(*keysets)
            seen, new = set(), []
            for sx in states:
                for e in sx.trace[n0:]:
                    k = (e.key(), e.maybe or e.kind == "cond" or e.key() not in common)
                    if k in seen:
                        continue
                    seen.add(k)
                    new.append(e.as_maybe() if k[1] and not e.maybe else e)
            base = states[0]
            base.trace = base.trace[:n0] + new
            base.conds = list(conds0)
            base.decided = {k: v for k, v in base.decided.items() if all(sx.decided.get(k) == v for sx in states)}
            base.nfid = max(sx.nfid for sx in states)
            folded |= {id(sx) for sx in states[1:]}
        for o in outs:
            if id(o[0]) not in folded:
                yield o

    def _stmt1(self, s, st, fr):
        self._n += 1
        if self._n > self.limit * 40:
            raise AnalysisError(f"{self.fn.qualname}: path analysis does not terminate within its budget")
        if isinstance(s, (ast.Assign, ast.AnnAssign)):
            if getattr(s, "value", None) is None:
                yield st, None, None
                return
            targets = s.targets if isinstance(s, ast.Assign) else [s.target]
            for s1, v in self._ev(s.value, st, fr):
                if v is RAISED:
                    yield s1, "raise", None
                    continue

                def rec(i, sx):
                    if i == len(targets):
                        yield sx
                        return
                    for s2 in self._assign_target(targets[i], v, sx, fr, s):
                        yield from rec(i + 1, s2)

                for s3 in rec(0, s1):
                    yield s3, None, None
            return
        if isinstance(s, ast.AugAssign):
            for s1, v in self._ev(s.value, st, fr):
                if v is RAISED:
                    yield s1, "raise", None
                    continue
                t = s.target
                if isinstance(t, ast.Name):
                    cur = self._lookup(t.id, s1, fr) or t
                    s1.add("aug", cur, s, value=v)
                    if not (isinstance(cur, ast.Name) and cur.id in s1.objdefs):
                        s1.envs[fr.fid][t.id] = self._sym(t.id, fr, s)
                    yield s1, None, None
                else:
                    parts = [t.value] + ([t.slice] if isinstance(t, ast.Subscript) else [])
                    for s2, vs in self._seq(parts, s1, fr):
                        if vs is RAISED:
                            yield s2, "raise", None
                            continue
                        tgt = ast.Attribute(value=vs[0], attr=t.attr, ctx=ast.Load()) if isinstance(t, ast.Attribute) else ast.Subscript(value=vs[0], slice=vs[1], ctx=ast.Load())
                        s2.add("aug", ast.copy_location(tgt, t), s, value=v)
                        yield s2, None, None
            return
        if isinstance(s, ast.Expr) and isinstance(s.value, (ast.Yield, ast.YieldFrom)) and fr.gen is not None:
            yield from self._yield(s.value, st, fr)
            return
        if isinstance(s, ast.Expr):
            for s1, v in self._ev(s.value, st, fr):
                yield s1, ("raise" if v is RAISED else None), None
            return
        if isinstance(s, ast.If):
            for s1, v in self._test(s.test, st, fr):
                if v is RAISED:
                    yield s1, "raise", None
                else:
                    yield from self._block(s.body if v else s.orelse, s1, fr)
            return
        if isinstance(s, ast.Return):
            for s1, v in self._ev(s.value, st, fr):
                yield (s1, "raise", None) if v is RAISED else (s1, "return", v)
            return
        if isinstance(s, ast.Raise):
            for s1, v in self._ev(s.exc, st, fr):
                if v is not RAISED:
                    s1.add("raise", v, s)
                yield s1, "raise", None
            return
        if isinstance(s, ast.Assert):
            for s1, v in self._test(s.test, st, fr):
                yield s1, (None if v is True else "raise"), None
            return
        if isinstance(s, ast.Delete):
            def rec(i, sx):
                if i == len(s.targets):
                    yield sx
                    return
                t = s.targets[i]
                if isinstance(t, ast.Name):
                    sx.envs[fr.fid][t.id] = self._sym(t.id, fr, s)
                    yield from rec(i + 1, sx)
                elif isinstance(t, (ast.Attribute, ast.Subscript)):
                    parts = [t.value] + ([t.slice] if isinstance(t, ast.Subscript) else [])
                    for s2, vs in self._seq(parts, sx, fr):
                        if vs is RAISED:
                            continue
                        tgt = ast.Attribute(value=vs[0], attr=t.attr, ctx=ast.Load()) if isinstance(t, ast.Attribute) else ast.Subscript(value=vs[0], slice=vs[1], ctx=ast.Load())
                        s2.add("del", ast.copy_location(tgt, t), s)
                        yield from rec(i + 1, s2)
                else:
                    yield from rec(i + 1, sx)

            for s1 in rec(0, st):
                yield s1, None, None
            return
        if isinstance(s, (ast.For, ast.AsyncFor)):
            yield from self._for(s, st, fr)
            return
        if isinstance(s, ast.While):
            names = assigned_names(s.body)
            for s1, v in self._test(s.test, st, fr):
                if v is RAISED:
                    yield s1, "raise", None
                elif not v:
                    self._havoc(names, s1, fr, s)
                    yield from self._block(s.orelse, s1, fr)
                else:
                    self._havoc(names, s1, fr, s)
                    s1.add("iter", None, s)
                    for s2, sig, val in self._block(s.body, s1, fr):
                        s2.add("iterend", None, s)
                        if sig in _LEAVES:
                            yield s2, sig, val
                        else:
                            self._havoc(names, s2, fr, s)
                            yield s2, None, None
            return
        if isinstance(s, (ast.With, ast.AsyncWith)):
            yield from self._with(s, st, fr)
            return
        if isinstance(s, ast.Try):
            yield from self._try(s, st, fr)
            return
        if isinstance(s, ast.Break):
            yield st, "break", None
            return
        if isinstance(s, ast.Continue):
            yield st, "continue", None
            return
        if isinstance(s, (ast.FunctionDef, ast.AsyncFunctionDef, ast.ClassDef)):
            st.envs[fr.fid][s.name] = self._sym(s.name, fr, s)
            yield st, None, None
            return
        if hasattr(ast, "Match") and isinstance(s, ast.Match):
            raise AnalysisError(f"{self.fn.qualname}: match statement at line {s.lineno}: not modelled")
        yield st, None, None

    def _gen_callee(self, it, st, fr):
        if not isinstance(it, ast.Call) or fr.gen is not None:  # (one generator at a time)
            return None, False
        c = self._callee(it, fr, st, gen=True)
        if c is not None:
            return c, False
        if isinstance(it.func, ast.Attribute):
            c = self._callee_on(it, self._close_pure(it.func.value, st, fr), fr, gen=True)
            return c, True
        return None, False

    def _for_generator(self, s, callee, bound, st, fr):
        """`for t in gen(..): body` with gen a generator function of the package: gen's body runs in place, the loop body at each yield."""
        e = s.iter
        names = assigned_names(s.body) | assigned_names([ast.Expr(value=s.target)])
        parts = ([e.func.value] if isinstance(e.func, ast.Attribute) else []) + list(e.args) + [k.value for k in e.keywords]
        for s1, vs in self._seq(parts, st, fr):
            if vs is RAISED:
                yield s1, "raise", None
                continue
            recv = vs[0] if isinstance(e.func, ast.Attribute) else None
            rest = vs[1:] if isinstance(e.func, ast.Attribute) else vs
            cargs = rest[:len(e.args)]
            ckws = [ast.keyword(arg=k.arg, value=v) for k, v in zip(e.keywords, rest[len(e.args):])]
            binding = self._bind_call(e, callee, recv, cargs, ckws, fr, bound)
            if binding is None:
                raise AnalysisError(f"{self.fn.qualname}: call of generator {callee.qualname} at line {e.lineno} does not match its signature")
            self._havoc(names, s1, fr, s)
            s1.nfid += 1
            nfr = _Frame(callee, s1.nfid, fr.stack + (callee,), gen=(s, fr), mutated=self._mutated(callee))
            s1.envs[nfr.fid] = binding
            for s2, sig, val in self._block(self._body(callee), s1, nfr):
                s2.envs.pop(nfr.fid, None)
                if sig == "raise":
                    yield s2, "raise", None
                elif sig == "xreturn":
                    yield s2, "return", val
                else:
                    self._havoc(names, s2, fr, s)
                    if sig == "xbreak":
                        yield s2, None, None
                    else:
                        yield from self._block(s.orelse, s2, fr)

    def _yield(self, y, st, fr):
        """A yield statement of a generator function run in place of a loop's iterable: the loop body runs here."""
        loop, lfr = fr.gen
        if isinstance(y, ast.YieldFrom):
            for s1, v in self._ev(y.value, st, fr):
                if v is RAISED:
                    yield s1, "raise", None
                    continue
                elems = self._elements(v)
                values = elems if elems is not None and len(elems) <= 6 else [None]
                yield from self._yield_values(values, 0, loop, lfr, s1)
            return
        for s1, v in self._ev(y.value, st, fr):
            if v is RAISED:
                yield s1, "raise", None
            else:
                yield from self._yield_values([v if v is not None else ast.Constant(value=None)], 0, loop, lfr, s1)

    def _yield_values(self, values, i, loop, lfr, st):
        if i == len(values):
            yield st, None, None
            return
        for s1 in self._assign_target(loop.target, values[i], st, lfr, loop):
            for s2, sig, val in self._block(loop.body, s1, lfr):
                if sig == "break":
                    yield s2, "xbreak", None
                elif sig == "return":
                    yield s2, "xreturn", val
                elif sig == "raise":
                    yield s2, "raise", None
                else:
                    yield from self._yield_values(values, i + 1, loop, lfr, s2)

    def _for(self, s, st, fr):
        callee, bound = self._gen_callee(s.iter, st, fr)
        if callee is not None:
            yield from self._for_generator(s, callee, bound, st, fr)
            return
        names = assigned_names(s.body) | assigned_names([ast.Expr(value=s.target)])
        for s1, it in self._ev(s.iter, st, fr):
            if it is RAISED:
                yield s1, "raise", None
                continue
            elems = self._elements(it)
            searching = any(isinstance(x, (ast.Return, ast.Break)) for b in s.body for x in ast.walk(b))
            if elems is not None and len(elems) <= (self.unroll if searching else 6):
                yield from self._unrolled(s, elems, 0, s1, fr)
                continue
            # zero iterations (what the loop assigns is forgotten on every way out of it)
            s0 = s1.fork()
            self._havoc(names, s0, fr, s)
            yield from self._block(s.orelse, s0, fr)
            # one iteration, then anything
            self._havoc(names - assigned_names([ast.Expr(value=s.target)]), s1, fr, s)
            for x in ast.walk(s.target):
                if isinstance(x, ast.Name):
                    s1.envs[fr.fid][x.id] = ast.Name(id=self._objname(x.id, fr), ctx=ast.Load())
            s1.add("iter", it, s)
            for s2, sig, val in self._block(s.body, s1, fr):
                s2.add("iterend", None, s)
                if sig in _LEAVES:
                    yield s2, sig, val
                    continue
                self._havoc(names, s2, fr, s)
                if sig == "break":
                    yield s2, None, None
                else:
                    yield from self._block(s.orelse, s2, fr)

    @staticmethod
    def _elements(it):
        """Elements of a literal iterable (closed), or None."""
        if isinstance(it, (ast.Tuple, ast.List, ast.Set)) and not any(isinstance(x, ast.Starred) for x in it.elts):
            return list(it.elts)
        if isinstance(it, ast.Dict) and all(k is not None for k in it.keys):
            return list(it.keys)
        if isinstance(it, ast.Call) and isinstance(it.func, ast.Attribute) and isinstance(it.func.value, ast.Dict) and not it.args \
                and all(k is not None for k in it.func.value.keys):
            d = it.func.value
            if it.func.attr == "items":
                return [ast.Tuple(elts=[k, v], ctx=ast.Load()) for k, v in zip(d.keys, d.values)]
            if it.func.attr == "keys":
                return list(d.keys)
            if it.func.attr == "values":
                return list(d.values)
        return None

    def _unrolled(self, s, elems, i, st, fr):
        if i == len(elems):
            yield from self._block(s.orelse, st, fr)
            return
        for s1 in self._assign_target(s.target, copy.deepcopy(elems[i]), st, fr, s):
            s1.add("iter", None, s)
            for s2, sig, val in self._block(s.body, s1, fr):
                s2.add("iterend", None, s)
                if sig in _LEAVES:
                    yield s2, sig, val
                elif sig == "break":
                    yield s2, None, None
                else:
                    yield from self._unrolled(s, elems, i + 1, s2, fr)

    def _with(self, s, st, fr):
        suppress = any(isinstance(it.context_expr, ast.Call) and call_name(it.context_expr) == "suppress" for it in s.items)
        before = st.fork() if suppress else None

        def rec(i, sx):
            if i == len(s.items):
                yield sx, None
                return
            it = s.items[i]
            for s1, v in self._ev(it.context_expr, sx, fr):
                if v is RAISED:
                    yield s1, RAISED
                    continue
                if it.optional_vars is not None:
                    for s2 in self._assign_target(it.optional_vars, v, s1, fr, s):
                        yield from rec(i + 1, s2)
                else:
                    yield from rec(i + 1, s1)

        seen = []
        for s1, flag in rec(0, st):
            if flag is RAISED:
                yield s1, "raise", None
                continue
            for s2, sig, val in self._block(s.body, s1, fr):
                seen.append(s2)
                yield s2, sig, val
        if suppress:
            # the body was left early by a suppressed exception: what it did may have happened, what it decided is unknown
            n0 = len(before.trace)
            self._maybe(before, seen, n0)
            for it in s.items:
                if isinstance(it.context_expr, ast.Call) and call_name(it.context_expr) == "suppress":
                    for t in it.context_expr.args:
                        self._key_error(t, s.body, before.fork(), before, fr, s)
            self._havoc(assigned_names(s.body), before, fr, s)
            yield before, None, None

    def _key_error(self, exc_type, body, entry, target, fr, node):
        """A KeyError caught from a body with a single item look-up `X[K]` means K is not in X: recorded as a decided condition."""
        names = [exc_type] if not isinstance(exc_type, ast.Tuple) else list(exc_type.elts)
        if not any(isinstance(n, ast.Name) and n.id == "KeyError" for n in names if n is not None) or len(names) != 1:
            return
        subs = [x for b in body for x in ast.walk(b) if isinstance(x, ast.Subscript) and isinstance(x.ctx, ast.Load)]
        risky = [x for b in body for x in ast.walk(b) if isinstance(x, ast.Call) and isinstance(x.func, ast.Attribute) and x.func.attr in ("pop", "remove", "popitem")]
        if len(subs) != 1 or risky or len(body) != 1 or not isinstance(body[0], (ast.Assign, ast.AnnAssign, ast.Expr, ast.Return)):
            return
        x = self._close_pure(subs[0], entry, fr)
        c = ast.Compare(left=x.slice, ops=[ast.In()], comparators=[x.value])
        target.add("cond", ast.copy_location(c, subs[0]), node, pol=False)

    @staticmethod
    def _maybe(target, states, n0):
        done = set()
        for sx in states:
            for ev in sx.trace[n0:]:
                if ev.kind != "cond" and id(ev.node) not in done:
                    done.add(id(ev.node))
                    target.trace.append(ev.as_maybe())

    def _try(self, s, st, fr):
        entry = st.fork() if s.handlers else None
        n0 = len(st.trace)
        ends = []
        outs = []
        for s1, sig, val in self._block(s.body, st, fr):
            ends.append(s1)
            if sig is None:
                for s2, sig2, val2 in self._block(s.orelse, s1, fr):
                    outs.append((s2, sig2, val2))
            else:
                outs.append((s1, sig, val))
        for h in s.handlers:
            sh = entry.fork()
            self._maybe(sh, ends, n0)
            self._key_error(h.type, s.body, entry, sh, fr, h)
            self._havoc(assigned_names(s.body), sh, fr, s)
            if h.name:
                sh.envs[fr.fid][h.name] = self._sym(h.name, fr, h)
            for s2, sig2, val2 in self._block(h.body, sh, fr):
                outs.append((s2, sig2, val2))
        for s2, sig2, val2 in outs:
            if s.finalbody:
                for s3, sig3, val3 in self._block(s.finalbody, s2, fr):
                    yield (s3, sig3, val3) if sig3 is not None else (s3, sig2, val2)
            else:
                yield s2, sig2, val2


# ---------------------------------------------------------------------- queries used by the rules
def text(e) -> str:
    return unparse(e) if e is not None else ""


def has_cond(conds, pred, pol) -> bool:
    """Some decided condition (normalised) satisfies pred(expr) with polarity pol."""
    return any(p == pol and pred(c) for c, p in conds)
