"""C07.RENUM — a forward must-analysis over the masked copy of a cell object.

Facts (joined by intersection, so a fact at a point holds on EVERY path reaching it in the scenario):
    nn:<path>   the value is not None                cs:<path>   the value is the object's own cells (old vertex numbering)
    rn:<path>   the value is cells looked up through a table written through the vertex mask (new numbering), or rows of such
    dk:<path>   the dict holds re-indexed cells under the key 'cells' (the keyword arguments handed to the parent copy, or a
                dict / record field they are later updated from)
<path> is a local `x`, a field `x.f` of a local holding a NamedTuple / dataclass / tuple (`x.0`), or `self.cells` / `self.vertices`.
Branches are refined by the `is None` tests they passed; edges contradicted by the facts are not followed.  Nothing depends on
the names of locals, on nesting vs guard clauses, on helpers (the view is normalised) or on how the pair (cells, cell mask) travels.
"""

from __future__ import annotations

import ast

from ..cfg import CFG, forward
from ..model import unparse
from ._c07_util import fname, tv3, xt

BOTTOM = object()
KINDS = ("nn", "cs", "rn", "dk")


def path_of(e):
    if isinstance(e, ast.Name):
        return e.id
    if isinstance(e, ast.Attribute) and isinstance(e.value, ast.Name):
        return f"{e.value.id}.{e.attr}"
    if isinstance(e, ast.Subscript) and isinstance(e.value, ast.Name) and isinstance(e.slice, ast.Constant) and isinstance(e.slice.value, int):
        return f"{e.value.id}.{e.slice.value}"
    return None


class MaskedCells:
    def __init__(self, fn, project, mask="mask"):
        self.fn, self.p, self.mask = fn, project, mask
        self.node = fn.node
        kw = fn.node.args.kwarg
        self.kwargs = kw.arg if kw is not None else None
        # tables written through the vertex mask: T[mask] = ... ; or built from a running count of the mask
        self.tables = set()
        for a in ast.walk(self.node):
            if isinstance(a, ast.Assign):
                for t in a.targets:
                    if isinstance(t, ast.Subscript) and isinstance(t.value, ast.Name) and xt(t.slice, self.node) == mask:
                        self.tables.add(t.value.id)
                    if isinstance(t, ast.Name) and any(isinstance(c, ast.Call) and fname(c).endswith("cumsum") and c.args and xt(c.args[0], self.node) == mask
                                                       for c in ast.walk(a.value)):
                        self.tables.add(t.id)
        changed = True
        while changed:  # another name for a table (a copy, the value a helper returned)
            changed = False
            binds = {}
            for a in ast.walk(self.node):
                if isinstance(a, ast.Assign):
                    for t in a.targets:
                        if isinstance(t, ast.Name):
                            binds.setdefault(t.id, []).append(a.value)
            for nm, vals in binds.items():
                vals = [v for v in vals if not (isinstance(v, ast.Constant) and v.value is None)]
                if nm not in self.tables and vals and all(isinstance(v, ast.Name) and v.id in self.tables for v in vals):
                    self.tables.add(nm)
                    changed = True
        self._fields = {}

    # ------------------------------------------------------------------ records
    def fields_of(self, call):
        """Field names of the NamedTuple / dataclass a call constructs, else None."""
        if not (isinstance(call, ast.Call) and isinstance(call.func, ast.Name)):
            return None
        nm = call.func.id
        if nm not in self._fields:
            out = None
            r = None
            mods = [self.fn.module] + ([c.module for c in self.fn.cls.mro if not isinstance(c, str) and c.module is not None] if self.fn.cls else [])
            for m in mods:
                r = self.p.resolve_name(m, nm)
                if r:
                    break
            if r and r[0] == "class" and r[1].node is not None and "__init__" not in r[1].methods:
                fs = [s.target.id for s in r[1].node.body if isinstance(s, ast.AnnAssign) and isinstance(s.target, ast.Name)]
                out = fs or None
            self._fields[nm] = out
        return self._fields[nm]

    # ------------------------------------------------------------------ values
    def own_cells(self, e) -> bool:
        return unparse(e) == "self.cells" or (isinstance(e, ast.Call) and fname(e) == "getattr" and len(e.args) >= 2
                                              and unparse(e.args[0]) == "self" and isinstance(e.args[1], ast.Constant) and e.args[1].value == "cells")

    def facts_of(self, e, st) -> set:
        """{'nn', 'cs', 'rn'} that hold for the value of an expression in state st."""
        out = set()
        if isinstance(e, ast.IfExp):
            v = self.truth(e.test, st)
            if v is True:
                return self.facts_of(e.body, st)
            if v is False:
                return self.facts_of(e.orelse, st)
            return self.facts_of(e.body, st) & self.facts_of(e.orelse, st)
        if self.own_cells(e):
            out |= {"cs"} | ({"nn"} if "nn:self.cells" in st else set())
        pth = path_of(e)
        if pth is not None:
            out |= {k for k in KINDS if f"{k}:{pth}" in st}
            return out
        if isinstance(e, ast.Constant):
            return {"nn"} if e.value is not None else set()
        if isinstance(e, ast.Subscript):
            out.add("nn")
            base = e.value
            if "rn" in self.facts_of(base, st):
                out.add("rn")  # rows / columns of re-indexed cells
            if isinstance(base, ast.Name) and base.id in self.tables and any(
                    "cs" in self.facts_of(x, st) for x in ast.walk(e.slice) if isinstance(x, (ast.Name, ast.Attribute, ast.Call, ast.Subscript))):
                out.add("rn")  # the old indices looked up in the table of new ones
            return out
        if isinstance(e, ast.Dict):
            if any(isinstance(k, ast.Constant) and k.value == "cells" and "rn" in self.facts_of(v, st) for k, v in zip(e.keys, e.values)):
                out.add("dk")
            if any(k is None and "dk" in self.facts_of(v, st) for k, v in zip(e.keys, e.values)) and not any(
                    isinstance(k, ast.Constant) and k.value == "cells" for k in e.keys):
                out.add("dk")  # {**d, ...}
            return out | {"nn"}
        if isinstance(e, (ast.BinOp, ast.UnaryOp, ast.Compare, ast.BoolOp, ast.List, ast.Tuple, ast.Set, ast.JoinedStr)):
            return {"nn"}
        if isinstance(e, ast.Call):
            f = fname(e)
            if f.startswith(("np.", "numpy.")) or self.fields_of(e) is not None:
                out.add("nn")
            if f in ("np.array", "np.asarray", "np.ascontiguousarray", "np.copy") and e.args:
                out |= self.facts_of(e.args[0], st) & {"rn", "cs"}
            if isinstance(e.func, ast.Attribute) and e.func.attr in ("copy", "astype") :
                out |= self.facts_of(e.func.value, st) & {"rn", "cs", "nn"}
        return out

    # ------------------------------------------------------------------ conditions
    def atom(self, e, st):
        if isinstance(e, ast.Call) and fname(e) == "hasattr" and len(e.args) == 2 and unparse(e.args[0]) == "self" and isinstance(e.args[1], ast.Constant):
            if f"nn:self.{e.args[1].value}" in st:  # the scenario: the object has vertices and cells
                return True
        if isinstance(e, ast.Compare) and len(e.ops) == 1 and isinstance(e.ops[0], (ast.Is, ast.IsNot, ast.Eq, ast.NotEq)):
            a, b = e.left, e.comparators[0]
            if isinstance(a, ast.Constant) and a.value is None:
                a, b = b, a
            if isinstance(b, ast.Constant) and b.value is None and "nn" in self.facts_of(a, st):
                return isinstance(e.ops[0], (ast.IsNot, ast.NotEq))
        return None

    def truth(self, test, st):
        return tv3(test, lambda a: self.atom(a, st))

    def refine(self, test, holds: bool, st):
        if isinstance(test, ast.UnaryOp) and isinstance(test.op, ast.Not):
            return self.refine(test.operand, not holds, st)
        if isinstance(test, ast.BoolOp):
            conj = isinstance(test.op, ast.And)
            if holds == conj:  # all operands of an `and` hold / all operands of an `or` fail
                for v in test.values:
                    st = self.refine(v, holds, st)
                return st
            # `and` failed / `or` held: when all operands but one are decided the other way, that one is the reason
            open_ = [v for v in test.values if self.truth(v, st) is not conj]
            if len(open_) == 1:
                return self.refine(open_[0], holds, st)
            return st
        if isinstance(test, ast.Compare) and len(test.ops) == 1 and isinstance(test.ops[0], (ast.Is, ast.IsNot, ast.Eq, ast.NotEq)):
            a, b = test.left, test.comparators[0]
            if isinstance(a, ast.Constant) and a.value is None:
                a, b = b, a
            pth = path_of(a)
            if isinstance(b, ast.Constant) and b.value is None and pth is not None:
                is_none = holds == isinstance(test.ops[0], (ast.Is, ast.Eq))
                if not is_none:
                    return st | {f"nn:{pth}"}
        return st

    # ------------------------------------------------------------------ statements
    @staticmethod
    def kill(st, name):
        return frozenset(f for f in st if not (f.split(":", 1)[1] == name or f.split(":", 1)[1].startswith(name + ".")))

    def bind(self, st, name, value, pre):
        """State after `name = value` (facts of the value read in state `pre`)."""
        st = self.kill(st, name)
        if value is None:
            return st
        add = {f"{k}:{name}" for k in self.facts_of(value, pre)}
        src = path_of(value)
        if src is not None:  # the fields travel with the record
            add |= {f"{f.split(':', 1)[0]}:{name}{f.split(':', 1)[1][len(src):]}" for f in pre if f.split(":", 1)[1].startswith(src + ".")}
        fields = self.fields_of(value)
        items = []
        if fields is not None:
            items = list(zip(fields, value.args)) + [(k.arg, k.value) for k in value.keywords if k.arg]
        elif isinstance(value, ast.Tuple):
            items = [(str(i), v) for i, v in enumerate(value.elts)]
        for f, v in items:
            add |= {f"{k}:{name}.{f}" for k in self.facts_of(v, pre)}
        return st | add

    def dict_effects(self, stmt, st):
        """[(path of a dict, carries re-indexed cells afterwards? True / False)] for the statements that write into a dict:
        d['cells'] = v, d.update({'cells': v}), d.update(cells=v), d.update(<other dict>), d.pop(..) / d.clear()."""
        out = []
        if isinstance(stmt, ast.Expr) and isinstance(stmt.value, ast.Call) and isinstance(stmt.value.func, ast.Attribute):
            c = stmt.value
            d = path_of(c.func.value)
            if d is not None and c.func.attr == "update":
                for k in c.keywords:
                    if k.arg == "cells":
                        out.append((d, "rn" in self.facts_of(k.value, st)))
                for a in c.args:
                    if isinstance(a, ast.Dict) and any(isinstance(k, ast.Constant) and k.value == "cells" for k in a.keys):
                        out.append((d, "dk" in self.facts_of(a, st)))
                    elif "dk" in self.facts_of(a, st):
                        out.append((d, True))
            elif d is not None and c.func.attr in ("pop", "clear", "popitem"):
                out.append((d, False))
        if isinstance(stmt, ast.Assign):
            for t in stmt.targets:
                if isinstance(t, ast.Subscript) and path_of(t.value) is not None and isinstance(t.slice, ast.Constant) and t.slice.value == "cells":
                    out.append((path_of(t.value), "rn" in self.facts_of(stmt.value, st)))
        return out

    def transfer(self, n, st):
        if n.kind == "test":
            v = self.truth(n.ast, st)
            return {"true": BOTTOM if v is False else self.refine(n.ast, True, st),
                    "false": BOTTOM if v is True else self.refine(n.ast, False, st), None: st}
        if n.kind == "fornext":
            for x in ast.walk(n.ast):
                if isinstance(x, ast.Name):
                    st = self.kill(st, x.id)
            return st
        s = n.ast
        if n.kind != "stmt" or s is None:
            return st
        pre = st
        for d, carries in self.dict_effects(s, pre):
            st = (st | {f"dk:{d}"}) if carries else (st - {f"dk:{d}"})
        if isinstance(s, (ast.Assign, ast.AnnAssign)):
            targets = s.targets if isinstance(s, ast.Assign) else [s.target]
            for t in targets:
                if isinstance(t, ast.Name):
                    st = self.bind(st, t.id, s.value, pre)
                elif isinstance(t, (ast.Tuple, ast.List)):
                    src = path_of(s.value) if s.value is not None else None
                    for i, el in enumerate(t.elts):
                        if not isinstance(el, ast.Name):
                            for x in ast.walk(el):
                                if isinstance(x, ast.Name) and isinstance(x.ctx, ast.Store):
                                    st = self.kill(st, x.id)
                            continue
                        if isinstance(s.value, (ast.Tuple, ast.List)) and len(s.value.elts) == len(t.elts):
                            st = self.bind(st, el.id, s.value.elts[i], pre)
                        elif src is not None:
                            st = self.bind(st, el.id, ast.Attribute(value=ast.Name(id=src.split(".")[0], ctx=ast.Load()), attr=str(i), ctx=ast.Load())
                                           if "." not in src else None, pre)
                        else:
                            st = self.kill(st, el.id)
        elif isinstance(s, ast.AugAssign) and isinstance(s.target, ast.Name):
            st = self.kill(st, s.target.id)
        for x in ast.walk(s):
            if isinstance(x, ast.NamedExpr) and isinstance(x.target, ast.Name):
                st = self.bind(st, x.target.id, x.value, pre)
        return st

    # ------------------------------------------------------------------ the question
    def run(self):
        """[(call node, line, carries re-indexed cells?)] for every hand-over of the keyword arguments (`f(..., **kwargs)`)
        that a masked copy of an object with vertices and cells can reach."""
        g = CFG(self.node)
        init = frozenset({f"nn:{self.mask}", "nn:self.vertices", "nn:self.cells", "cs:self.cells"})
        IN = forward(g, init, self.transfer, lambda a, b: a & b, bottom=BOTTOM)
        out = []
        for n in g.nodes:
            if n not in IN or n.ast is None or isinstance(n.ast, list):
                continue
            for c in ast.walk(n.ast):
                if isinstance(c, ast.Call) and any(k.arg is None and isinstance(k.value, ast.Name) and k.value.id == self.kwargs for k in c.keywords):
                    direct = any(k.arg == "cells" and "rn" in self.facts_of(k.value, IN[n]) for k in c.keywords)
                    out.append((c, n.lineno, direct or f"dk:{self.kwargs}" in IN[n]))
        return out

    def subsamples_vertices(self) -> bool:
        """The function hands over vertices selected by the mask (`'vertices': self.vertices[mask, ...]`)."""
        for x in ast.walk(self.node):
            if isinstance(x, ast.Subscript) and isinstance(x.ctx, ast.Load) and xt(x.value, self.node) == "self.vertices":
                s = x.slice
                first = s.elts[0] if isinstance(s, ast.Tuple) and s.elts else s
                if xt(first, self.node) == self.mask:
                    return True
        return False
