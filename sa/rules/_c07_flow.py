"""C07.RENUM — a forward must-analysis over the masked copy of a cell object.

Facts (joined by intersection, so a fact at a point holds on EVERY path reaching it in the scenario):
    nn:<path>   the value is not None                cs:<path>   the value is the object's own cells (old vertex numbering)
    rn:<path>   the value is cells looked up through a table written through the vertex mask (new numbering), or rows of such
    dk:<path>   the dict holds re-indexed cells under the key 'cells' (the keyword arguments handed to the parent copy, or a
                dict / record field they are later updated from)
<path> is a local `x`, a field `x.f` of a local holding a NamedTuple / dataclass / tuple (`x.0`), or `self.cells` / `self.vertices`.
Branches are refined by the `is None` tests they passed; edges contradicted by the facts are not followed.  Nothing depends on
the names of locals, on nesting vs guard clauses, on helpers (the view is normalised) or on how the pair (cells, cell mask) travels.
"""

from __future__ import annotations

import ast

from ..cfg import CFG, forward
from ..model import unparse
from ._c07_util import fname, tv3, xt

BOTTOM = object()
KINDS = ("nn", "cs", "rn", "dk")


def path_of(e):
    if isinstance(e, ast.Name):
        return e.id
    if isinstance(e, ast.Attribute) and isinstance(e.value, ast.Name):
        return f"{e.value.id}.{e.attr}"
    if isinstance(e, ast.Subscript) and isinstance(e.value, ast.Name) and isinstance(e.slice, ast.Constant) and isinstance(e.slice.value, int):
        return f"{e.value.id}.{e.slice.value}"
    return None


class MaskedCells:
    def __init__(self, fn, project, mask="mask"):
        self.fn, self.p, self.mask = fn, project, mask
        self.node = fn.node
        kw = fn.node.args.kwarg
        self.kwargs = kw.arg if kw is not None else None
        # tables written through the vertex mask: T[mask] = ... ; or built from a running count of the mask
        self.tables = set()
        for a in ast.walk(self.node):
            if isinstance(a, ast.Assign):
                for t in a.targets:
                    if isinstance(t, ast.Subscript) and isinstance(t.value, ast.Name) and xt(t.slice, self.node) == mask:
                        self.tables.add(t.value.id)
                    if isinstance(t, ast.Name) and any(isinstance(c, ast.Call) and fname(c).endswith("cumsum") and c.args and xt(c.args[0], self.node) == mask
                                                       for c in ast.walk(a.value)):
                        self.tables.add(t.id)
        changed = True
        while changed:  # another name for a table (a copy, the value a helper returned)
            changed = False
            binds = {}
            for a in ast.walk(self.node):
                if isinstance(a, ast.Assign):
                    for t in a.targets:
                        if isinstance(t, ast.Name):
                            binds.setdefault(t.id, []).append(a.value)
            for nm, vals in binds.items():
                vals = [v for v in vals if not (isinstance(v, ast.Constant) and v.value is None)]
                if nm not in self.tables and vals and all(isinstance(v, ast.Name) and v.id in self.tables for v in vals):
                    self.tables.add(nm)
                    changed = True
        self._fields = {}

    # ------------------------------------------------------------------ records
    def fields_of(self, call):
        """Field names of the NamedTuple / dataclass a call constructs, else None."""
        if not (isinstance(call, ast.Call) and isinstance(call.func, ast.Name)):
            return None
        nm = call.func.id
        if nm not in self._fields:
            out = None
            r = None
            mods = [self.fn.module] + ([c.module for c in self.fn.cls.mro if not isinstance(c, str) and c.module is not None] if self.fn.cls else [])
            for m in mods:
                r = self.p.resolve_name(m, nm)
                if r:
                    break
            if r and r[0] == "class" and r[1].node is not None and "__init__" not in r[1].methods:
                fs = [s.target.id for s in r[1].node.body if isinstance(s, ast.AnnAssign) and isinstance(s.target, ast.Name)]
                out = fs or None
            self._fields[nm] = out
        return self._fields[nm]

    # ------------------------------------------------------------------ values
    def own_cells(self, e) -> bool:
        return unparse(e) == "self.cells" or (isinstance(e, ast.Call) and fname(e) == "getattr" and len(e.args) >= 2
                                              and unparse(e.args[0]) == "self" and isinstance(e.args[1], ast.Constant) and e.args[1].value == "cells")

    def facts_of(self, e, st) -> set:
        """{'nn', 'cs', 'rn'} that hold for the value of an expression in state st."""
        out = set()
        if isinstance(e, ast.IfExp):
            v = self.truth(e.test, st)
            if v is True:
                return self.facts_of(e.body, st)
            if v is False:
                return self.facts_of(e.orelse, st)
            return self.facts_of(e.body, st) & self.facts_of(e.orelse, st)
        if self.own_cells(e):
            out |= {"cs"} | ({"nn"} if "nn:self.cells" in st else set())
        pth = path_of(e)
        if pth is not None:
            out |= {k for k in KINDS if f"{k}:{pth}" in st}
            return out
        if isinstance(e, ast.Constant):
            return {"nn"} if e.value is not None else set()
        if isinstance(e, ast.Subscript):
            out.add("nn")
            base = e.value
            if "rn" in self.facts_of(base, st):
                out.add("rn")  # rows / columns of re-indexed cells
            if isinstance(base, ast.Name) and base.id in self.tables and any(
                    "cs" in self.facts_of(x, st) for x in ast.walk(e.slice) if isinstance(x, (ast.Name, ast.Attribute, ast.Call, ast.Subscript))):
                out.add("rn")  # the old indices looked up in the table of new ones
            return out
        if isinstance(e, ast.Dict):
            if any(isinstance(k, ast.Constant) and k.value == "cells" and "rn" in self.facts_of(v, st) for k, v in zip(e.keys, e.values)):
                out.add("dk")
            if any(k is None and "dk" in self.facts_of(v, st) for k, v in zip(e.keys, e.values)) and not any(
                    isinstance(k, ast.Constant) and k.value == "cells" for k in e.keys):
                out.add("dk")  # {**d, ...}
            return out | {"nn"}
        if isinstance(e, (ast.BinOp, ast.UnaryOp, ast.Compare, ast.BoolOp, ast.List, ast.Tuple, ast.Set, ast.JoinedStr)):
            return {"nn"}
        if isinstance(e, ast.Call):
            f = fname(e)
            if f.startswith(("np.", "numpy.")) or self.fields_of(e) is not None:
                out.add("nn")
            if f in ("np.array", "np.asarray", "np.ascontiguousarray", "np.copy") and e.args:
                out |= self.facts_of(e.args[0], st) & {"rn", "cs"}
            if isinstance(e.func, ast.Attribute) and e.func.attr in ("copy", "astype") :
                out |= self.facts_of(e.func.value, st) & {"rn", "cs", "nn"}
        return out

    # ------------------------------------------------------------------ conditions
    def atom(self, e, st):
        if isinstance(e, ast.Call) and fname(e) == "hasattr" and len(e.args) == 2 and unparse(e.args[0]) == "self" and isinstance(e.args[1], ast.Constant):
            if f"nn:self.{e.args[1].value}" in st:  # the scenario: the object has vertices and cells
                return True
        if isinstance(e, ast.Compare) and len(e.ops) == 1 and isinstance(e.ops[0], (ast.Is, ast.IsNot, ast.Eq, ast.NotEq)):
            a, b = e.left, e.comparators[0]
            if isinstance(a, ast.Constant) and a.value is None:
                a, b = b, a
            if isinstance(b, ast.Constant) and b.value is None and "nn" in self.facts_of(a, st):
                return isinstance(e.ops[0], (ast.IsNot, ast.NotEq))
        return None

    def truth(self, test, st):
        return tv3(test, lambda a: self.atom(a, st))

    def refine(self, test, holds: bool, st):
        if isinstance(test, ast.UnaryOp) and isinstance(test.op, ast.Not):
            return self.refine(test.operand, not holds, st)
        if isinstance(test, ast.BoolOp):
            conj = isinstance(test.op, ast.And)
            if holds == conj:  # all operands of an `and` hold / all operands of an `or` fail
                for v in test.values:
                    st = self.refine(v, holds, st)
                return st
            # `and` failed / `or` held: when all operands but one are decided the other way, that one is the reason
            open_ = [v for v in test.values if self.truth(v, st) is not conj]
            if len(open_) == 1:
                return self.refine(open_[0], holds, st)
            return st
        if isinstance(test, ast.Compare) and len(test.ops) == 1 and isinstance(test.ops[0], (ast.Is, ast.IsNot, ast.Eq, ast.NotEq)):
            a, b = test.left, test.comparators[0]
            if isinstance(a, ast.Constant) and a.value is None:
                a, b = b, a
            pth = path_of(a)
            if isinstance(b, ast.Constant) and b.value is None and pth is not None:
                is_none = holds == isinstance(test.ops[0], (ast.Is, ast.Eq))
                if not is_none:
                    return st | {f"nn:{pth}"}
        return st

    # ------------------------------------------------------------------ statements
    @staticmethod
    def kill(st, name):
        return frozenset(f for f in st if not (f.split(":", 1)[1] == name or f.split(":", 1)[1].startswith(name + ".")))

    def bind(self, st, name, value, pre):
        """State after `name = value` (facts of the value read in state `pre`)."""
        st = self.kill(st, name)
        if value is None:
            return st
        add = {f"{k}:{name}" for k in self.facts_of(value, pre)}
        src = path_of(value)
        if src is not None:  # the fields travel with the record
            add |= {f"{f.split(':', 1)[0]}:{name}{f.split(':', 1)[1][len(src):]}" for f in pre if f.split(":", 1)[1].startswith(src + ".")}
        fields = self.fields_of(value)
        items = []
        if fields is not None:
            items = list(zip(fields, value.args)) + [(k.arg, k.value) for k in value.keywords if k.arg]
        elif isinstance(value, ast.Tuple):
            items = [(str(i), v) for i, v in enumerate(value.elts)]
        for f, v in items:
            add |= {f"{k}:{name}.{f}" for k in self.facts_of(v, pre)}
        return st | add

    def dict_effects(self, stmt, st):
        """[(path of a dict, carries re-indexed cells afterwards? True / False)] for the statements that write into a dict:
        d['cells'] = v, d.update({'cells': v}), d.update(cells=v), d.update(<other dict>), d.pop(..) / d.clear()."""
        out = []
        if isinstance(stmt, ast.Expr) and isinstance(stmt.value, ast.Call) and isinstance(stmt.value.func, ast.Attribute):
            c = stmt.value
            d = path_of(c.func.value)
            if d is not None and c.func.attr == "update":
                for k in c.keywords:
                    if k.arg == "cells":
                        out.append((d, "rn" in self.facts_of(k.value, st)))
                for a in c.args:
                    if isinstance(a, ast.Dict) and any(isinstance(k, ast.Constant) and k.value == "cells" for k in a.keys):
                        out.append((d, "dk" in self.facts_of(a, st)))
                    elif "dk" in self.facts_of(a, st):
                        out.append((d, True))
            elif d is not None and c.func.attr in ("pop", "clear", "popitem"):
                out.append((d, False))
        if isinstance(stmt, ast.Assign):
            for t in stmt.targets:
                if isinstance(t, ast.Subscript) and path_of(t.value) is not None and isinstance(t.slice, ast.Constant) and t.slice.value == "cells":
                    out.append((path_of(t.value), "rn" in self.facts_of(stmt.value, st)))
        return out

    def transfer(self, n, st):
        if n.kind == "test":
            v = self.truth(n.ast, st)
            return {"true": BOTTOM if v is False else self.refine(n.ast, True, st),
                    "false": BOTTOM if v is True else self.refine(n.ast, False, st), None: st}
        if n.kind == "fornext":
            for x in ast.walk(n.ast):
                if isinstance(x, ast.Name):
                    st = self.kill(st, x.id)
            return st
        s = n.ast
        if n.kind != "stmt" or s is None:
            return st
        pre = st
        for d, carries in self.dict_effects(s, pre):
            st = (st | {f"dk:{d}"}) if carries else (st - {f"dk:{d}"})
        if isinstance(s, (ast.Assign, ast.AnnAssign)):
            targets = s.targets if isinstance(s, ast.Assign) else [s.target]
            for t in targets:
                if isinstance(t, ast.Name):
                    st = self.bind(st, t.id, s.value, pre)
                elif isinstance(t, (ast.Tuple, ast.List)):
                    src = path_of(s.value) if s.value is not None else None
                    for i, el in enumerate(t.elts):
                        if not isinstance(el, ast.Name):
                            for x in ast.walk(el):
                                if isinstance(x, ast.Name) and isinstance(x.ctx, ast.Store):
                                    st = self.kill(st, x.id)
                            continue
                        if isinstance(s.value, (ast.Tuple, ast.List)) and len(s.value.elts) == len(t.elts):
                            st = self.bind(st, el.id, s.value.elts[i], pre)
                        elif src is not None:
                            st = self.bind(st, el.id, ast.Attribute(value=ast.Name(id=src.split(".")[0], ctx=ast.Load()), attr=str(i), ctx=ast.Load())
                                           if "." not in src else None, pre)
                        else:
                            st = self.kill(st, el.id)
        elif isinstance(s, ast.AugAssign) and isinstance(s.target, ast.Name):
            st = self.kill(st, s.target.id)
        for x in ast.walk(s):
            if isinstance(x, ast.NamedExpr) and isinstance(x.target, ast.Name):
                st = self.bind(st, x.target.id, x.value, pre)
        return st

    # ------------------------------------------------------------------ the question
    def run(self):
        """[(call node, line, carries re-indexed cells?)] for every hand-over of the keyword arguments (`f(..., **kwargs)`)
        that a masked copy of an object with vertices and cells can reach."""
        g = CFG(self.node)
        init = frozenset({f"nn:{self.mask}", "nn:self.vertices", "nn:self.cells", "cs:self.cells"})
        IN = forward(g, init, self.transfer, lambda a, b: a & b, bottom=BOTTOM)
        out = []
        for n in g.nodes:
            if n not in IN or n.ast is None or isinstance(n.ast, list):
                continue
            for c in ast.walk(n.ast):
                if isinstance(c, ast.Call) and any(k.arg is None and isinstance(k.value, ast.Name) and k.value.id == self.kwargs for k in c.keywords):
                    direct = any(k.arg == "cells" and "rn" in self.facts_of(k.value, IN[n]) for k in c.keywords)
                    out.append((c, n.lineno, direct or f"dk:{self.kwargs}" in IN[n]))
        return out

    def subsamples_vertices(self) -> bool:
        """The function hands over vertices selected by the mask (`'vertices': self.vertices[mask, ...]`)."""
        for x in ast.walk(self.node):
            if isinstance(x, ast.Subscript) and isinstance(x.ctx, ast.Load) and xt(x.value, self.node) == "self.vertices":
                s = x.slice
                first = s.elts[0] if isinstance(s, ast.Tuple) and s.elts else s
                if xt(first, self.node) == self.mask:
                    return True
        return False


# ====================================================================== C07.CHILDMASK
class ChildMasks:
    """Which mask each data child of a masked copy is copied with.

    A may-analysis of origins: every local maps to the set of ORIGINS its value can have (a parameter on entry, the
    statement that computed it, None).  Phase 1 is the ordinary fixpoint over the whole function (all children mixed); it
    gives the state at the head of the children loop, i.e. everything an iteration can inherit from the code before the
    loop AND from earlier iterations.  Phase 2 follows ONE iteration from that state for a child of a stated association
    (the tests on the child's association, `isinstance(child, Data)`, `<cell mask> is None` are decided, contradicted
    edges are not followed) and reads the origins of the `mask=` argument at `<child>.copy(...)`.
    Nothing depends on names of locals, nesting vs guard clauses, helpers (normalised view), dict dispatch on the association.
    """

    def __init__(self, fn, data_bases, mask="mask", cell_mask="cell_mask"):
        from ..normalize import single_assignments

        self.fn, self.node, self.mask, self.cell_mask = fn, fn.node, mask, cell_mask
        self.data_bases = data_bases  # class names a Data child is an instance of
        self.g = CFG(self.node)
        self.single = single_assignments(self.node)
        a = self.node.args
        self.params = [x.arg for x in a.posonlyargs + a.args + a.kwonlyargs]

    # ------------------------------------------------------------------ origins
    @staticmethod
    def get(env, name):
        return frozenset(v for n, v in env if n == name)

    @staticmethod
    def put(env, name, values):
        return frozenset(x for x in env if x[0] != name) | {(name, v) for v in values}

    def origins(self, e, env, scen):
        if isinstance(e, ast.Name):
            got = self.get(env, e.id)
            return got if got else frozenset({f"free:{e.id}"})
        if isinstance(e, ast.Constant) and e.value is None:
            return frozenset({"None"})
        if isinstance(e, ast.IfExp):
            v = self.truth(e.test, env, scen)
            if v is True:
                return self.origins(e.body, env, scen)
            if v is False:
                return self.origins(e.orelse, env, scen)
            return self.origins(e.body, env, scen) | self.origins(e.orelse, env, scen)
        if isinstance(e, ast.BoolOp) and isinstance(e.op, ast.Or) and len(e.values) == 2:
            return self.origins(e.values[0], env, scen) | self.origins(e.values[1], env, scen)
        # a table keyed by the child's association: {CELL: cell_mask, VERTEX: mask}.get(child.association[, default]) / [...]
        table = key = default = None
        if isinstance(e, ast.Subscript):
            table, key = e.value, e.slice
        elif isinstance(e, ast.Call) and isinstance(e.func, ast.Attribute) and e.func.attr == "get" and 1 <= len(e.args) <= 2 and not e.keywords:
            table, key, default = e.func.value, e.args[0], (e.args[1] if len(e.args) == 2 else ast.Constant(value=None))
        if table is not None and isinstance(table, ast.Name) and table.id in self.single:
            table = self.single[table.id]
        if isinstance(table, ast.Dict) and scen and self._assoc_of_child(key, scen) and all(k is not None for k in table.keys):
            member = {self._member(k): v for k, v in zip(table.keys, table.values)}
            if None not in member:
                if scen["assoc"] in member:
                    return self.origins(member[scen["assoc"]], env, scen)
                if scen["assoc"] == "OTHER" and default is not None:
                    return self.origins(default, env, scen)
        return frozenset({f"at:{getattr(e, 'lineno', 0)}:{getattr(e, 'col_offset', 0)}:{type(e).__name__}"})

    # ------------------------------------------------------------------ conditions of one iteration
    @staticmethod
    def _member(e):
        """'VERTEX' for <...>.VERTEX / the string 'VERTEX'."""
        if isinstance(e, ast.Attribute) and e.attr.isupper():
            return e.attr
        if isinstance(e, ast.Constant) and isinstance(e.value, str) and e.value.isupper():
            return e.value
        return None

    def _x(self, e):
        from ..normalize import expanded

        return expanded(e, self.node, self.single)

    def _assoc_of_child(self, e, scen):
        t = unparse(self._x(e))
        return t in (f"{scen['child']}.association", f"{scen['child']}.association.name")

    def atom(self, e, env, scen):
        if not scen:
            return None
        child = scen["child"]
        if isinstance(e, ast.Compare) and len(e.ops) == 1:
            op, a, b = e.ops[0], e.left, e.comparators[0]
            if isinstance(op, (ast.Is, ast.IsNot, ast.Eq, ast.NotEq)):
                pos = isinstance(op, (ast.Is, ast.Eq))
                for x, y in ((a, b), (b, a)):
                    if self._assoc_of_child(x, scen) and self._member(self._x(y)):
                        m = self._member(self._x(y))
                        if scen["assoc"] == "OTHER":
                            same = False if m in ("VERTEX", "CELL") else None
                        else:
                            same = m == scen["assoc"]
                        return None if same is None else (same if pos else not same)
                    if isinstance(y, ast.Constant) and y.value is None and isinstance(x, ast.Name):
                        org = self.get(env, x.id)
                        known = scen["not_none"]
                        if org and org <= known:
                            return not pos
                        if org == frozenset({"None"}):
                            return pos
            if isinstance(op, (ast.In, ast.NotIn)) and self._assoc_of_child(a, scen) and isinstance(self._x(b), (ast.Tuple, ast.List, ast.Set)):
                ms = [self._member(x) for x in self._x(b).elts]
                if all(ms) and (scen["assoc"] != "OTHER" or set(ms) <= {"VERTEX", "CELL"}):
                    inn = scen["assoc"] in ms
                    return inn if isinstance(op, ast.In) else not inn
            return None
        if isinstance(e, ast.Call) and fname(e) == "isinstance" and len(e.args) == 2 and unparse(self._x(e.args[0])) == child:
            names = [unparse(x).split(".")[-1] for x in (e.args[1].elts if isinstance(e.args[1], ast.Tuple) else [e.args[1]])]
            if any(n in self.data_bases for n in names):
                return True
            if all(n in scen["not_data"] for n in names):
                return False
        return None

    def truth(self, test, env, scen):
        return tv3(test, lambda a: self.atom(a, env, scen))

    # ------------------------------------------------------------------ transfer
    def transfer(self, n, env, scen, head=None):
        if head is not None and n is head:
            return {None: BOTTOM}  # phase 2: one iteration only
        if n.kind == "test":
            v = self.truth(n.ast, env, scen)
            return {"true": BOTTOM if v is False else env, "false": BOTTOM if v is True else env, None: env}
        if n.kind == "fornext":
            for x in ast.walk(n.ast):
                if isinstance(x, ast.Name):
                    env = self.put(env, x.id, {f"iter:{n.lineno}:{x.id}"})
            return env
        s = n.ast
        if n.kind != "stmt" or s is None:
            return env
        pre = env
        if isinstance(s, (ast.Assign, ast.AnnAssign)) and s.value is not None:
            for t in (s.targets if isinstance(s, ast.Assign) else [s.target]):
                if isinstance(t, ast.Name):
                    env = self.put(env, t.id, self.origins(s.value, pre, scen))
                elif isinstance(t, (ast.Tuple, ast.List)):
                    for i, el in enumerate(t.elts):
                        if isinstance(el, ast.Name):
                            src = s.value.elts[i] if isinstance(s.value, (ast.Tuple, ast.List)) and len(s.value.elts) == len(t.elts) else None
                            env = self.put(env, el.id, self.origins(src, pre, scen) if src is not None else {f"at:{s.lineno}:{i}:unpack"})
        elif isinstance(s, ast.AugAssign) and isinstance(s.target, ast.Name):
            env = self.put(env, s.target.id, {f"at:{s.lineno}:0:aug"})
        for x in ast.walk(s):
            if isinstance(x, ast.NamedExpr) and isinstance(x.target, ast.Name):
                env = self.put(env, x.target.id, self.origins(x.value, pre, scen))
        return env

    def _solve(self, starts, scen, head=None):
        from collections import deque

        IN = dict(starts)
        work = deque(starts)
        while work:
            n = work.popleft()
            out = self.transfer(n, IN[n], scen, head)
            for m, lab in n.succ:
                s = out.get(lab, out.get(None)) if isinstance(out, dict) else out
                if s is BOTTOM:
                    continue
                if m not in IN:
                    IN[m] = s
                    work.append(m)
                elif not s <= IN[m]:
                    IN[m] = IN[m] | s
                    work.append(m)
        return IN

    # ------------------------------------------------------------------ the question
    def sites(self):
        """[(loop, child name, call node, CFG node, mask argument)] : `<child>.copy(..., mask=M)` inside `for <child> in <...>.children`."""
        out = []
        for lp in ast.walk(self.node):
            if not (isinstance(lp, ast.For) and isinstance(lp.target, ast.Name) and unparse(self._x(lp.iter)).endswith(".children")):
                continue
            child = lp.target.id
            for n in self.g.nodes:
                if n.ast is None or isinstance(n.ast, list) or n.kind == "with":
                    continue
                inside = any(x is n.stmt or x is n.ast for b in lp.body for x in ast.walk(b))
                if not inside:
                    continue
                for c in ast.walk(n.ast):
                    if isinstance(c, ast.Call) and isinstance(c.func, ast.Attribute) and c.func.attr == "copy" and unparse(self._x(c.func.value)) == child:
                        m = next((k.value for k in c.keywords if k.arg == "mask"), None)
                        if m is not None:
                            out.append((lp, child, c, n, m))
        return out

    def run(self):
        """[(call, line, scenario, origins of the mask argument, allowed origins)] for every site and association."""
        entry = frozenset((p, f"param:{p}") for p in self.params)
        IN1 = self._solve({self.g.entry: entry}, None)
        res = []
        for lp, child, call, cn, marg in self.sites():
            head = next((n for n in self.g.nodes if n.kind == "fornext" and n.stmt is lp), None)
            if head is None or head not in IN1:
                continue
            H = self.transfer(head, IN1[head], None)  # state at the start of an iteration
            starts = {m: H for m, lab in head.succ if lab == "loop"}
            vertex, cells = self.get(H, self.mask), self.get(H, self.cell_mask)
            for assoc in ("VERTEX", "CELL", "OTHER"):
                scen = {"child": child, "assoc": assoc, "not_data": {"PropertyGroup"},
                        # a masked copy: the vertex mask is given; for a cell child also the cell mask exists
                        "not_none": (vertex | cells) - {"None"}}
                IN2 = self._solve(starts, scen, head)
                if cn not in IN2:
                    continue  # such a child is not copied here
                got = self.origins(marg, IN2[cn], scen)
                allowed = {"VERTEX": vertex, "CELL": cells - {"None"}, "OTHER": frozenset({"None"})}[assoc]
                res.append((call, cn.lineno, assoc, got, allowed))
        return res


# ====================================================================== C07.CACHEGUARD
class ShrinkGuard:
    """Does a geometry setter (`<geom>` in vertices / cells) refuse an array with FEWER rows than the stored one — also when the
    private cache `self._<geom>` has not been loaded yet (object just opened)?

    One forward pass per scenario over the setter; the only fact is 'loaded' (the cache holds the stored array: scenario, or a
    read of the loading accessor self.<geom> / self.n_<geom>, or an assignment of a fetched array to the cache, earlier on
    EVERY path).  The tests on `self._<geom> is None`, on the stored geometry being None and the row comparisons new-vs-stored
    are decided, contradicted edges are not followed; asked: can the statement that stores the NEW array into the cache be
    reached?"""

    def __init__(self, fn, geom):
        from ..normalize import single_assignments

        self.fn, self.node, self.geom = fn, fn.node, geom
        self.new = fn.params[1]
        self.single = single_assignments(self.node)
        self.g = CFG(self.node)

    def _x(self, e):
        from ..normalize import expanded

        return expanded(e, self.node, self.single)

    def cache(self, e):
        return unparse(e) == f"self._{self.geom}"

    def accessor(self, e):
        return unparse(e) in (f"self.{self.geom}", f"self.n_{self.geom}")

    def rows(self, e):
        """'new' / 'stored' / 'cache' when e is the row count of the new array / of the stored geometry."""
        e = self._x(e)
        if unparse(e) == f"self.n_{self.geom}":
            return "stored"
        base = None
        if isinstance(e, ast.Subscript) and isinstance(e.value, ast.Attribute) and e.value.attr == "shape" and unparse(e.slice) == "0":
            base = e.value.value
        elif isinstance(e, ast.Call) and fname(e) == "len" and len(e.args) == 1:
            base = e.args[0]
        if base is None:
            return None
        if any(isinstance(x, ast.Name) and x.id == self.new for x in ast.walk(base)):
            return "new"
        if self.cache(base):
            return "cache"
        if self.accessor(base):
            return "stored"
        return None

    def atom(self, e, loaded):
        e = self._x(e)
        if isinstance(e, ast.Compare) and len(e.ops) == 1:
            op, a, b = e.ops[0], e.left, e.comparators[0]
            if isinstance(op, (ast.Is, ast.IsNot, ast.Eq, ast.NotEq)):
                pos = isinstance(op, (ast.Is, ast.Eq))
                for x, y in ((a, b), (b, a)):
                    if isinstance(y, ast.Constant) and y.value is None:
                        if self.cache(x):
                            return (not loaded) if pos else loaded
                        if self.accessor(x):
                            return not pos  # the object has a stored geometry
            ra, rb = self.rows(a), self.rows(b)
            if ra and rb and {ra, rb} in ({"new", "stored"}, {"new", "cache"}) and ("cache" not in (ra, rb) or loaded):
                lt = {ast.Lt: True, ast.LtE: True, ast.Gt: False, ast.GtE: False, ast.Eq: False, ast.NotEq: True}.get(type(op))
                if lt is None:
                    return None
                return lt if ra == "new" else {ast.Lt: False, ast.LtE: False, ast.Gt: True, ast.GtE: True, ast.Eq: False, ast.NotEq: True}[type(op)]
        if unparse(e) == "self.on_file":
            return True
        return None

    def loads(self, node_ast):
        """the statement / test reads the loading accessor, or assigns something fetched to the cache"""
        if node_ast is None or isinstance(node_ast, list):
            return False
        for x in ast.walk(node_ast):
            if isinstance(x, ast.Attribute) and isinstance(x.ctx, ast.Load) and self.accessor(x):
                return True
        if isinstance(node_ast, ast.Assign) and any(self.cache(t) for t in node_ast.targets):
            v = node_ast.value
            return not (isinstance(v, ast.Constant) and v.value is None) and not any(isinstance(x, ast.Name) and x.id == self.new for x in ast.walk(self._x(v)))
        return False

    def stores_new(self):
        return [n for n in self.g.nodes if n.kind == "stmt" and isinstance(n.ast, ast.Assign) and any(self.cache(t) for t in n.ast.targets)
                and any(isinstance(x, ast.Name) and x.id == self.new for x in ast.walk(self._x(n.ast.value)))]

    def store_reached(self, loaded: bool) -> bool:
        def transfer(n, st):
            if n.kind == "test":
                v = tv3(n.ast, lambda a: self.atom(a, "loaded" in st))
                after = st | {"loaded"} if self.loads(n.ast) else st
                return {"true": BOTTOM if v is False else after, "false": BOTTOM if v is True else after, None: after}
            return st | {"loaded"} if self.loads(n.ast) else st

        IN = forward(self.g, frozenset({"loaded"}) if loaded else frozenset(), transfer, lambda a, b: a & b, bottom=BOTTOM)
        return any(n in IN for n in self.stores_new())


# ====================================================================== C07.REGEN
class RegenGuard:
    """Can a geometry getter REPLACE a geometry that exists (in the cache or on file) by one it generates?

    Scenario: the stored array exists and is EMPTY (what a removal of every cell leaves) — the one content a getter is tempted
    to confuse with 'missing'.  Must-facts `present:<path>` (path: self._<geom> or a local): the value at that path is the
    existing array (the cache in the in-session scenario; whatever a workspace fetch returned; copies of those).  The tests
    `<path> is None`, the emptiness tests (`len(p) == 0`, `p.size`, `not len(p)`, `p.shape[0] < 1` ...) and `self.on_file` are
    decided, contradicted edges are not followed.  A store into self.<geom> / self._<geom> of a value that is neither the
    existing array nor None, on a path on which the existing array was in the cache or has been fetched (`had`), is the violation.
    Paths are kept apart (a set of alternative fact sets per node), so the branch that builds cells from user-set parts without
    ever looking at the file does not blur the branch that fetched."""

    def __init__(self, fn, geom):
        from ..normalize import single_assignments

        self.fn, self.node, self.geom = fn, fn.node, geom
        self.g = CFG(self.node)
        self.single = single_assignments(self.node)

    def path(self, e):
        if isinstance(e, ast.Name):
            return e.id
        if unparse(e) == f"self._{self.geom}":
            return "cache"
        if isinstance(e, ast.Call) and fname(e) == "getattr" and len(e.args) >= 2 and unparse(e.args[0]) == "self" \
                and isinstance(e.args[1], ast.Constant) and e.args[1].value == f"_{self.geom}":
            return "cache"
        return None

    @staticmethod
    def fetches(e):
        return any(isinstance(c, ast.Call) and isinstance(c.func, ast.Attribute) and c.func.attr.startswith("fetch") for c in ast.walk(e))

    def present(self, e, st):
        p = self.path(e)
        return p is not None and f"present:{p}" in st

    def size_of(self, e, st):
        """e is the number of rows / elements of an existing (empty) array"""
        if isinstance(e, ast.Call) and fname(e) in ("len", "np.size", "numpy.size") and len(e.args) == 1:
            return self.present(e.args[0], st)
        if isinstance(e, ast.Attribute) and e.attr == "size":
            return self.present(e.value, st)
        if isinstance(e, ast.Subscript) and isinstance(e.value, ast.Attribute) and e.value.attr == "shape" and unparse(e.slice) == "0":
            return self.present(e.value.value, st)
        return False

    def atom(self, e, st):
        if self.size_of(e, st):
            return False  # 0 rows: falsy
        if isinstance(e, ast.Compare) and len(e.ops) == 1:
            a, b, op = e.left, e.comparators[0], type(e.ops[0])
            if op in (ast.Is, ast.IsNot, ast.Eq, ast.NotEq):
                for x, y in ((a, b), (b, a)):
                    if isinstance(y, ast.Constant) and y.value is None:
                        p = self.path(x)
                        if p is not None and f"present:{p}" in st:
                            return op in (ast.IsNot, ast.NotEq)
                        if p is not None and f"absent:{p}" in st:
                            return op in (ast.Is, ast.Eq)
            flip = {ast.Lt: ast.Gt, ast.LtE: ast.GtE, ast.Gt: ast.Lt, ast.GtE: ast.LtE, ast.Eq: ast.Eq, ast.NotEq: ast.NotEq}
            if self.size_of(b, st) and op in flip:
                a, b, op = b, a, flip[op]
            if self.size_of(a, st) and isinstance(b, ast.Constant) and isinstance(b.value, (int, float)) and not isinstance(b.value, bool) and op in flip:
                return {ast.Lt: 0 < b.value, ast.LtE: 0 <= b.value, ast.Gt: 0 > b.value, ast.GtE: 0 >= b.value, ast.Eq: 0 == b.value, ast.NotEq: 0 != b.value}[op]
        if unparse(e) == "self.on_file":
            return True
        return None

    def truth(self, t, st):
        from ..normalize import expanded

        return tv3(t, lambda a: self.atom(expanded(a, self.node, {k: v for k, v in self.single.items() if not self.fetches(v)}), st))

    def targets(self, s):
        """[(path | 'public', value)] bindings of a statement that matter: cache / public setter / locals"""
        out = []
        if isinstance(s, (ast.Assign, ast.AnnAssign)) and s.value is not None:
            for t in (s.targets if isinstance(s, ast.Assign) else [s.target]):
                if unparse(t) == f"self.{self.geom}":
                    out.append(("public", s.value))
                elif self.path(t) is not None and isinstance(t, (ast.Name, ast.Attribute)):
                    out.append((self.path(t), s.value))
        return out

    def existing(self, v, st):
        return self.fetches(v) or self.present(v, st)

    def transfer(self, n, st):
        if n.kind == "test":
            v = self.truth(n.ast, st)
            return {"true": BOTTOM if v is False else st, "false": BOTTOM if v is True else st, None: st}
        if n.kind != "stmt":
            return st
        pre = st
        for p, v in self.targets(n.ast):
            if p == "public":
                p = "cache"
            st = frozenset(f for f in st if ":" not in f or f.split(":", 1)[1] != p)
            if self.existing(v, pre):
                st = st | {f"present:{p}"} | ({"had"} if self.fetches(v) else set())
            elif isinstance(v, ast.Constant) and v.value is None:
                st = st | {f"absent:{p}"}
        return st

    def transfer_set(self, n, alts):
        """the same over a SET of alternative fact sets (one per way of reaching the node): facts of different paths are not merged"""
        if n.kind == "test":
            t, f = set(), set()
            for st in alts:
                r = self.transfer(n, st)
                if r["true"] is not BOTTOM:
                    t.add(r["true"])
                if r["false"] is not BOTTOM:
                    f.add(r["false"])
            return {"true": frozenset(t) if t else BOTTOM, "false": frozenset(f) if f else BOTTOM, None: alts}
        return frozenset(self.transfer(n, st) for st in alts)

    def violations(self):
        """([(line, scenario)], has a fetch?) : generated stores that overwrite an existing geometry on some path"""
        out = []
        has_fetch = any(self.fetches(s) for s in ast.walk(self.node) if isinstance(s, ast.Assign))
        for scen, init in (("cached", frozenset({"present:cache", "had"})), ("on file", frozenset({"absent:cache"}))):
            if scen == "on file" and not has_fetch:
                continue
            IN = forward(self.g, frozenset({init}), self.transfer_set, lambda a, b: a | b, bottom=BOTTOM)
            for n in self.g.nodes:
                if n not in IN or n.kind != "stmt":
                    continue
                for p, v in self.targets(n.ast):
                    if p not in ("public", "cache"):
                        continue
                    for st in IN[n]:
                        generated = not self.existing(v, st) and not (isinstance(v, ast.Constant) and v.value is None)
                        if generated and "had" in st:
                            out.append((n.lineno, scen))
        return sorted(set(out)), has_fetch
