"""Helpers of the C07 rules: facts about locals (what they are bound from), three-valued evaluation of conditions under a
stated scenario and path queries with the contradicted edges pruned — so that the rules decide by what a path DOES
(which tests it passed, what it returns / stores) and not by the spelling or the nesting of the conditions."""

from __future__ import annotations

import ast
import copy
from collections import deque

from ..model import unparse
from ..normalize import expanded, single_assignments


# ---------------------------------------------------------------------- bindings
def name_defs(fn_node) -> dict:
    """local name -> every expression it is bound to by a simple binding (`x = e`, `x: T = e`, `x := e`, `a = b = e`)."""
    d: dict = {}
    for n in ast.walk(fn_node):
        if isinstance(n, ast.Assign):
            for t in n.targets:
                if isinstance(t, ast.Name):
                    d.setdefault(t.id, []).append(n.value)
        elif isinstance(n, ast.AnnAssign) and n.value is not None and isinstance(n.target, ast.Name):
            d.setdefault(n.target.id, []).append(n.value)
        elif isinstance(n, ast.NamedExpr) and isinstance(n.target, ast.Name):
            d.setdefault(n.target.id, []).append(n.value)
    return d


def is_none(e) -> bool:
    return isinstance(e, ast.Constant) and e.value is None


def real_defs(defs: dict, name: str) -> list:
    """The bindings of a local without the `x = None` initialisations (helper expansion introduces them)."""
    return [v for v in defs.get(name, []) if not is_none(v)]


def fname(call) -> str:
    return unparse(call.func) if isinstance(call, ast.Call) else ""


# conversions that keep the elements and their order / the set of elements
KEEP_ORDER = {"np.array", "np.asarray", "np.asanyarray", "np.atleast_1d", "np.ravel", "numpy.array", "numpy.asarray", "list", "tuple"}
KEEP_SET = KEEP_ORDER | {"np.unique", "np.sort", "numpy.unique", "numpy.sort", "sorted", "set"}


def derived_names(fn_node, root: str, conversions):
    """(names, keeps): the locals that hold the value of parameter `root` (copies, results of element-preserving
    `conversions` of it, a conditional expression between such values) and the predicate `keeps(expr)` saying that an
    expression is such a value.  `root` itself always counts (it is re-bound only to conversions of itself)."""
    defs = name_defs(fn_node)
    names = {root}

    def keeps(e):
        if isinstance(e, ast.Name):
            return e.id in names
        if isinstance(e, ast.IfExp):
            return keeps(e.body) and keeps(e.orelse)
        if isinstance(e, ast.Call) and fname(e) in conversions and e.args:
            return keeps(e.args[0])
        return False

    changed = True
    while changed:
        changed = False
        for nm in defs:
            if nm in names:
                continue
            vals = real_defs(defs, nm)
            if vals and all(keeps(v) for v in vals):
                names.add(nm)
                changed = True
    return names, keeps


def call_arg(call: ast.Call, pos: int, name: str):
    """Argument of a call given positionally or by keyword."""
    if len(call.args) > pos and not any(isinstance(a, ast.Starred) for a in call.args[: pos + 1]):
        return call.args[pos]
    for k in call.keywords:
        if k.arg == name:
            return k.value
    return None


def xp(expr, fn_node):
    """Alias-expanded copy of an expression (single-assignment locals replaced by what they are bound to)."""
    return expanded(expr, fn_node)


def xt(expr, fn_node) -> str:
    return unparse(expanded(expr, fn_node))


def rename(node, mapping: dict):
    class R(ast.NodeTransformer):
        def visit_Name(self, n):
            return ast.copy_location(ast.Name(id=mapping.get(n.id, n.id), ctx=n.ctx), n)

    return R().visit(copy.deepcopy(node))


# ---------------------------------------------------------------------- loops over a filtered comprehension
def unfold_filtered_loops(fn_node):
    """A copy of the function where `for x in [c for c in S if P(c)]` (list / generator, possibly through a local or
    list(..) / tuple(..)) reads `for x in S: if not P(x): continue; ...` — the same iterations reach the body."""
    node = copy.deepcopy(fn_node)
    single = single_assignments(node)

    class T(ast.NodeTransformer):
        def visit_For(self, f):
            self.generic_visit(f)
            it = f.iter
            if isinstance(it, ast.Name) and it.id in single:
                it = single[it.id]
            if isinstance(it, ast.Call) and fname(it) in ("list", "tuple") and len(it.args) == 1 and not it.keywords:
                it = it.args[0]
            if isinstance(it, (ast.ListComp, ast.GeneratorExp)) and len(it.generators) == 1 and isinstance(f.target, ast.Name):
                gen = it.generators[0]
                if isinstance(gen.target, ast.Name) and isinstance(it.elt, ast.Name) and it.elt.id == gen.target.id and gen.ifs and not gen.is_async:
                    conds = [rename(c, {gen.target.id: f.target.id}) for c in gen.ifs]
                    test = conds[0] if len(conds) == 1 else ast.BoolOp(op=ast.And(), values=conds)
                    guard = ast.If(test=ast.UnaryOp(op=ast.Not(), operand=test), body=[ast.Continue()], orelse=[])
                    ast.copy_location(guard, f)
                    f.iter = copy.deepcopy(gen.iter)
                    f.body = [guard] + f.body
                    ast.fix_missing_locations(f)
            return f

    return T().visit(node)


# ---------------------------------------------------------------------- three-valued conditions, pruned reachability
def tv3(test, atom):
    """True / False / None (unknown) of a condition; `atom(expr)` decides the leaves."""
    if isinstance(test, ast.UnaryOp) and isinstance(test.op, ast.Not):
        v = tv3(test.operand, atom)
        return None if v is None else (not v)
    if isinstance(test, ast.BoolOp):
        vals = [tv3(v, atom) for v in test.values]
        if isinstance(test.op, ast.And):
            if any(v is False for v in vals):
                return False
            return True if all(v is True for v in vals) else None
        if any(v is True for v in vals):
            return True
        return False if all(v is False for v in vals) else None
    if isinstance(test, ast.Constant):
        return bool(test.value)
    return atom(test)


def unknown_leaves(test, atom) -> list:
    """The leaves of a condition that the scenario does not decide."""
    if isinstance(test, ast.UnaryOp) and isinstance(test.op, ast.Not):
        return unknown_leaves(test.operand, atom)
    if isinstance(test, ast.BoolOp):
        return [u for v in test.values for u in unknown_leaves(v, atom)]
    if isinstance(test, ast.Constant):
        return []
    return [test] if atom(test) is None else []


def reach3(g, starts, ev, avoid=lambda n: False):
    """Nodes reachable from `starts`; at a test node only the edges compatible with ev(test) are followed."""
    seen = set()
    dq = deque(starts)
    while dq:
        n = dq.popleft()
        if n in seen or avoid(n):
            continue
        seen.add(n)
        succ = n.succ
        if n.kind == "test":
            v = ev(n.ast)
            if v is True:
                succ = [(m, l) for m, l in succ if l != "false"]
            elif v is False:
                succ = [(m, l) for m, l in succ if l != "true"]
        for m, _ in succ:
            if m not in seen:
                dq.append(m)
    return seen


def falls_off(g, seen) -> bool:
    """The normal exit is reached by running off the end of the body (an implicit `return None`), not by a return."""
    return any(p in seen and p.kind != "return" for p, _ in g.exit.pred) and g.exit in seen


# ---------------------------------------------------------------------- dependence
def enclosing_ifs(fn_node) -> dict:
    """statement / expression node -> list of the If / IfExp tests it is nested under (innermost last)."""
    out = {}

    def walk(n, tests):
        out[id(n)] = tests
        if isinstance(n, ast.If):
            walk(n.test, tests)
            for s in n.body + n.orelse:
                walk(s, tests + [n])
            return
        if isinstance(n, ast.IfExp):
            walk(n.test, tests)
            walk(n.body, tests + [n])
            walk(n.orelse, tests + [n])
            return
        for c in ast.iter_child_nodes(n):
            walk(c, tests)

    walk(fn_node, [])
    return out


def dependence_leaves(expr, fn_node, outside=()) -> set:
    """Texts of the attribute reads the value of `expr` depends on: through the bindings of the locals it mentions
    (every binding, transitively) and through the conditions that select between those bindings (an `if` / conditional
    expression around a binding), except the conditions in `outside` (those that also guard the use itself)."""
    defs_at: dict = {}
    for n in ast.walk(fn_node):
        if isinstance(n, ast.Assign):
            for t in n.targets:
                if isinstance(t, ast.Name):
                    defs_at.setdefault(t.id, []).append(n)
        elif isinstance(n, ast.AnnAssign) and n.value is not None and isinstance(n.target, ast.Name):
            defs_at.setdefault(n.target.id, []).append(n)
    encl = enclosing_ifs(fn_node)
    skip = {id(x) for x in outside}
    leaves: set = set()
    done: set = set()

    def visit(e):
        for n in ast.walk(e):
            if isinstance(n, ast.Attribute):
                leaves.add(unparse(n))
            elif isinstance(n, ast.IfExp):
                pass  # its test is walked as a child
            elif isinstance(n, ast.Name) and n.id in defs_at and n.id not in done:
                done.add(n.id)
                for a in defs_at[n.id]:
                    visit(a.value)
                    for c in encl.get(id(a), []):
                        if id(c) not in skip:
                            visit(c.test)

    visit(expr)
    return leaves
