"""Helpers of the C07 rules: facts about locals (what they are bound from), three-valued evaluation of conditions under a
stated scenario and path queries with the contradicted edges pruned — so that the rules decide by what a path DOES
(which tests it passed, what it returns / stores) and not by the spelling or the nesting of the conditions."""

from __future__ import annotations

import ast
import copy
from collections import deque

from ..model import unparse
from ..normalize import expanded, single_assignments


# ---------------------------------------------------------------------- bindings
def name_defs(fn_node) -> dict:
    """local name -> every expression it is bound to by a simple binding (`x = e`, `x: T = e`, `x := e`, `a = b = e`)."""
    d: dict = {}
    for n in ast.walk(fn_node):
        if isinstance(n, ast.Assign):
            for t in n.targets:
                if isinstance(t, ast.Name):
                    d.setdefault(t.id, []).append(n.value)
        elif isinstance(n, ast.AnnAssign) and n.value is not None and isinstance(n.target, ast.Name):
            d.setdefault(n.target.id, []).append(n.value)
        elif isinstance(n, ast.NamedExpr) and isinstance(n.target, ast.Name):
            d.setdefault(n.target.id, []).append(n.value)
    return d


def is_none(e) -> bool:
    return isinstance(e, ast.Constant) and e.value is None


def real_defs(defs: dict, name: str) -> list:
    """The bindings of a local without the `x = None` initialisations (helper expansion introduces them)."""
    return [v for v in defs.get(name, []) if not is_none(v)]


def fname(call) -> str:
    return unparse(call.func) if isinstance(call, ast.Call) else ""


# conversions that keep the elements and their order / the set of elements
KEEP_ORDER = {"np.array", "np.asarray", "np.asanyarray", "np.atleast_1d", "np.ravel", "numpy.array", "numpy.asarray", "list", "tuple"}
KEEP_SET = KEEP_ORDER | {"np.unique", "np.sort", "numpy.unique", "numpy.sort", "sorted", "set"}


def derived_names(fn_node, root: str, conversions):
    """(names, keeps): the locals that hold the value of parameter `root` (copies, results of element-preserving
    `conversions` of it, a conditional expression between such values) and the predicate `keeps(expr)` saying that an
    expression is such a value.  `root` itself always counts (it is re-bound only to conversions of itself)."""
    defs = name_defs(fn_node)
    names = {root}

    def keeps(e):
        if isinstance(e, ast.Name):
            return e.id in names
        if isinstance(e, ast.IfExp):
            return keeps(e.body) and keeps(e.orelse)
        if isinstance(e, ast.Call) and fname(e) in conversions and e.args:
            return keeps(e.args[0])
        return False

    changed = True
    while changed:
        changed = False
        for nm in defs:
            if nm in names:
                continue
            vals = real_defs(defs, nm)
            if vals and all(keeps(v) for v in vals):
                names.add(nm)
                changed = True
    return names, keeps


def call_arg(call: ast.Call, pos: int, name: str):
    """Argument of a call given positionally or by keyword."""
    if len(call.args) > pos and not any(isinstance(a, ast.Starred) for a in call.args[: pos + 1]):
        return call.args[pos]
    for k in call.keywords:
        if k.arg == name:
            return k.value
    return None


def xp(expr, fn_node):
    """Alias-expanded copy of an expression (single-assignment locals replaced by what they are bound to)."""
    return expanded(expr, fn_node)


def xt(expr, fn_node) -> str:
    return unparse(expanded(expr, fn_node))


def rename(node, mapping: dict):
    class R(ast.NodeTransformer):
        def visit_Name(self, n):
            return ast.copy_location(ast.Name(id=mapping.get(n.id, n.id), ctx=n.ctx), n)

    return R().visit(copy.deepcopy(node))


# ---------------------------------------------------------------------- loops over a filtered comprehension
def unfold_filtered_loops(fn_node):
    """A copy of the function where `for x in [c for c in S if P(c)]` (list / generator, possibly through a local or
    list(..) / tuple(..)) reads `for x in S: if not P(x): continue; ...` — the same iterations reach the body."""
    node = copy.deepcopy(fn_node)
    single = single_assignments(node)

    class T(ast.NodeTransformer):
        def visit_For(self, f):
            self.generic_visit(f)
            it = f.iter
            if isinstance(it, ast.Name) and it.id in single:
                it = single[it.id]
            if isinstance(it, ast.Call) and fname(it) in ("list", "tuple") and len(it.args) == 1 and not it.keywords:
                it = it.args[0]
            if isinstance(it, (ast.ListComp, ast.GeneratorExp)) and len(it.generators) == 1 and isinstance(f.target, ast.Name):
                gen = it.generators[0]
                if isinstance(gen.target, ast.Name) and isinstance(it.elt, ast.Name) and it.elt.id == gen.target.id and gen.ifs and not gen.is_async:
                    conds = [rename(c, {gen.target.id: f.target.id}) for c in gen.ifs]
                    test = conds[0] if len(conds) == 1 else ast.BoolOp(op=ast.And(), values=conds)
                    guard = ast.If(test=ast.UnaryOp(op=ast.Not(), operand=test), body=[ast.Continue()], orelse=[])
                    ast.copy_location(guard, f)
                    f.iter = copy.deepcopy(gen.iter)
                    f.body = [guard] + f.body
                    ast.fix_missing_locations(f)
            return f

    return T().visit(node)


# ---------------------------------------------------------------------- three-valued conditions, pruned reachability
def tv3(test, atom):
    """True / False / None (unknown) of a condition; `atom(expr)` decides the leaves."""
    if isinstance(test, ast.UnaryOp) and isinstance(test.op, ast.Not):
        v = tv3(test.operand, atom)
        return None if v is None else (not v)
    if isinstance(test, ast.BoolOp):
        vals = [tv3(v, atom) for v in test.values]
        if isinstance(test.op, ast.And):
            if any(v is False for v in vals):
                return False
            return True if all(v is True for v in vals) else None
        if any(v is True for v in vals):
            return True
        return False if all(v is False for v in vals) else None
    if isinstance(test, ast.Constant):
        return bool(test.value)
    return atom(test)


def unknown_leaves(test, atom) -> list:
    """The leaves of a condition that the scenario does not decide."""
    if isinstance(test, ast.UnaryOp) and isinstance(test.op, ast.Not):
        return unknown_leaves(test.operand, atom)
    if isinstance(test, ast.BoolOp):
        return [u for v in test.values for u in unknown_leaves(v, atom)]
    if isinstance(test, ast.Constant):
        return []
    return [test] if atom(test) is None else []


def reach3(g, starts, ev, avoid=lambda n: False):
    """Nodes reachable from `starts`; at a test node only the edges compatible with ev(test) are followed."""
    seen = set()
    dq = deque(starts)
    while dq:
        n = dq.popleft()
        if n in seen or avoid(n):
            continue
        seen.add(n)
        succ = n.succ
        if n.kind == "test":
            v = ev(n.ast)
            if v is True:
                succ = [(m, l) for m, l in succ if l != "false"]
            elif v is False:
                succ = [(m, l) for m, l in succ if l != "true"]
        for m, _ in succ:
            if m not in seen:
                dq.append(m)
    return seen


def falls_off(g, seen) -> bool:
    """The normal exit is reached by running off the end of the body (an implicit `return None`), not by a return."""
    return any(p in seen and p.kind != "return" for p, _ in g.exit.pred) and g.exit in seen


# ---------------------------------------------------------------------- dependence
def enclosing_ifs(fn_node) -> dict:
    """statement / expression node -> list of the If / IfExp tests it is nested under (innermost last)."""
    out = {}

    def walk(n, tests):
        out[id(n)] = tests
        if isinstance(n, ast.If):
            walk(n.test, tests)
            for s in n.body + n.orelse:
                walk(s, tests + [n])
            return
        if isinstance(n, ast.IfExp):
            walk(n.test, tests)
            walk(n.body, tests + [n])
            walk(n.orelse, tests + [n])
            return
        for c in ast.iter_child_nodes(n):
            walk(c, tests)

    walk(fn_node, [])
    return out


def dependence_leaves(expr, fn_node, outside=()) -> set:
    """Texts of the attribute reads the value of `expr` depends on: through the bindings of the locals it mentions
    (every binding, transitively) and through the conditions that select between those bindings (an `if` / conditional
    expression around a binding), except the conditions in `outside` (those that also guard the use itself)."""
    defs_at: dict = {}
    for n in ast.walk(fn_node):
        if isinstance(n, ast.Assign):
            for t in n.targets:
                if isinstance(t, ast.Name):
                    defs_at.setdefault(t.id, []).append(n)
        elif isinstance(n, ast.AnnAssign) and n.value is not None and isinstance(n.target, ast.Name):
            defs_at.setdefault(n.target.id, []).append(n)
    encl = enclosing_ifs(fn_node)
    skip = {id(x) for x in outside}
    leaves: set = set()
    done: set = set()

    def visit(e):
        for n in ast.walk(e):
            if isinstance(n, ast.Attribute):
                leaves.add(unparse(n))
            elif isinstance(n, ast.IfExp):
                pass  # its test is walked as a child
            elif isinstance(n, ast.Name) and n.id in defs_at and n.id not in done:
                done.add(n.id)
                for a in defs_at[n.id]:
                    visit(a.value)
                    for c in encl.get(id(a), []):
                        if id(c) not in skip:
                            visit(c.test)

    visit(expr)
    return leaves


# ---------------------------------------------------------------------- constants, setattr, generators
def literal_resolver(p, fn):
    """name -> the literal a module-level name is bound to, looked up where the code of `fn` and of the helpers expanded
    into it can come from: its own module, the modules of its class's bases, else a package-wide unique definition."""
    mods = [fn.module]
    if fn.cls is not None:
        mods += [c.module for c in fn.cls.mro if not isinstance(c, str) and c.module is not None and c.module is not fn.module]

    def resolve(name):
        for m in mods:
            r = p.resolve_name(m, name)
            if r and r[0] == "assign":
                return r[1][1]
        owners = [m for m in p.modules.values() if m.in_scope and name in m.assigns]
        if len(owners) == 1:
            return owners[0].assigns[name]
        return None

    return resolve


def fold_const(expr, fn_node, resolve=lambda name: None, _depth=0):
    """The constant an expression evaluates to (ast.Constant) or None: single-assignment locals, module-level literals,
    `<dict literal>[k]` / `.get(k, d)` with a constant key, f-strings / `+` / `%`-free concatenations of constants."""
    if _depth > 8:
        return None
    e = expanded(expr, fn_node)

    def go(x, d):
        if d > 8:
            return None
        if isinstance(x, ast.Constant):
            return x
        if isinstance(x, ast.Name):
            v = resolve(x.id)
            return go(v, d + 1) if v is not None else None
        if isinstance(x, ast.JoinedStr):
            parts = []
            for v in x.values:
                if isinstance(v, ast.FormattedValue):
                    if v.format_spec is not None or v.conversion not in (-1, 115):
                        return None
                    v = go(v.value, d + 1)
                else:
                    v = go(v, d + 1)
                if v is None:
                    return None
                parts.append(str(v.value))
            return ast.Constant(value="".join(parts))
        if isinstance(x, ast.BinOp) and isinstance(x.op, ast.Add):
            a, b = go(x.left, d + 1), go(x.right, d + 1)
            if a is not None and b is not None and isinstance(a.value, str) and isinstance(b.value, str):
                return ast.Constant(value=a.value + b.value)
            return None
        table = key = default = None
        if isinstance(x, ast.Subscript):
            table, key = x.value, x.slice
        elif isinstance(x, ast.Call) and isinstance(x.func, ast.Attribute) and x.func.attr == "get" and 1 <= len(x.args) <= 2 and not x.keywords:
            table, key = x.func.value, x.args[0]
            default = x.args[1] if len(x.args) == 2 else ast.Constant(value=None)
        if table is not None:
            if isinstance(table, ast.Name):
                table = resolve(table.id)
            k = go(key, d + 1)
            if not isinstance(table, ast.Dict) or k is None:
                return None
            keys = [go(kk, d + 1) if kk is not None else None for kk in table.keys]
            if any(kk is None for kk in keys):
                return None
            for kk, vv in zip(keys, table.values):
                if kk.value == k.value and type(kk.value) is type(k.value):
                    return go(vv, d + 1)
            return go(default, d + 1) if default is not None else None
        return None

    return go(e, 0)


def is_setattr(call) -> bool:
    return isinstance(call, ast.Call) and fname(call) == "setattr" and len(call.args) == 3 and not call.keywords


def desugar_setattr(fn_node, resolve=lambda name: None):
    """A copy of the function where `setattr(obj, <name that folds to a constant>, v)` reads `obj.<name> = v`."""
    node = copy.deepcopy(fn_node)

    class T(ast.NodeTransformer):
        def visit_Expr(self, s):
            c = s.value
            if is_setattr(c):
                nm = fold_const(c.args[1], node, resolve)
                if nm is not None and isinstance(nm.value, str) and nm.value.isidentifier():
                    a = ast.Assign(targets=[ast.Attribute(value=c.args[0], attr=nm.value, ctx=ast.Store())], value=c.args[2])
                    return ast.fix_missing_locations(ast.copy_location(a, s))
            return s

    return T().visit(node)


def _bound(fn_node) -> set:
    out = {a.arg for a in fn_node.args.posonlyargs + fn_node.args.args + fn_node.args.kwonlyargs}
    for n in ast.walk(fn_node):
        if isinstance(n, ast.Name) and isinstance(n.ctx, (ast.Store, ast.Del)):
            out.add(n.id)
    return out


def _loose_jumps(stmts) -> set:
    """'break' / 'continue' statements of a loop body that belong to that loop (not to a loop nested in the body)."""
    out = set()

    def walk(ss):
        for s in ss:
            if isinstance(s, ast.Break):
                out.add("break")
            elif isinstance(s, ast.Continue):
                out.add("continue")
            elif isinstance(s, (ast.For, ast.While, ast.FunctionDef, ast.AsyncFunctionDef, ast.ClassDef)):
                continue
            else:
                for fld in ("body", "orelse", "finalbody"):
                    walk(getattr(s, fld, None) or [])
                for h in getattr(s, "handlers", None) or []:
                    walk(h.body)

    walk(stmts)
    return out


def _yields_in_loop_tail(gen_node) -> bool:
    """Every `yield` statement is the last thing an iteration of its enclosing loop does (so a `continue` of the consumer,
    which resumes the generator, is a `continue` of that loop)."""
    ok = True

    def block(stmts, tail, in_loop):
        nonlocal ok
        for i, s in enumerate(stmts):
            last = tail and i == len(stmts) - 1
            if isinstance(s, ast.Expr) and isinstance(s.value, (ast.Yield, ast.YieldFrom)):
                if not (last and in_loop) or isinstance(s.value, ast.YieldFrom):
                    ok = False
            elif isinstance(s, ast.If):
                block(s.body, last, in_loop)
                block(s.orelse, last, in_loop)
            elif isinstance(s, (ast.For, ast.While)):
                block(s.body, True, True)
                block(s.orelse, False, in_loop)
            else:
                for fld in ("body", "orelse", "finalbody"):
                    block(getattr(s, fld, None) or [], False, in_loop)
                for h in getattr(s, "handlers", None) or []:
                    block(h.body, False, in_loop)

    block(gen_node.body, True, False)
    return ok


def unfold_generator_loops(fn, view, project, depth=2):
    """A copy of the (normalised) function `fn` where `for t in <generator function>(args): BODY` reads as the generator's
    own body with the parameters bound and every `yield e` replaced by `t = e; BODY` (`yield from X` by `for t in X: BODY`):
    the same statements run in the same order.  Left alone when that is not a faithful reading: `break` in BODY, `continue`
    in BODY unless every yield ends an iteration of its loop, `return` / yield-expressions in the generator, *args / **kwargs,
    a generator overridden in a subclass.  `view(FuncInfo)` gives the normalised generator."""
    node = copy.deepcopy(fn.node)
    counter = [0]

    def callee_of(call):
        f = call.func
        if any(isinstance(a, ast.Starred) for a in call.args) or any(k.arg is None for k in call.keywords):
            return None, None
        target, recv = None, None
        if isinstance(f, ast.Attribute) and isinstance(f.value, ast.Name) and fn.cls is not None and f.value.id in ("self", "cls"):
            m = fn.cls.lookup(f.attr)
            if m and m[1] == "method":
                target, recv = m[2], f.value
                if any(sub.own(f.attr) is not None for sub in project.subclasses(fn.cls, strict=True)):
                    return None, None
        elif isinstance(f, ast.Name):
            r = project.resolve_name(fn.module, f.id)
            if r and r[0] == "func":
                target = r[1]
        if target is None or target.node is fn.node:
            return None, None
        a = target.node.args
        if a.vararg or a.kwarg or any(unparse(d) not in ("staticmethod", "classmethod") for d in target.node.decorator_list):
            return None, None
        if not any(isinstance(x, (ast.Yield, ast.YieldFrom)) for x in ast.walk(target.node)):
            return None, None
        return target, (recv if target.kind in ("method", "classmethod") else None)

    def unfold(loop, level):
        if level >= depth or loop.orelse or not isinstance(loop.target, ast.Name) or not isinstance(loop.iter, ast.Call):
            return None
        callee, recv = callee_of(loop.iter)
        if callee is None:
            return None
        gen = copy.deepcopy(view(callee).node)
        body = [s for s in gen.body if not (isinstance(s, ast.Expr) and isinstance(s.value, ast.Constant) and isinstance(s.value.value, str))]
        stmts_yield = [s for s in ast.walk(gen) if isinstance(s, ast.Expr) and isinstance(s.value, (ast.Yield, ast.YieldFrom))]
        all_yield = [x for x in ast.walk(gen) if isinstance(x, (ast.Yield, ast.YieldFrom))]
        if len(stmts_yield) != len(all_yield) or any(isinstance(x, (ast.Return, ast.FunctionDef, ast.Lambda, ast.Global, ast.Nonlocal)) for x in ast.walk(gen) if x is not gen):
            return None
        jumps = _loose_jumps(loop.body)
        if "break" in jumps or ("continue" in jumps and not _yields_in_loop_tail(gen)):
            return None
        # bind the parameters, keep the generator's own names apart from the caller's
        a = gen.args
        params = [x.arg for x in a.posonlyargs + a.args]
        defaults = dict(zip(params[len(params) - len(a.defaults):], a.defaults))
        for k, d in zip(a.kwonlyargs, a.kw_defaults):
            params.append(k.arg)
            if d is not None:
                defaults[k.arg] = d
        args = ([recv] if recv is not None else []) + list(loop.iter.args)
        binding = dict(zip(params, args))
        binding.update({k.arg: k.value for k in loop.iter.keywords})
        for prm in params:
            if prm not in binding:
                if prm not in defaults:
                    return None
                binding[prm] = defaults[prm]
        counter[0] += 1
        t = loop.target.id
        ren = {}
        for nm in _bound(gen):
            if nm in binding and isinstance(binding[nm], ast.Name) and binding[nm].id == nm:
                continue
            ren[nm] = f"{nm}__g{counter[0]}"
        # a local of the generator that is what it yields IS the consumer's loop variable
        yielded = {s.value.value.id for s in stmts_yield if isinstance(s.value, ast.Yield) and isinstance(s.value.value, ast.Name)}
        for nm in yielded:
            if nm in ren and nm not in params:
                ren[nm] = t
        body = [rename(s, ren) for s in body]
        pre = [ast.Assign(targets=[ast.Name(id=ren[prm], ctx=ast.Store())], value=copy.deepcopy(binding[prm])) for prm in params if prm in ren]

        class Y(ast.NodeTransformer):
            def visit_Expr(self, s):
                if isinstance(s.value, ast.Yield):
                    v = s.value.value if s.value.value is not None else ast.Constant(value=None)
                    bind = [] if isinstance(v, ast.Name) and v.id == t else [ast.Assign(targets=[ast.Name(id=t, ctx=ast.Store())], value=v)]
                    return bind + copy.deepcopy(loop.body)
                if isinstance(s.value, ast.YieldFrom):
                    return ast.For(target=ast.Name(id=t, ctx=ast.Store()), iter=s.value.value, body=copy.deepcopy(loop.body), orelse=[])
                return s

        out = []
        for s in pre + body:
            r = Y().visit(s)
            out += r if isinstance(r, list) else [r]
        for s in out:
            for x in ast.walk(s):
                if isinstance(x, (ast.expr, ast.stmt)):
                    ast.copy_location(x, loop)
        return out

    def rewrite(stmts, level):
        out = []
        for s in stmts:
            for fld in ("body", "orelse", "finalbody"):
                blk = getattr(s, fld, None)
                if isinstance(blk, list) and blk and isinstance(blk[0], ast.stmt):
                    setattr(s, fld, rewrite(blk, level))
            for h in getattr(s, "handlers", None) or []:
                h.body = rewrite(h.body, level)
            new = unfold(s, level) if isinstance(s, ast.For) else None
            out += rewrite(new, level + 1) if new is not None else [s]
        return out

    node.body = rewrite(node.body, 0)
    ast.fix_missing_locations(node)
    return node


# ---------------------------------------------------------------------- calls the normaliser leaves: methods of another object, local closures
def _inline_body(callee_node, binding, suffix, keep=()):
    """(pre, body, ret): the callee's statements with its own names set apart (suffix), the parameters bound to the argument
    expressions, `return` turned into assignments to `ret`.  Raises normalize._CannotInline for shapes that cannot be
    laid out in place (return inside a loop / try, generators, nested scopes writing outwards)."""
    from ..normalize import _CannotInline

    if any(isinstance(x, (ast.Yield, ast.YieldFrom, ast.Global, ast.Nonlocal, ast.Lambda, ast.AsyncFunctionDef)) for x in ast.walk(callee_node)) or any(
            isinstance(x, ast.FunctionDef) for x in ast.walk(callee_node) if x is not callee_node):
        raise _CannotInline("scopes")
    a = callee_node.args
    if a.vararg or a.kwarg:
        raise _CannotInline("*args")
    body = copy.deepcopy([s for s in callee_node.body if not (isinstance(s, ast.Expr) and isinstance(s.value, ast.Constant) and isinstance(s.value.value, str))])
    ren = {}
    for nm in _bound(callee_node):
        if nm in keep or (nm in binding and isinstance(binding[nm], ast.Name) and binding[nm].id == nm):
            continue
        if nm in binding and isinstance(binding[nm], ast.Name):
            ren[nm] = binding[nm].id  # a parameter that IS a variable of the caller: the same name (no binding needed)
        else:
            ren[nm] = f"{nm}{suffix}"
    body = [rename(s, ren) for s in body]
    pre = [ast.Assign(targets=[ast.Name(id=ren[p], ctx=ast.Store())], value=copy.deepcopy(v)) for p, v in binding.items()
           if p in ren and not isinstance(v, ast.Name)]
    # a parameter renamed to a caller's variable must not be re-bound inside the callee (it would re-bind the caller's)
    for p, v in binding.items():
        if isinstance(v, ast.Name) and p in ren and any(isinstance(x, ast.Name) and x.id == ren[p] and isinstance(x.ctx, (ast.Store, ast.Del)) for s in body for x in ast.walk(s)):
            raise _CannotInline("parameter re-bound")
    ret = f"_ret{suffix}"
    stmts = _tail_returns(body, ret)
    init = ast.Assign(targets=[ast.Name(id=ret, ctx=ast.Store())], value=ast.Constant(value=None))
    return pre + [init], stmts, ret


def _tail_returns(stmts, ret, _budget=None):
    """Single-exit form of a function body: `return v` -> `ret = v`; the statements that follow an `if` holding a return are
    carried into both of its branches (so every return ends its path and nothing needs a flag).  Returns inside loops,
    try / with blocks are not laid out (normalize._CannotInline)."""
    from ..normalize import _CannotInline

    budget = _budget if _budget is not None else [400]
    out = []
    for i, s in enumerate(stmts):
        budget[0] -= 1
        if budget[0] < 0:
            raise _CannotInline("too many paths")
        if isinstance(s, ast.Return):
            out.append(ast.copy_location(ast.Assign(targets=[ast.Name(id=ret, ctx=ast.Store())], value=s.value if s.value is not None else ast.Constant(value=None)), s))
            return out
        if isinstance(s, ast.Raise):
            out.append(s)
            return out
        has_return = any(isinstance(x, ast.Return) for x in ast.walk(s))
        if isinstance(s, ast.If) and has_return:
            rest = stmts[i + 1:]
            new = ast.If(test=s.test, body=_tail_returns(s.body + copy.deepcopy(rest), ret, budget) or [ast.Pass()],
                         orelse=_tail_returns(s.orelse + copy.deepcopy(rest), ret, budget))
            out.append(ast.copy_location(new, s))
            return out
        if has_return:
            raise _CannotInline(f"return inside {type(s).__name__}")
        out.append(s)
    return out


def _bind_args(callee_node, call, first=None):
    a = callee_node.args
    params = [x.arg for x in a.posonlyargs + a.args]
    defaults = dict(zip(params[len(params) - len(a.defaults):], a.defaults))
    for k, d in zip(a.kwonlyargs, a.kw_defaults):
        params.append(k.arg)
        if d is not None:
            defaults[k.arg] = d
    if any(isinstance(x, ast.Starred) for x in call.args) or any(k.arg is None for k in call.keywords):
        return None
    args = ([first] if first is not None else []) + list(call.args)
    if len(args) > len(a.posonlyargs + a.args):
        return None
    binding = dict(zip(params, args))
    for k in call.keywords:
        if k.arg not in params or k.arg in binding:
            return None
        binding[k.arg] = k.value
    for prm in params:
        if prm not in binding:
            if prm not in defaults:
                return None
            binding[prm] = defaults[prm]
    return binding


def expand_statement_calls(fn_node, resolve, tag):
    """A copy of the function where the statements `f(..)`, `x = f(..)`, `return f(..)` whose call `resolve(call)` maps to
    (callee function node, receiver expression | None) read as the callee's body laid out in place."""
    from ..normalize import _CannotInline

    node = copy.deepcopy(fn_node)
    counter = [0]

    def rewrite(stmts):
        out = []
        for s in stmts:
            for fld in ("body", "orelse", "finalbody"):
                blk = getattr(s, fld, None)
                if isinstance(blk, list) and blk and isinstance(blk[0], ast.stmt) and not isinstance(s, (ast.FunctionDef, ast.AsyncFunctionDef, ast.ClassDef)):
                    setattr(s, fld, rewrite(blk))
            for h in getattr(s, "handlers", None) or []:
                h.body = rewrite(h.body)
            call = s.value if isinstance(s, (ast.Expr, ast.Assign, ast.Return)) and isinstance(getattr(s, "value", None), ast.Call) else None
            target = resolve(call) if call is not None else None
            if target is None:
                out.append(s)
                continue
            callee, recv = target
            binding = _bind_args(callee, call, first=recv)
            if binding is None:
                out.append(s)
                continue
            counter[0] += 1
            try:
                pre, body, ret = _inline_body(callee, binding, f"__{tag}{counter[0]}")
            except _CannotInline:
                out.append(s)
                continue
            new = pre + body
            if isinstance(s, ast.Expr):
                pass
            else:
                s.value = ast.Name(id=ret, ctx=ast.Load())
                new.append(s)
            for x in new:
                for y in ast.walk(x):
                    if isinstance(y, (ast.expr, ast.stmt)) and y is not s:
                        ast.copy_location(y, call)
            out += rewrite(new) if counter[0] < 12 else new
        return out

    node.body = rewrite(node.body)
    ast.fix_missing_locations(node)
    return node


def expand_member_calls(fn, view, project, receivers, base):
    """`<receiver>.m(..)` statements, the receiver being one of the named locals (e.g. the loop variable over the children) and
    m a method that class `base` and its subclasses implement ONCE (no override: whatever the receiver's class, that body
    runs): read as m's normalised body with self := the receiver."""
    subs = project.subclasses(base)

    def resolve(call):
        f = call.func
        if not (isinstance(f, ast.Attribute) and isinstance(f.value, ast.Name) and f.value.id in receivers):
            return None
        impls = {id(c.methods[f.attr].node): c.methods[f.attr] for c in subs if f.attr in c.methods}
        if len(impls) != 1:
            return None
        m = next(iter(impls.values()))
        if m.kind != "method" or m.node.decorator_list:
            return None
        return view(m).node, f.value

    return expand_statement_calls(fn.node, resolve, "m")


def inline_local_closures(fn_node):
    """Calls of a function defined inside `fn_node` (a local closure, defined once, possibly reached through a single-assignment
    alias such as a helper's parameter it was passed as) read as the closure's body in place: it reads the enclosing
    variables at call time, exactly what the statements in place do."""
    single = single_assignments(fn_node)
    defs = {}
    for x in ast.walk(fn_node):
        if isinstance(x, ast.FunctionDef) and x is not fn_node:
            defs.setdefault(x.name, []).append(x)
    stores = {}
    for x in ast.walk(fn_node):
        if isinstance(x, ast.Name) and isinstance(x.ctx, ast.Store):
            stores[x.id] = stores.get(x.id, 0) + 1
    local = {nm: d[0] for nm, d in defs.items() if len(d) == 1 and not stores.get(nm) and not d[0].decorator_list}
    if not local:
        return fn_node

    def resolve(call):
        f = call.func
        for _ in range(4):
            if isinstance(f, ast.Name) and f.id in single and isinstance(single[f.id], ast.Name):
                f = single[f.id]
        if isinstance(f, ast.Name) and f.id in local:
            return local[f.id], None
        return None

    return expand_statement_calls(fn_node, resolve, "c")
