"""Helpers of the C08 rules: locals seen through their definitions, alias classes of array names, recognisers of the
masked-store idioms (`X[mask] = V`, `X = np.where(mask, V, X)`, `np.putmask(X, mask, V)`, ...), constant folding of the
no-data constants, resolution of a name to one of the package's no-data constants.

Everything here decides by what an expression is after private helpers are expanded (ctx.view) and temporaries are
replaced by their definitions — never by how a local is called or in which function a statement lives."""

from __future__ import annotations

import ast
import copy
import re

from ..model import unparse

_RET = re.compile(r"^_ret__i\d+$")


def call_name(c) -> str | None:
    """Last component of the called name: `np.isnan(x)` -> 'isnan', `deepcopy(x)` -> 'deepcopy'."""
    if not isinstance(c, ast.Call):
        return None
    f = c.func
    return f.attr if isinstance(f, ast.Attribute) else getattr(f, "id", None)


# ---------------------------------------------------------------------------------------------------- locals
class Locals:
    """Definitions of the local names of one function (flow-insensitive).

    `expand(expr)` replaces a local that has one defining expression by that expression (recursively).  The `_ret = None`
    initialisation that helper expansion puts in front of an inlined body does not count as a definition when the body
    assigns the result.  Parameters, loop targets, unpacked / augmented names are never replaced."""

    def __init__(self, fn_node):
        self.fn = fn_node
        self.defs: dict = {}
        self.opaque: set = set()
        a = fn_node.args
        self.params = {x.arg for x in a.posonlyargs + a.args + a.kwonlyargs}
        if a.vararg:
            self.params.add(a.vararg.arg)
        if a.kwarg:
            self.params.add(a.kwarg.arg)
        for n in ast.walk(fn_node):
            if isinstance(n, (ast.Assign, ast.AnnAssign)) and n.value is not None:
                tgs = n.targets if isinstance(n, ast.Assign) else [n.target]
                for t in tgs:
                    if isinstance(t, ast.Name):
                        self.defs.setdefault(t.id, []).append(n.value)
                    elif isinstance(t, (ast.Tuple, ast.List)) and not any(isinstance(e, ast.Starred) for e in t.elts):
                        # `a, b = e`: a is e[0], b is e[1] (or the matching element when e is itself a tuple display)
                        for i, e in enumerate(t.elts):
                            if isinstance(e, ast.Name):
                                if isinstance(n.value, (ast.Tuple, ast.List)) and len(n.value.elts) == len(t.elts) \
                                        and not any(isinstance(x, ast.Starred) for x in n.value.elts):
                                    self.defs.setdefault(e.id, []).append(n.value.elts[i])
                                else:
                                    self.defs.setdefault(e.id, []).append(ast.Subscript(value=n.value, slice=ast.Constant(value=i), ctx=ast.Load()))
                            else:
                                for x in ast.walk(e):
                                    if isinstance(x, ast.Name) and isinstance(x.ctx, ast.Store):
                                        self.opaque.add(x.id)
                    elif isinstance(t, (ast.Tuple, ast.List, ast.Starred)):
                        for x in ast.walk(t):
                            if isinstance(x, ast.Name) and isinstance(x.ctx, ast.Store):
                                self.opaque.add(x.id)
            elif isinstance(n, ast.With):
                for it in n.items:
                    if isinstance(it.optional_vars, ast.Name):
                        self.defs.setdefault(it.optional_vars.id, []).append(it.context_expr)
                    elif it.optional_vars is not None:
                        for x in ast.walk(it.optional_vars):
                            if isinstance(x, ast.Name):
                                self.opaque.add(x.id)
            elif isinstance(n, ast.AugAssign):
                for x in ast.walk(n.target):
                    if isinstance(x, ast.Name) and x is n.target:
                        self.opaque.add(x.id)
            elif isinstance(n, (ast.For, ast.AsyncFor, ast.comprehension)):
                for x in ast.walk(n.target):
                    if isinstance(x, ast.Name):
                        self.opaque.add(x.id)
            elif isinstance(n, ast.NamedExpr) and isinstance(n.target, ast.Name):
                self.defs.setdefault(n.target.id, []).append(n.value)
            elif isinstance(n, ast.ExceptHandler) and n.name:
                self.opaque.add(n.name)
            elif isinstance(n, ast.Delete):
                for t in n.targets:
                    if isinstance(t, ast.Name):
                        self.opaque.add(t.id)

    def values(self, name) -> list:
        """The defining expressions of a local (the inlining artefact `_ret = None` left out)."""
        vals = self.defs.get(name, [])
        if _RET.match(name) and len(vals) > 1:
            real = [v for v in vals if not (isinstance(v, ast.Constant) and v.value is None)]
            vals = real or vals
        return vals

    def single(self, name):
        if name in self.params or name in self.opaque:
            return None
        vals = self.values(name)
        return vals[0] if len(vals) == 1 else None

    def expand(self, expr, keep=(), _depth=0, _seen=()):
        """`keep`: names left as they are (the array a mask or a store is about)."""
        if expr is None or _depth > 10:
            return expr
        me = self

        class E(ast.NodeTransformer):
            def visit_Name(self, n):
                if isinstance(n.ctx, ast.Load) and n.id not in _seen and n.id not in keep:
                    d = me.single(n.id)
                    if d is not None and not any(isinstance(x, ast.Name) and x.id == n.id for x in ast.walk(d)):
                        return ast.copy_location(me.expand(copy.deepcopy(d), keep, _depth + 1, _seen + (n.id,)), n)
                return n

            def visit_Lambda(self, n):
                return n

        return E().visit(copy.deepcopy(expr))

    def text(self, expr) -> str:
        return unparse(self.expand(expr))

    # ------------------------------------------------------------------------------------------------ aliases
    def alias_class(self, name) -> set:
        """Names that may denote the same object as `name`: connected through plain copies `a = b`."""
        edges: dict = {}
        for a, vals in self.defs.items():
            for v in vals:
                if isinstance(v, ast.Name):
                    edges.setdefault(a, set()).add(v.id)
                    edges.setdefault(v.id, set()).add(a)
        seen, todo = {name}, [name]
        while todo:
            x = todo.pop()
            for y in edges.get(x, ()):
                if y not in seen:
                    seen.add(y)
                    todo.append(y)
        return seen


# ---------------------------------------------------------------------------------------------------- masked stores
def masked_stores(fn_node, L: Locals) -> list:
    """Every statement that overwrites the elements of a named array selected by a mask:
    returns (statement, name of the array, mask expression with temporaries expanded, stored value expression).

        X[mask] = V                      X = np.where(mask, V, X)           np.putmask(X, mask, V)
        np.copyto(X, V, where=mask)      np.place(X, mask, V)               X = np.nan_to_num(X, nan=V)   (mask: isnan(X))
    """
    out = []
    for s in ast.walk(fn_node):
        if isinstance(s, ast.Assign) and len(s.targets) == 1:
            t = s.targets[0]
            if isinstance(t, ast.Subscript) and isinstance(t.value, ast.Name):
                out.append((s, t.value.id, L.expand(t.slice, L.alias_class(t.value.id)), s.value))
            elif isinstance(t, ast.Name) and isinstance(s.value, ast.Call):
                c = s.value
                nm = call_name(c)
                same = L.alias_class(t.id)
                if nm == "where" and len(c.args) == 3 and isinstance(c.args[2], ast.Name) and c.args[2].id in same:
                    out.append((s, t.id, L.expand(c.args[0], same), c.args[1]))
                elif nm == "nan_to_num" and c.args and isinstance(c.args[0], ast.Name) and c.args[0].id in same:
                    # replaces NaN by `nan=` — and, unless told otherwise, +inf / -inf by the largest finite values: the mask is isnan(X) only
                    # when posinf= / neginf= hand the infinities back
                    kws = {k.arg: k.value for k in c.keywords if k.arg}
                    if "nan" in kws:
                        keeps_inf = is_inf(L.expand(kws.get("posinf")), +1) and is_inf(L.expand(kws.get("neginf")), -1)
                        fn_name = "isnan" if keeps_inf else "c08_isnan_or_isinf"
                        out.append((s, t.id, ast.Call(func=ast.Attribute(value=ast.Name(id="np", ctx=ast.Load()), attr=fn_name, ctx=ast.Load()),
                                                      args=[c.args[0]], keywords=[]), kws["nan"]))
        elif isinstance(s, ast.Expr) and isinstance(s.value, ast.Call):
            c = s.value
            nm = call_name(c)
            if nm in ("putmask", "place") and len(c.args) == 3 and isinstance(c.args[0], ast.Name):
                out.append((s, c.args[0].id, L.expand(c.args[1], L.alias_class(c.args[0].id)), c.args[2]))
            elif nm == "copyto" and len(c.args) >= 2 and isinstance(c.args[0], ast.Name):
                for k in c.keywords:
                    if k.arg == "where":
                        out.append((s, c.args[0].id, L.expand(k.value, L.alias_class(c.args[0].id)), c.args[1]))
    return out


def is_isnan_of(mask, names: set) -> bool:
    """mask is exactly `isnan(X)` (or the NaN self-inequality `X != X`) for an array X called one of `names`."""
    if isinstance(mask, ast.Call) and call_name(mask) == "isnan" and len(mask.args) == 1 and not mask.keywords:
        return isinstance(mask.args[0], ast.Name) and mask.args[0].id in names
    if isinstance(mask, ast.Compare) and len(mask.ops) == 1 and isinstance(mask.ops[0], ast.NotEq):
        a, b = mask.left, mask.comparators[0]
        return isinstance(a, ast.Name) and isinstance(b, ast.Name) and a.id == b.id and a.id in names
    return False


def is_inf(expr, sign) -> bool:
    """np.inf / math.inf / float('inf') with the given sign (+1 / -1)."""
    if expr is None:
        return False
    if isinstance(expr, ast.UnaryOp) and isinstance(expr.op, (ast.USub, ast.UAdd)):
        return is_inf(expr.operand, -sign if isinstance(expr.op, ast.USub) else sign)
    if isinstance(expr, ast.Attribute) and isinstance(expr.value, ast.Name):
        if expr.attr in ("inf", "Inf", "infty", "PINF"):
            return sign > 0
        if expr.attr == "NINF":
            return sign < 0
    if isinstance(expr, ast.Call) and getattr(expr.func, "id", None) == "float" and len(expr.args) == 1 and isinstance(expr.args[0], ast.Constant):
        txt = str(expr.args[0].value).lower().strip()
        if txt in ("inf", "+inf", "infinity", "+infinity"):
            return sign > 0
        if txt in ("-inf", "-infinity"):
            return sign < 0
    return False


def covers_more_than_nan(mask, names: set) -> bool:
    """The mask selects the NaNs of X (called one of `names`) and other elements too: nan_to_num with default posinf / neginf, `~isfinite(X)`,
    `isnan(X) | <anything>`."""
    def arr(e):
        return isinstance(e, ast.Name) and e.id in names

    if isinstance(mask, ast.Call) and call_name(mask) == "c08_isnan_or_isinf" and mask.args and arr(mask.args[0]):
        return True
    if isinstance(mask, ast.UnaryOp) and isinstance(mask.op, (ast.Invert, ast.Not)) and isinstance(mask.operand, ast.Call) \
            and call_name(mask.operand) == "isfinite" and mask.operand.args and arr(mask.operand.args[0]):
        return True
    if isinstance(mask, ast.Call) and call_name(mask) == "logical_not" and mask.args and isinstance(mask.args[0], ast.Call) \
            and call_name(mask.args[0]) == "isfinite" and mask.args[0].args and arr(mask.args[0].args[0]):
        return True
    if isinstance(mask, ast.BinOp) and isinstance(mask.op, ast.BitOr):
        return any(is_isnan_of(x, names) or covers_more_than_nan(x, names) for x in (mask.left, mask.right))
    if isinstance(mask, ast.Call) and call_name(mask) == "logical_or":
        return any(is_isnan_of(x, names) or covers_more_than_nan(x, names) for x in mask.args)
    return False


def eq_other_side(mask, names: set):
    """mask is exactly `X == E` / `E == X` for an array X called one of `names`: returns E, else None."""
    if isinstance(mask, ast.Compare) and len(mask.ops) == 1 and isinstance(mask.ops[0], ast.Eq):
        a, b = mask.left, mask.comparators[0]
        if isinstance(a, ast.Name) and a.id in names:
            return b
        if isinstance(b, ast.Name) and b.id in names:
            return a
    return None


def is_nan(expr) -> bool:
    """np.nan / numpy.nan / math.nan / np.NaN / float('nan')."""
    if isinstance(expr, ast.Attribute) and expr.attr in ("nan", "NaN") and isinstance(expr.value, ast.Name):
        return True
    if isinstance(expr, ast.Call) and getattr(expr.func, "id", None) == "float" and len(expr.args) == 1 \
            and isinstance(expr.args[0], ast.Constant) and str(expr.args[0].value).lower() == "nan":
        return True
    return False


# ---------------------------------------------------------------------------------------------------- constants
def fold(p, mod, expr, _depth=0):
    """Numeric value of a constant expression (literals, + - * / // ** <<, unary minus, int() / float(), names bound once at
    module level to such an expression, also through imports); None when it is not one."""
    if expr is None or _depth > 8:
        return None
    if isinstance(expr, ast.Constant):
        return expr.value if isinstance(expr.value, (int, float)) and not isinstance(expr.value, bool) else None
    if isinstance(expr, ast.UnaryOp) and isinstance(expr.op, (ast.USub, ast.UAdd)):
        v = fold(p, mod, expr.operand, _depth + 1)
        return None if v is None else (-v if isinstance(expr.op, ast.USub) else v)
    if isinstance(expr, ast.BinOp):
        a, b = fold(p, mod, expr.left, _depth + 1), fold(p, mod, expr.right, _depth + 1)
        if a is None or b is None:
            return None
        try:
            if isinstance(expr.op, ast.Add):
                return a + b
            if isinstance(expr.op, ast.Sub):
                return a - b
            if isinstance(expr.op, ast.Mult):
                return a * b
            if isinstance(expr.op, ast.Div):
                return a / b
            if isinstance(expr.op, ast.FloorDiv):
                return a // b
            if isinstance(expr.op, ast.Pow) and abs(b) <= 1024:
                return a ** b
            if isinstance(expr.op, ast.LShift) and isinstance(a, int) and isinstance(b, int) and 0 <= b <= 1024:
                return a << b
        except Exception:
            return None
        return None
    if isinstance(expr, ast.Call) and getattr(expr.func, "id", None) in ("int", "float") and len(expr.args) == 1 and not expr.keywords:
        v = fold(p, mod, expr.args[0], _depth + 1)
        if v is None:
            return None
        try:
            return int(v) if expr.func.id == "int" else float(v)
        except Exception:
            return None
    if isinstance(expr, ast.Name):
        r = p.resolve_name(mod, expr.id)
        if r and r[0] == "assign":
            return fold(p, r[1][0], r[1][1], _depth + 1)
        return None
    if isinstance(expr, ast.Attribute):
        r = p.resolve_expr(mod, expr)
        if r and r[0] == "assign" and r[1][0] is not None:
            return fold(p, r[1][0], r[1][1], _depth + 1)
    return None


class NdvHome:
    """The two no-data constants of the package, identified by their defining assignment (wherever `geoh5py.shared` takes them from)."""

    names = ("FLOAT_NDV", "INTEGER_NDV")

    def __init__(self, p, shared):
        self.p = p
        self.shared = shared
        self.home = {}
        for nm in self.names:
            r = p.resolve_name(shared, nm)
            if r and r[0] == "assign":
                self.home[nm] = r[1]

    def value(self, name):
        h = self.home.get(name)
        return fold(self.p, h[0], h[1]) if h else None

    def which(self, mod, expr) -> str | None:
        """'FLOAT_NDV' / 'INTEGER_NDV' when expr (a name, possibly imported under another name, or `module.name`) is that constant."""
        for m in (mod if isinstance(mod, (list, tuple)) else [mod]):
            r = None
            if isinstance(expr, ast.Name):
                r = self.p.resolve_name(m, expr.id)
            elif isinstance(expr, ast.Attribute):
                r = self.p.resolve_expr(m, expr)
            if not r:
                continue  # not a name of this module: code expanded from a helper is resolved where the helper was written
            if r[0] != "assign":
                return None
            for nm, h in self.home.items():
                if r[1][1] is h[1]:
                    return nm
            return None
        return None

    def mentioned(self, mod, node) -> set:
        """The no-data constants a piece of code refers to; a name that merely looks like one (`*_NDV`) but is not one of the
        two shared constants is reported as '<name>'."""
        out = set()
        for n in ast.walk(node):
            if isinstance(n, (ast.Name, ast.Attribute)) and isinstance(getattr(n, "ctx", None), ast.Load):
                w = self.which(mod, n)
                if w:
                    out.add(w)
                else:
                    ident = n.id if isinstance(n, ast.Name) else n.attr
                    if ident.endswith("_NDV"):
                        out.add(f"<{ident}>")
        return out


# ---------------------------------------------------------------------------------------------------- dtype kinds of text arrays
_BYTES_T = {"bytes", "bytes_", "string_"}
_NOT_BYTES_T = {"str", "str_", "unicode_", "int", "float", "bool", "integer", "floating", "number", "inexact", "signedinteger", "unsignedinteger",
                "complexfloating", "bool_", "ndarray", "float16", "float32", "float64", "int8", "int16", "int32", "int64", "uint8", "uint16", "uint32", "uint64"}
_SUPER = {"s": {"bytes_", "string_", "character", "flexible", "generic", "bytes"}, "o": {"object_", "generic", "object"}}


def _tname(e):
    return e.attr if isinstance(e, ast.Attribute) else (e.id if isinstance(e, ast.Name) else (e.value if isinstance(e, ast.Constant) and isinstance(e.value, str) else None))


def text_kind_truth(test, names: set, kind: str):
    """Value (True / False / None = not decidable) of an elementary condition about an array X (called one of `names`) read from a dataset of
    byte strings: kind "s" = fixed-length (NumPy dtype S<n>, elements np.bytes_), kind "o" = variable length (object array of bytes).
    The array is taken to be non-empty.  Only dtype / element-type / emptiness tests are decided."""
    def is_arr(e):
        return isinstance(e, ast.Name) and e.id in names

    def is_dtype(e):
        return isinstance(e, ast.Attribute) and e.attr == "dtype" and is_arr(e.value)

    def dtype_is(e):
        """is the dtype of X equal to what `e` denotes?"""
        if isinstance(e, ast.Call) and call_name(e) == "dtype" and len(e.args) == 1:
            e = e.args[0]
        nm = _tname(e)
        if nm is None:
            return None
        if nm in ("object", "object_", "O"):
            return kind == "o"
        if nm in _NOT_BYTES_T or nm in ("U", "<U", "f", "d", "i", "f4", "f8", "i4", "i8", "<f4", "<f8", "<i4", "<i8", "u4", "<u4"):
            return False
        return None

    t = test
    if isinstance(t, ast.Call) and getattr(t.func, "id", None) == "isinstance" and len(t.args) == 2 and isinstance(t.args[0], ast.Subscript) and is_arr(t.args[0].value):
        tn = [_tname(x) for x in (t.args[1].elts if isinstance(t.args[1], ast.Tuple) else [t.args[1]])]
        if any(n in _BYTES_T for n in tn):
            return True
        return False if all(n in _NOT_BYTES_T for n in tn) else None
    if isinstance(t, ast.Call) and call_name(t) == "issubdtype" and len(t.args) == 2 and is_dtype(t.args[0]):
        n = _tname(t.args[1])
        if n is None:
            return None
        if n in _SUPER[kind]:
            return True
        return False if (n in _NOT_BYTES_T or n in _SUPER["s"] or n in _SUPER["o"]) else None
    if isinstance(t, ast.Compare) and len(t.ops) == 1:
        op, a, b = t.ops[0], t.left, t.comparators[0]
        if isinstance(op, (ast.Eq, ast.NotEq, ast.Is, ast.IsNot)) and (is_dtype(a) or is_dtype(b)):
            v = dtype_is(b if is_dtype(a) else a)
            return None if v is None else (v if isinstance(op, (ast.Eq, ast.Is)) else not v)
        if isinstance(op, (ast.In, ast.NotIn)) and is_dtype(a) and isinstance(b, (ast.List, ast.Tuple, ast.Set)):
            vals = [dtype_is(e) for e in b.elts]
            v = True if any(x is True for x in vals) else (False if all(x is False for x in vals) else None)
            return None if v is None else (v if isinstance(op, ast.In) else not v)
        if isinstance(a, ast.Attribute) and a.attr == "kind" and is_dtype(a.value):
            ch = kind.upper()
            if isinstance(op, (ast.Eq, ast.NotEq)) and isinstance(b, ast.Constant) and isinstance(b.value, str):
                return (b.value == ch) if isinstance(op, ast.Eq) else (b.value != ch)
            if isinstance(op, (ast.In, ast.NotIn)):
                members = list(b.value) if isinstance(b, ast.Constant) and isinstance(b.value, str) else \
                    ([e.value for e in b.elts] if isinstance(b, (ast.List, ast.Tuple, ast.Set)) and all(isinstance(e, ast.Constant) for e in b.elts) else None)
                if members is not None:
                    return (ch in members) if isinstance(op, ast.In) else (ch not in members)
        # emptiness / None
        size = (isinstance(a, ast.Call) and getattr(a.func, "id", None) == "len" and len(a.args) == 1 and is_arr(a.args[0])) or \
               (isinstance(a, ast.Attribute) and a.attr == "size" and is_arr(a.value))
        if size and isinstance(b, ast.Constant) and b.value == 0:
            if isinstance(op, (ast.Gt, ast.NotEq)):
                return True
            if isinstance(op, (ast.Eq, ast.LtE)):
                return False
        if is_arr(a) and isinstance(op, (ast.Is, ast.IsNot)) and isinstance(b, ast.Constant) and b.value is None:
            return isinstance(op, ast.IsNot)
    if (isinstance(t, ast.Call) and getattr(t.func, "id", None) == "len" and len(t.args) == 1 and is_arr(t.args[0])) or \
            (isinstance(t, ast.Attribute) and t.attr == "size" and is_arr(t.value)):
        return True
    return None
