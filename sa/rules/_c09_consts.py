"""Which string constants can an expression evaluate to?  (C09's own extension of roles.const_values.)

The container a writer function works in is named by a key; C09 only needs to know that the key can hold nothing but the
names of the skeleton containers, whatever way the code computes it.  roles.const_values follows locals, loops over literal
tables, next(<generator>) and dict look-ups inside ONE function.  Refactorings that go across functions compute the key

  * by a helper (`cls._container_name(entity) or "Groups"`, module function `container_name(entity, hierarchy=TABLE)`,
    `self.str_from_type(entity)` scanning a module table with next()): the value is one of the helper's RETURN values, with its
    parameters bound to the actual arguments / defaults;
  * from tables put together (`ENTITY + TYPE` tuples, a dict of tuples iterated with .items() and the inner tuple iterated again);
  * through module / class level constants.

`Consts.strs(expr, fn)` returns the set of strings (None values are dropped, as in roles.const_values) or None when the value
cannot be bounded.  `Consts.seq(expr, fn)` returns the element expressions a sequence-valued expression can yield.
Nothing is matched by spelling: everything is evaluation of bindings.
"""

from __future__ import annotations

import ast

MAX_DEPTH = 4


class _Scope:
    """a function node, the module / class it resolves free names in, and the bindings of its parameters (for a callee)"""

    def __init__(self, fn, node, env=None):
        self.fn = fn  # FuncInfo (module, cls)
        self.node = node
        self.env = env if env is not None else {}  # parameter -> (expr, _Scope) of the actual argument


class Consts:
    def __init__(self, project, view=None):
        self.p = project
        self.view = view or (lambda f: f)
        self._parents: dict = {}

    # ------------------------------------------------------------------ public
    def strs(self, expr, fn, node=None):
        return self._strs(expr, _Scope(fn, node if node is not None else fn.node), 0, ())

    def seq(self, expr, fn, node=None):
        return self._seq(expr, _Scope(fn, node if node is not None else fn.node), 0, ())

    def returned(self, fn):
        """strings a function can return, its parameters unbound (defaults apply)"""
        return self._returns(fn, [], [], _Scope(fn, fn.node), 0)

    # ------------------------------------------------------------------ bindings
    def _parent_map(self, node):
        pm = self._parents.get(id(node))
        if pm is None:
            pm = {}
            for a in ast.walk(node):
                for ch in ast.iter_child_nodes(a):
                    pm[id(ch)] = a
            self._parents[id(node)] = pm
        return pm

    @staticmethod
    def _project(target, name, row):
        """the part of `row` (an element expression) that a (possibly nested tuple) target gives to `name`; False when it cannot be told"""
        if isinstance(target, ast.Name):
            return row if target.id == name else None
        if isinstance(target, (ast.Tuple, ast.List)):
            for i, t in enumerate(target.elts):
                if any(isinstance(x, ast.Name) and x.id == name for x in ast.walk(t)):
                    if not isinstance(row, (ast.Tuple, ast.List)) or i >= len(row.elts) or any(isinstance(e, ast.Starred) for e in row.elts):
                        return False
                    return Consts._project(t, name, row.elts[i])
        return None

    def _bindings(self, use, sc, depth, seen):
        """expressions a Name may be bound to at `use` (flow-insensitive, but a name read inside a loop / comprehension that binds it
        takes that binding only): list of (expr, scope) or None"""
        name = use.id
        node = sc.node
        pm = self._parent_map(node)
        # innermost enclosing loop / comprehension binding the name
        cur = pm.get(id(use))
        prev = use
        while cur is not None:
            gens = []
            if isinstance(cur, (ast.For, ast.AsyncFor)) and any(prev is b for b in cur.body):
                gens = [(cur.target, cur.iter)]
            elif isinstance(cur, (ast.ListComp, ast.SetComp, ast.GeneratorExp, ast.DictComp)):
                # the source of the first generator is evaluated outside the comprehension
                if not any(x is use for x in ast.walk(cur.generators[0].iter)):
                    gens = [(g.target, g.iter) for g in cur.generators]
            for tgt, it in reversed(gens):
                if any(isinstance(x, ast.Name) and x.id == name for x in ast.walk(tgt)):
                    return self._loop_values(tgt, it, name, sc, depth, seen)
            prev, cur = cur, pm.get(id(cur))
        out = []
        found = False
        for n in ast.walk(node):
            if isinstance(n, (ast.Assign, ast.AnnAssign)) and n.value is not None:
                for t in (n.targets if isinstance(n, ast.Assign) else [n.target]):
                    if isinstance(t, ast.Name) and t.id == name:
                        out.append((n.value, sc))
                        found = True
                    elif not isinstance(t, ast.Name) and any(isinstance(x, ast.Name) and x.id == name and isinstance(x.ctx, ast.Store) for x in ast.walk(t)):
                        pr = self._project(t, name, n.value)
                        if pr in (None, False):
                            return None
                        out.append((pr, sc))
                        found = True
            elif isinstance(n, (ast.For, ast.AsyncFor)) and any(isinstance(x, ast.Name) and x.id == name for x in ast.walk(n.target)):
                lv = self._loop_values(n.target, n.iter, name, sc, depth, seen)
                if lv is None:
                    return None
                out += lv
                found = True
            elif isinstance(n, (ast.AugAssign, ast.NamedExpr)) and isinstance(n.target, ast.Name) and n.target.id == name:
                return None
            elif isinstance(n, ast.withitem) and n.optional_vars is not None and any(isinstance(x, ast.Name) and x.id == name for x in ast.walk(n.optional_vars)):
                return None
        a = getattr(node, "args", None)
        params = {x.arg for x in a.posonlyargs + a.args + a.kwonlyargs} if a is not None else set()
        if name in params:
            if found:
                return None  # a parameter that is re-bound: not followed
            if name in sc.env:
                return [sc.env[name]]
            return None
        if found:
            return out
        # free name: class attribute through cls/self is handled by the caller; here module level
        r = self.p.resolve_name(sc.fn.module, name) if sc.fn is not None else None
        if r and r[0] == "assign":
            mod, e = r[1]
            return [(e, _Scope(_ModuleFn(mod), mod.tree))]
        return None

    def _loop_values(self, target, it, name, sc, depth, seen):
        rows = self._seq(it, sc, depth + 1, seen)
        if rows is None:
            return None
        out = []
        for row, rsc in rows:
            pr = self._project(target, name, row)
            if pr in (None, False):
                return None
            out.append((pr, rsc))
        return out

    # ------------------------------------------------------------------ sequences
    def _seq(self, e, sc, depth, seen):
        """[(element expr, scope)] or None"""
        if depth > 3 * MAX_DEPTH:
            return None
        if isinstance(e, (ast.List, ast.Tuple, ast.Set)):
            if any(isinstance(x, ast.Starred) for x in e.elts):
                out = []
                for x in e.elts:
                    if isinstance(x, ast.Starred):
                        sub = self._seq(x.value, sc, depth + 1, seen)
                        if sub is None:
                            return None
                        out += sub
                    else:
                        out.append((x, sc))
                return out
            return [(x, sc) for x in e.elts]
        if isinstance(e, ast.Dict):
            return [(k, sc) for k in e.keys] if all(k is not None for k in e.keys) else None
        if isinstance(e, ast.BinOp) and isinstance(e.op, ast.Add):
            a, b = self._seq(e.left, sc, depth + 1, seen), self._seq(e.right, sc, depth + 1, seen)
            return None if a is None or b is None else a + b
        if isinstance(e, ast.IfExp):
            a, b = self._seq(e.body, sc, depth + 1, seen), self._seq(e.orelse, sc, depth + 1, seen)
            return None if a is None or b is None else a + b
        if isinstance(e, ast.Name):
            key = (id(sc.node), e.id)
            if key in seen:
                return []
            bs = self._bindings(e, sc, depth, seen + (key,))
            if bs is None:
                return None
            out = []
            for v, vsc in bs:
                sub = self._seq(v, vsc, depth + 1, seen + (key,))
                if sub is None:
                    return None
                out += sub
            return out
        if isinstance(e, ast.Attribute):
            v = self._class_attr(e, sc)
            return self._seq(v[0], v[1], depth + 1, seen) if v else None
        if isinstance(e, ast.Subscript):
            d = self._dict_of(e.value, sc, depth, seen)
            if d is not None:
                out = []
                for v in d[0].values:
                    sub = self._seq(v, d[1], depth + 1, seen)
                    if sub is None:
                        return None
                    out += sub
                return out
            return None
        if isinstance(e, ast.Call):
            f = e.func
            if isinstance(f, ast.Name) and f.id in ("list", "tuple", "sorted", "set", "frozenset", "iter", "reversed") and len(e.args) == 1:
                return self._seq(e.args[0], sc, depth + 1, seen)
            if isinstance(f, ast.Attribute) and f.attr in ("items", "values", "keys") and not e.args:
                d = self._dict_of(f.value, sc, depth, seen)
                if d is None or any(k is None for k in d[0].keys):
                    return None
                if f.attr == "items":
                    return [(ast.Tuple(elts=[k, v], ctx=ast.Load()), d[1]) for k, v in zip(d[0].keys, d[0].values)]
                return [(x, d[1]) for x in (d[0].values if f.attr == "values" else d[0].keys)]
        if isinstance(e, (ast.GeneratorExp, ast.ListComp, ast.SetComp)) and len(e.generators) == 1:
            # rows produced by a comprehension: one per row of its source (filters can only drop rows)
            rows = self._seq(e.generators[0].iter, sc, depth + 1, seen)
            if rows is None:
                return None
            if isinstance(e.elt, ast.Name):
                out = []
                for row, rsc in rows:
                    pr = self._project(e.generators[0].target, e.elt.id, row)
                    if pr in (None, False):
                        return None
                    out.append((pr, rsc))
                return out
            return None
        return None

    def _dict_of(self, e, sc, depth, seen):
        """(Dict literal, scope) an expression denotes, else None"""
        if isinstance(e, ast.Dict):
            return (e, sc)
        if isinstance(e, ast.Name):
            bs = self._bindings(e, sc, depth, seen)
            if bs and len(bs) == 1:
                return self._dict_of(bs[0][0], bs[0][1], depth + 1, seen) if depth < 3 * MAX_DEPTH else None
        if isinstance(e, ast.Attribute):
            v = self._class_attr(e, sc)
            if v:
                return self._dict_of(v[0], v[1], depth + 1, seen)
        return None

    def _class_attr(self, e, sc):
        """cls.NAME / self.NAME / Class.NAME bound at class level: (expr, scope)"""
        if not isinstance(e.value, ast.Name) or sc.fn is None:
            return None
        owner = None
        if e.value.id in ("cls", "self") and getattr(sc.fn, "cls", None) is not None:
            owner = sc.fn.cls
        else:
            r = self.p.resolve_name(sc.fn.module, e.value.id)
            if r and r[0] == "class":
                owner = r[1]
            elif r and r[0] == "module":
                mod = r[1]
                if e.attr in mod.assigns:
                    return (mod.assigns[e.attr], _Scope(_ModuleFn(mod), mod.tree))
        if owner is None:
            return None
        m = owner.lookup(e.attr)
        if m and m[1] == "assign" and m[0].module is not None:
            return (m[2], _Scope(_ModuleFn(m[0].module, m[0]), m[0].node))
        return None

    # ------------------------------------------------------------------ strings
    def _strs(self, e, sc, depth, seen):
        if depth > 3 * MAX_DEPTH:
            return None
        if isinstance(e, ast.Constant):
            if e.value is None:
                return set()
            return {e.value} if isinstance(e.value, str) else None
        if isinstance(e, ast.IfExp):
            return self._union([e.body, e.orelse], sc, depth, seen)
        if isinstance(e, ast.BoolOp):
            return self._union(e.values, sc, depth, seen)
        if isinstance(e, ast.NamedExpr):
            return self._strs(e.value, sc, depth + 1, seen)
        if isinstance(e, ast.Name):
            key = (id(sc.node), e.id)
            if key in seen:
                return set()
            bs = self._bindings(e, sc, depth, seen + (key,))
            if bs is None:
                return None
            out = set()
            for v, vsc in bs:
                sub = self._strs(v, vsc, depth + 1, seen + (key,))
                if sub is None:
                    return None
                out |= sub
            return out
        if isinstance(e, ast.Attribute):
            v = self._class_attr(e, sc)
            return self._strs(v[0], v[1], depth + 1, seen) if v else None
        if isinstance(e, ast.Subscript):
            d = self._dict_of(e.value, sc, depth, seen)
            if d is not None:
                return self._union(list(d[0].values), d[1], depth, seen)
            rows = self._seq(e.value, sc, depth + 1, seen)
            if rows is not None and not isinstance(e.slice, ast.Slice):
                out = set()
                for row, rsc in rows:
                    sub = self._strs(row, rsc, depth + 1, seen)
                    if sub is None:
                        return None
                    out |= sub
                return out
            return None
        if isinstance(e, ast.Call):
            f = e.func
            if isinstance(f, ast.Name) and f.id == "next" and e.args:
                rows = self._seq(e.args[0], sc, depth + 1, seen)
                if rows is None:
                    g = e.args[0]
                    if isinstance(g, ast.GeneratorExp):
                        a = self._strs(g.elt, sc, depth + 1, seen)
                    else:
                        a = None
                else:
                    a = set()
                    for row, rsc in rows:
                        sub = self._strs(row, rsc, depth + 1, seen)
                        if sub is None:
                            a = None
                            break
                        a |= sub
                b = self._strs(e.args[1], sc, depth + 1, seen) if len(e.args) > 1 else set()
                return None if a is None or b is None else a | b
            if isinstance(f, ast.Attribute) and f.attr == "get" and e.args:
                d = self._dict_of(f.value, sc, depth, seen)
                if d is not None:
                    a = self._union(list(d[0].values), d[1], depth, seen)
                    b = self._strs(e.args[1], sc, depth + 1, seen) if len(e.args) > 1 else set()
                    return None if a is None or b is None else a | b
                return None
            if isinstance(f, ast.Name) and f.id == "str" and len(e.args) == 1:
                return self._strs(e.args[0], sc, depth + 1, seen)
            callee = self._callee(f, sc)
            if callee is not None and depth < 3 * MAX_DEPTH:
                return self._returns(callee, e.args, e.keywords, sc, depth + 1)
            return None
        return None

    def _union(self, exprs, sc, depth, seen):
        out = set()
        for v in exprs:
            sub = self._strs(v, sc, depth + 1, seen)
            if sub is None:
                return None
            out |= sub
        return out

    # ------------------------------------------------------------------ calls
    def _callee(self, f, sc):
        if sc.fn is None:
            return None
        if isinstance(f, ast.Name):
            r = self.p.resolve_name(sc.fn.module, f.id)
            return r[1] if r and r[0] == "func" else None
        if isinstance(f, ast.Attribute) and isinstance(f.value, ast.Name):
            owner = None
            if f.value.id in ("cls", "self") and getattr(sc.fn, "cls", None) is not None:
                owner = sc.fn.cls
            else:
                r = self.p.resolve_name(sc.fn.module, f.value.id)
                if r and r[0] == "class":
                    owner = r[1]
            m = owner.lookup(f.attr) if owner is not None else None
            if m and m[1] == "method":
                return m[2]
        return None

    def _returns(self, callee, args, keywords, sc, depth):
        fv = self.view(callee)
        a = fv.node.args
        names = [x.arg for x in a.posonlyargs + a.args]
        if fv.kind in ("method", "classmethod") and names:
            names = names[1:]
        env = {}
        defaults = dict(zip([x.arg for x in (a.posonlyargs + a.args)][::-1], a.defaults[::-1]))
        defaults.update({k.arg: d for k, d in zip(a.kwonlyargs, a.kw_defaults) if d is not None})
        csc = _Scope(fv, fv.node, env)
        for nm, d in defaults.items():
            env[nm] = (d, _Scope(fv, fv.node))
        for nm, v in zip(names, args):
            if isinstance(v, ast.Starred):
                return None
            env[nm] = (v, sc)
        for k in keywords:
            if k.arg is None:
                return None
            env[k.arg] = (k.value, sc)
        out = set()
        rets = [r for r in _own_returns(fv.node)]
        if not rets:
            return None
        for r in rets:
            if r.value is None:
                continue
            sub = self._strs(r.value, csc, depth + 1, ())
            if sub is None:
                return None
            out |= sub
        return out


class _ModuleFn:
    """stands for 'code at module / class level' where a FuncInfo is expected (free names resolve in the module)"""

    def __init__(self, module, cls=None):
        self.module = module
        self.cls = cls
        self.kind = "module"


def _own_returns(fn_node):
    stack = list(fn_node.body)
    while stack:
        n = stack.pop()
        if isinstance(n, (ast.FunctionDef, ast.AsyncFunctionDef, ast.Lambda, ast.ClassDef)):
            continue
        if isinstance(n, ast.Return):
            yield n
        stack.extend(ast.iter_child_nodes(n))
