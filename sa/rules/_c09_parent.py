"""C09.PARENT helper — what a writer function may delete on the stored node of its target's PARENT.

The statement lets an operation change "the child lists of the parents it leaves or joins": on the parent's node that is the
entry keyed by the target's own uid.  A member of the parent's node that is named by a constant (`PropertyGroups`, `Data`, ...)
is a whole container shared by all the siblings: deleting it is only harmless on paths where it is known to hold nothing, or
nothing but the target.  That is decided here by an explicit-state abstract interpretation of the function's flow graph:

  world of the container = (number of members: 0, 1, 2-or-more ; is the target's uid one of them)

* all five consistent worlds enter the function;
* tests on `len(<container>)`, `<uid> in <container>`, `<container>.get(<uid>) is None`, and on locals that were assigned
  such expressions EARLIER (the value is the one computed at the assignment, not at the test), prune worlds per edge;
* `del <container>[<uid>]`, member creations, the creation of the container itself and calls into other writer functions
  transform the world;
* at `del <parent node>[<constant>]` every world that arrives must be (0, -) or (1, target).

Nothing is matched by spelling: containers are identified by (who the base handle denotes, constant keys below it).
"""

from __future__ import annotations

import ast

from ..cfg import CFG, ordered
from ..model import chain, unparse
from ..roles import const_values

MANY = 2
WORLDS = ((0, False), (1, True), (1, False), (MANY, True), (MANY, False))
CREATORS = {"create_group", "create_dataset", "require_group", "require_dataset"}
SIZED_VIEWS = ("keys", "values", "items")
SIZED_WRAPS = ("list", "tuple", "set", "sorted", "frozenset")


def parentish(w) -> bool:
    """the handle denotes the node of a target's parent (never the target itself, never the project)"""
    return bool(w) and all(x == "parent" or x.endswith(".parent") for x in w)


class Paths:
    """(who, constant key path) of a handle expression; None when it is not a handle."""

    def __init__(self, fn, who, target_uids):
        self.fn = fn
        self.who = who
        self.target_uids = target_uids
        self.binds: dict = {}
        for n in ast.walk(fn.node):
            if isinstance(n, ast.Assign) and len(n.targets) == 1 and isinstance(n.targets[0], ast.Name):
                self.binds.setdefault(n.targets[0].id, []).append(n.value)

    def is_target_key(self, k) -> bool:
        u = self.who.uid_expr(k)
        return u is not None and u in self.target_uids

    def seg(self, k):
        """('uid', E) for a uid key, frozenset of constants for a constant key, '?' otherwise"""
        u = self.who.uid_expr(k)
        if u is not None:
            return ("uid", u)
        vals = const_values(k, self.fn.node)
        if vals and all(isinstance(v, str) for v in vals):
            return frozenset(vals)
        kx = self.who.x(k) if isinstance(k, ast.Name) else k  # aliases left by an expanded helper (`key_ = ref_type`) undone
        if isinstance(kx, ast.Name) and (kx.id in self.who.params or kx.id in self.who.sa_defs):
            return ("name", kx.id)  # a string that does not change during the call (parameter / bound once)
        return "?"

    def _child(self, base, key):
        s = self.seg(key)
        if isinstance(s, tuple) and s[0] == "uid":
            return (frozenset({s[1]}), ())
        p = self.path(base)
        if p is None:
            return None
        return (p[0], p[1] + (s,))

    def path(self, e, _seen=()):
        if isinstance(e, ast.Name):
            if e.id in _seen:
                return None
            if e.id in self.who.sa_defs:
                return self.path(self.who.sa_defs[e.id], _seen + (e.id,))
            vals = self.binds.get(e.id)
            if vals:
                got = {self.path(v, _seen + (e.id,)) for v in vals}
                if len(got) == 1 and None not in got:
                    return next(iter(got))
            w = self.who.who(e)
            return (frozenset(w), ()) if w else None
        if isinstance(e, ast.Subscript):
            return self._child(e.value, e.slice)
        if isinstance(e, ast.Call) and isinstance(e.func, ast.Attribute):
            f = e.func
            if f.attr in CREATORS | {"get"} and e.args and chain(f.value) not in (["cls"], ["H5Writer"]):
                return self._child(f.value, e.args[0])
        if isinstance(e, ast.IfExp):
            a, b = self.path(e.body, _seen), self.path(e.orelse, _seen)
            return a if a == b else None
        w = self.who.who(e)
        return (frozenset(w), ()) if w else None

    def sized(self, e):
        """path of the container whose member count `e` has as its length: C.keys() / list(C) / list(C.values()) / C"""
        while True:
            if isinstance(e, ast.Call) and isinstance(e.func, ast.Name) and e.func.id in SIZED_WRAPS and len(e.args) == 1:
                e = e.args[0]
            elif isinstance(e, ast.Call) and isinstance(e.func, ast.Attribute) and e.func.attr in SIZED_VIEWS and not e.args:
                e = e.func.value
            else:
                break
        return self.path(e)


def _cmp(op, a, b):
    if isinstance(op, ast.Eq):
        return a == b
    if isinstance(op, ast.NotEq):
        return a != b
    if isinstance(op, ast.Lt):
        return a < b
    if isinstance(op, ast.LtE):
        return a <= b
    if isinstance(op, ast.Gt):
        return a > b
    if isinstance(op, ast.GtE):
        return a >= b
    return None


# an abstract member count stands for a sample of concrete ones; "two or more" is sampled far enough that comparisons and
# +/- against the small constants accepted below (|c| <= SMALL, at most two arithmetic steps) are decided for ALL counts
SMALL = 3
SAMPLE = {0: frozenset({0}), 1: frozenset({1}), MANY: frozenset(range(2, 2 + 4 * SMALL))}


class Interp:
    """abstract interpretation of one function for ONE container `cid`"""

    def __init__(self, fn, paths: Paths, cid, writer_methods, synthetic=(), pure=()):
        self.fn = fn
        self.P = paths
        self.cid = cid
        self.writer_methods = writer_methods
        self.synth: dict = {}  # id(call) -> [(what, base, key)] mutations the call of a handle helper stands for
        for c, b, what, k in synthetic:
            self.synth.setdefault(id(c), []).append((what, b, k))
        self.pure = set(pure)  # names of helpers that reach the file only through the nodes they are handed
        self.g = CFG(fn.node)
        self.bad: dict = {}  # id(delete stmt) -> set of worlds that reach the container delete unproven
        self.seen_sites: set = set()

    # ------------------------------------------------------------------ values
    def count(self, e, world):
        """abstract member count denoted by `e` (len(<sized>) or a sized view itself), else None"""
        if isinstance(e, ast.Call) and isinstance(e.func, ast.Name) and e.func.id == "len" and len(e.args) == 1:
            if self.P.sized(e.args[0]) == self.cid:
                return world[0]
            return None
        if isinstance(e, ast.Call) and (
            (isinstance(e.func, ast.Name) and e.func.id in SIZED_WRAPS) or (isinstance(e.func, ast.Attribute) and e.func.attr in SIZED_VIEWS)
        ):
            # a list / view of the members is truthy exactly when there is a member (a bare h5py group is NOT: its truth is the validity of its id)
            if self.P.sized(e) == self.cid:
                return world[0]
        return None

    def value(self, e, world, loc, _depth=0):
        """('b', bool) | ('s', frozenset of the integers it may be) | None"""
        if isinstance(e, ast.Constant):
            if isinstance(e.value, bool):
                return ("b", e.value)
            if isinstance(e.value, int) and abs(e.value) <= SMALL:
                return ("s", frozenset({e.value}))
            return None
        if isinstance(e, ast.Name):
            return loc.get(e.id)
        n = self.count(e, world)
        if n is not None:
            return ("s", SAMPLE[n])
        if isinstance(e, ast.UnaryOp) and isinstance(e.op, ast.Not):
            t = self.truth(e.operand, world, loc)
            return None if t is None else ("b", not t)
        if isinstance(e, ast.BinOp) and isinstance(e.op, (ast.Add, ast.Sub)) and _depth < 2:
            va, vb = self.value(e.left, world, loc, _depth + 1), self.value(e.right, world, loc, _depth + 1)
            if va and vb and va[0] == vb[0] == "s" and (len(va[1]) == 1 or len(vb[1]) == 1):
                sign = 1 if isinstance(e.op, ast.Add) else -1
                return ("s", frozenset(x + sign * y for x in va[1] for y in vb[1]))
            return None
        if isinstance(e, ast.IfExp):
            t = self.truth(e.test, world, loc)
            if t is None:
                va, vb = self.value(e.body, world, loc, _depth), self.value(e.orelse, world, loc, _depth)
                return va if va == vb else None
            return self.value(e.body if t else e.orelse, world, loc, _depth)
        if isinstance(e, ast.Call) and isinstance(e.func, ast.Name) and e.func.id == "bool" and len(e.args) == 1:
            t = self.truth(e.args[0], world, loc)
            return None if t is None else ("b", t)
        if isinstance(e, ast.BoolOp):
            ts = [self.truth(v, world, loc) for v in e.values]
            if isinstance(e.op, ast.And):
                if any(t is False for t in ts):
                    return ("b", False)
                return ("b", True) if all(t is True for t in ts) else None
            if any(t is True for t in ts):
                return ("b", True)
            return ("b", False) if all(t is False for t in ts) else None
        if isinstance(e, ast.Compare) and len(e.ops) == 1:
            op, a, b = e.ops[0], e.left, e.comparators[0]
            if isinstance(op, (ast.In, ast.NotIn)):
                if self.P.is_target_key(a) and self.P.sized(b) == self.cid:
                    return ("b", world[1] == isinstance(op, ast.In))
                return None
            if isinstance(op, (ast.Is, ast.IsNot)) and isinstance(b, ast.Constant) and b.value is None:
                if isinstance(a, ast.Call) and isinstance(a.func, ast.Attribute) and a.func.attr == "get" and a.args \
                        and self.P.is_target_key(a.args[0]) and self.P.path(a.func.value) == self.cid:
                    return ("b", (not world[1]) == isinstance(op, ast.Is))
                return None
            va, vb = self.value(a, world, loc), self.value(b, world, loc)
            if not (va and vb and va[0] == vb[0] == "s" and (len(va[1]) == 1 or len(vb[1]) == 1)):
                return None
            got = {_cmp(op, x, y) for x in va[1] for y in vb[1]}
            return ("b", next(iter(got))) if len(got) == 1 and None not in got else None
        return None

    def truth(self, e, world, loc):
        v = self.value(e, world, loc)
        if v is None:
            return None
        if v[0] == "b":
            return v[1]
        got = {x != 0 for x in v[1]}
        return next(iter(got)) if len(got) == 1 else None

    # ------------------------------------------------------------------ effects
    def _after_delete_member(self, world, target):
        n, tin = world
        if target:
            if not tin:
                return []  # KeyError: no normal continuation
            return [(0, False)] if n == 1 else [(1, False), (MANY, False)]
        if n == 0:
            return []
        if n == 1:
            return [] if tin else [(0, False)]
        return [(1, tin), (MANY, tin)]

    def _after_create_member(self, world, target, require=False):
        n, tin = world
        if target:
            if tin:
                return [world] if require else []
            return [(min(n + 1, MANY), True)]
        out = [(min(n + 1, MANY), tin)]
        if require and n > 0:
            out.append(world)
        return out

    def effects(self, node, worlds, stmt):
        """worlds after the effects found in `node` (an expression or simple statement), in evaluation order"""
        worlds = set(worlds)
        for x in ordered(node):
            if isinstance(x, ast.Call) and isinstance(x.func, ast.Attribute):
                f = x.func
                recv = chain(f.value)
                if f.attr in CREATORS and recv not in (["cls"], ["H5Writer"]) and x.args:
                    base = self.P.path(f.value)
                    req = f.attr.startswith("require")
                    if base == self.cid:
                        tgt = self.P.is_target_key(x.args[0])
                        worlds = {w2 for w in worlds for w2 in self._after_create_member(w, tgt, req)}
                    elif self.P.path(x) == self.cid:
                        # the container itself: created fresh (it was absent = empty), or merely fetched
                        worlds = {w for w in worlds if w == (0, False)} if not req else worlds
                    continue
                if recv in (["cls"], ["H5Writer"]) and id(x) in self.synth:
                    # what the helper may do to the nodes it is handed (its own control flow is not known here: every effect MAY happen)
                    for what, b, k in self.synth[id(x)]:
                        if k is None:
                            continue
                        if what.startswith("del"):
                            if self.P.path(b) == self.cid:
                                tgt = self.P.is_target_key(k)
                                worlds = worlds | {w2 for w in worlds for w2 in self._after_delete_member(w, tgt)}
                            elif self.P.path(ast.Subscript(value=b, slice=k, ctx=ast.Load())) == self.cid:
                                self.seen_sites.add(id(x))
                                unproven = {w for w in worlds if not (w[0] == 0 or (w[0] == 1 and w[1]))}
                                if unproven:
                                    self.bad.setdefault(id(x), set()).update(unproven)
                                worlds = worlds | {(0, False)}
                        elif self.P.path(b) == self.cid:
                            tgt = self.P.is_target_key(k)
                            worlds = worlds | {w2 for w in worlds for w2 in self._after_create_member(w, tgt, True)}
                    if f.attr not in self.pure:
                        worlds = set(WORLDS)
                    continue
                if recv in (["cls"], ["H5Writer"]):
                    if f.attr == "create_dataset" and x.args and self.P.path(x.args[0]) == self.cid:
                        worlds = {w2 for w in worlds for w2 in self._after_create_member(w, False)}
                    elif f.attr in self.writer_methods and f.attr not in ("fetch_handle", "create_dataset"):
                        worlds = set(WORLDS)  # another writer function may add or drop members
                    continue
                if f.attr in ("copy", "move", "update", "clear", "pop", "popitem", "setdefault"):
                    if any(self._touches(a) for a in [f.value, *x.args]):
                        worlds = set(WORLDS)
                continue
            if isinstance(x, ast.Call) and isinstance(x.func, ast.Name) and x.func.id not in ("len", "isinstance", "getattr", "hasattr", "str", "as_str_if_uuid", "bool", *SIZED_WRAPS):
                if any(self._touches(a) for a in x.args):
                    worlds = set(WORLDS)  # a helper that is handed the container (or a node above it)
                continue
            if isinstance(x, ast.Delete):
                for t in x.targets:
                    if not isinstance(t, ast.Subscript):
                        continue
                    if self.P.path(t.value) == self.cid:
                        tgt = self.P.is_target_key(t.slice)
                        worlds = {w2 for w in worlds for w2 in self._after_delete_member(w, tgt)}
                    elif self.P.path(t) == self.cid:
                        self.seen_sites.add(id(x))
                        unproven = {w for w in worlds if not (w[0] == 0 or (w[0] == 1 and w[1]))}
                        if unproven:
                            self.bad.setdefault(id(x), set()).update(unproven)
                        worlds = {(0, False)} if worlds else set()
                continue
            if isinstance(x, ast.Assign):
                for t in x.targets:
                    if isinstance(t, ast.Subscript) and self.P.path(t.value) == self.cid:
                        tgt = self.P.is_target_key(t.slice)
                        worlds = {w2 for w in worlds for w2 in self._after_create_member(w, tgt)}
        return worlds

    def _touches(self, e) -> bool:
        """`e` is a handle on the container or on a node above it"""
        if isinstance(e, ast.Constant):
            return False
        p = self.P.path(e)
        if p is None:
            return False
        return p[0] == self.cid[0] and p[1] == self.cid[1][: len(p[1])]

    # ------------------------------------------------------------------ propagation
    @staticmethod
    def _stored_names(t):
        return {x.id for x in ast.walk(t) if isinstance(x, ast.Name) and isinstance(x.ctx, (ast.Store, ast.Del))}

    def run(self):
        g = self.g
        start = frozenset((w, frozenset()) for w in WORLDS)
        IN = {g.entry: start}
        work = [g.entry]
        while work:
            n = work.pop()
            outs = self.transfer(n, IN[n])
            for m, lab in n.succ:
                s = outs.get(lab, outs.get(None, frozenset()))
                if not s:
                    continue
                cur = IN.get(m, frozenset())
                if not s <= cur:
                    IN[m] = cur | s
                    work.append(m)
        return self.bad

    def transfer(self, node, states):
        a = node.ast
        if a is None or isinstance(a, list):
            return {None: states}
        if node.kind in ("test", "assert"):
            tru, fal, post = set(), set(), set()
            for w, loc in states:
                for w2 in self.effects(a, {w}, node.stmt):
                    st = (w2, loc)
                    post.add(st)
                    t = self.truth(a, w2, dict(loc))
                    if t is not False:
                        tru.add(st)
                    if t is not True:
                        fal.add(st)
            return {"true": frozenset(tru), "false": frozenset(fal), "exc": states | frozenset(post), None: frozenset(post)}
        if node.kind in ("stmt", "return", "with", "foriter", "raise"):
            post = set()
            for w, loc in states:
                for w2 in self.effects(a, {w}, node.stmt):
                    d = dict(loc)
                    if isinstance(a, (ast.Assign, ast.AnnAssign)) and getattr(a, "value", None) is not None:
                        tgs = a.targets if isinstance(a, ast.Assign) else [a.target]
                        v = self.value(a.value, w2, d) if len(tgs) == 1 and isinstance(tgs[0], ast.Name) else None
                        for t in tgs:
                            for nm in self._stored_names(t):
                                d.pop(nm, None)
                        if v is not None:
                            d[tgs[0].id] = v
                    elif isinstance(a, ast.stmt) or isinstance(a, ast.With):
                        for x in ast.walk(a):
                            if isinstance(x, ast.Name) and isinstance(x.ctx, (ast.Store, ast.Del)):
                                d.pop(x.id, None)
                    post.add((w2, frozenset(d.items())))
            return {"exc": states | frozenset(post), None: frozenset(post)}
        if node.kind in ("fornext", "except"):
            names = self._stored_names(a) if node.kind == "fornext" else ({a.name} if getattr(a, "name", None) else set())
            out = frozenset((w, frozenset((k, v) for k, v in loc if k not in names)) for w, loc in states)
            return {None: out}
        return {None: states}


def container_deletes(fn, who, allowed, synthetic=()):
    """[(delete stmt, base expr, key expr, who of base, cid | None, is_target_key)] for every `del <handle>[key]` on a parent's node;
    `synthetic`: (call node, base, what, key) deletions that a call of a handle helper stands for (see _c09_summary)"""
    target_uids = set(allowed) | {"param:uid"}
    P = Paths(fn, who, target_uids)
    out = []
    uid_keyed = set()
    for n in ast.walk(fn.node):
        if isinstance(n, ast.Subscript) and who.uid_expr(n.slice) is not None:
            uid_keyed.add(P.path(n.value))
        elif isinstance(n, ast.Compare) and len(n.ops) == 1 and isinstance(n.ops[0], (ast.In, ast.NotIn)) and who.uid_expr(n.left) is not None:
            uid_keyed.add(P.sized(n.comparators[0]))
    for _c, b, _what, k in synthetic:
        if k is not None and who.uid_expr(k) is not None:
            uid_keyed.add(P.path(b))
    uid_keyed.discard(None)
    dels = [(n, t) for n in ast.walk(fn.node) if isinstance(n, ast.Delete) for t in n.targets if isinstance(t, ast.Subscript)]
    dels += [(c, ast.Subscript(value=b, slice=k, ctx=ast.Del())) for c, b, what, k in synthetic if what.startswith("del") and k is not None]
    for n, t in dels:
        if True:
            w = who.who(t.value)
            if not parentish(w):
                continue
            s = P.seg(t.slice)
            if isinstance(s, tuple) and s[0] == "uid":
                out.append((n, t.value, t.slice, w, None, P.is_target_key(t.slice)))
            elif isinstance(s, frozenset):
                out.append((n, t.value, t.slice, w, P.path(t), False))
            elif isinstance(s, tuple) and P.path(t) in uid_keyed:
                # named by a string of the caller's, and used in this very function as a container of uid-keyed entries
                out.append((n, t.value, t.slice, w, P.path(t), False))
            else:
                out.append((n, t.value, t.slice, w, None, None))
    return P, out


def describe(cid) -> str:
    return "/".join("|".join(sorted(s)) if isinstance(s, frozenset) else "<" + s[1] + ">" if isinstance(s, tuple) else str(s) for s in cid[1])


__all__ = ["Interp", "Paths", "container_deletes", "describe", "parentish", "unparse"]
