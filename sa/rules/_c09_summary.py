"""Writer helpers that work on a HANDLE they are given (`H5Writer.unlink(container, uid_str)`,
`cls.link_entity_type(h5file, entity_handle, entity_type)`): what they do to the file is decided where they are CALLED.

For a writer function M the summary lists the HDF5 mutations M performs on nodes reached from its handle parameters, as
expressions over M's parameters (single-assignment locals expanded).  At a call `H5Writer.M(a, b, ..)` in another writer
function every summarised mutation is instantiated — parameters replaced by the actual arguments — and handed to the very same
checks as a mutation written in place (C09.PROV provenance of the handle and key, C09.PARENT entries of the parent's node).
Summaries are transitive (a helper calling a helper), two levels.
"""

from __future__ import annotations

import ast
import copy

from ..model import chain
from ..normalize import expanded, single_assignments


def root_name(e):
    while True:
        if isinstance(e, (ast.Subscript, ast.Attribute)):
            e = e.value
        elif isinstance(e, ast.Call) and isinstance(e.func, ast.Attribute) and chain(e.func.value) not in (["cls"], ["H5Writer"]):
            e = e.func.value
        else:
            break
    return e.id if isinstance(e, ast.Name) else None


def own_params(fn):
    return fn.params[1:] if fn.kind in ("classmethod", "method") else fn.params


def writer_callee(c, W):
    """FuncInfo of `cls.M(..)` / `H5Writer.M(..)`"""
    if isinstance(c, ast.Call) and isinstance(c.func, ast.Attribute) and chain(c.func.value) in (["cls"], ["H5Writer"]):
        return W.methods.get(c.func.attr)
    return None


def bind(callee, call):
    """parameter name -> actual argument expression (None when the call uses * / **)"""
    names = own_params(callee)
    out = {}
    for nm, a in zip(names, call.args):
        if isinstance(a, ast.Starred):
            return None
        out[nm] = a
    for k in call.keywords:
        if k.arg is None:
            return None
        out[k.arg] = k.value
    return out


def substitute(e, mapping):
    class R(ast.NodeTransformer):
        def visit_Name(self, n):
            if isinstance(n.ctx, ast.Load) and n.id in mapping:
                return ast.copy_location(copy.deepcopy(mapping[n.id]), n)
            return n

    return ast.fix_missing_locations(R().visit(copy.deepcopy(e)))


class Summaries:
    def __init__(self, ctx, W, Who, mutation_sites, handle_like):
        self.ctx = ctx
        self.W = W
        self.Who = Who
        self.mutation_sites = mutation_sites
        self.handle_like = handle_like  # (parameter name) -> bool : spelled like a file / target, never a handed-in node
        self._cache: dict = {}
        self.modelled = {"create_dataset"}  # cls.create_dataset(handle, ..) is a mutation site of its own in mutation_sites

    def of(self, m0, depth=0):
        """[(what, base expr, key expr|None, names of M's parameters the expressions read)] for writer function m0"""
        if m0.name in self._cache:
            return self._cache[m0.name]
        self._cache[m0.name] = []  # recursion guard
        fn = self.ctx.view(m0)
        who = self.Who(fn, self.ctx.p)
        params = set(own_params(fn))
        defs = single_assignments(fn.node)
        out = []
        sites = list(self.mutation_sites(fn))
        if depth < 2:
            sites += self.instantiate(fn, depth + 1)
        for node, base, what, key in sites:
            w = who.who(base)
            if not w or not all(x.startswith("param:") and x[6:] in who.handle_params for x in w):
                continue
            b = expanded(base, fn.node, defs)
            k = expanded(key, fn.node, defs) if key is not None else None
            free = {x.id for e in (b, k) if e is not None for x in ast.walk(e) if isinstance(x, ast.Name)}
            out.append((what, b, k, free & params))
        self._cache[m0.name] = out
        return out

    def pure(self, m0) -> bool:
        """a helper that reaches the file only through the nodes it is handed (no file, no entity to fetch a handle from)"""
        fn = self.ctx.view(m0)
        who = self.Who(fn, self.ctx.p)
        ps = own_params(fn)
        if any(self.handle_like(x) for x in ps):
            return False
        return bool(who.handle_params) and not any(writer_callee(c, self.W) is not None for c in ast.walk(fn.node))

    def instantiate(self, fn, depth=0):
        """mutation sites (call node, base, what, key) that the calls of summarised helpers in `fn` stand for"""
        out = []
        for c in ast.walk(fn.node):
            callee = writer_callee(c, self.W)
            if callee is None or callee.name == fn.name or callee.name in self.modelled:
                continue
            summ = self.of(callee, depth)
            if not summ:
                continue
            mapping = bind(callee, c)
            if mapping is None:
                continue
            for what, b, k, needs in summ:
                if not needs <= set(mapping):
                    continue
                out.append((c, substitute(b, mapping), f"{what} (in H5Writer.{callee.name})", substitute(k, mapping) if k is not None else None))
        return out
