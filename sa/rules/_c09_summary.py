"""Writer helpers that work on a HANDLE they are given (`H5Writer.unlink(container, uid_str)`,
`cls.link_entity_type(h5file, entity_handle, entity_type)`): what they do to the file is decided where they are CALLED.

For a writer function M the summary lists the HDF5 mutations M performs on nodes reached from its handle parameters, as
expressions over M's parameters (single-assignment locals expanded).  At a call `H5Writer.M(a, b, ..)` in another writer
function every summarised mutation is instantiated — parameters replaced by the actual arguments — and handed to the very same
checks as a mutation written in place (C09.PROV provenance of the handle and key, C09.PARENT entries of the parent's node).
Summaries are transitive (a helper calling a helper), two levels.
"""

from __future__ import annotations

import ast
import copy

from ..model import chain
from ..normalize import expanded, single_assignments


def root_name(e):
    while True:
        if isinstance(e, (ast.Subscript, ast.Attribute)):
            e = e.value
        elif isinstance(e, ast.Call) and isinstance(e.func, ast.Attribute) and chain(e.func.value) not in (["cls"], ["H5Writer"]):
            e = e.func.value
        else:
            break
    return e.id if isinstance(e, ast.Name) else None


def own_params(fn):
    return fn.params[1:] if fn.kind in ("classmethod", "method") else fn.params


def writer_callee(c, W):
    """FuncInfo of `cls.M(..)` / `H5Writer.M(..)`"""
    if isinstance(c, ast.Call) and isinstance(c.func, ast.Attribute) and chain(c.func.value) in (["cls"], ["H5Writer"]):
        return W.methods.get(c.func.attr)
    if isinstance(c, ast.Call) and isinstance(c.func, ast.Name) and W.module is not None and c.func.id not in W.methods:
        return W.module.functions.get(c.func.id)  # a function of the writer's own module
    return None


def method_refs(e, W, fn_node, _seen=()):
    """writer functions an expression may denote: `cls.write_x`, a table of them, a look-up in such a table, a local bound to one"""
    if isinstance(e, ast.Attribute) and chain(e.value) in (["cls"], ["H5Writer"]):
        m = W.methods.get(e.attr)
        return [m] if m is not None else []
    if isinstance(e, ast.Dict):
        return [m for v in e.values for m in method_refs(v, W, fn_node, _seen)]
    if isinstance(e, (ast.Tuple, ast.List)):
        return [m for v in e.elts for m in method_refs(v, W, fn_node, _seen)]
    if isinstance(e, ast.IfExp):
        return method_refs(e.body, W, fn_node, _seen) + method_refs(e.orelse, W, fn_node, _seen)
    if isinstance(e, ast.BoolOp):
        return [m for v in e.values for m in method_refs(v, W, fn_node, _seen)]
    if isinstance(e, ast.Subscript):
        return method_refs(e.value, W, fn_node, _seen)
    if isinstance(e, ast.Call) and isinstance(e.func, ast.Attribute) and e.func.attr == "get":
        return method_refs(e.func.value, W, fn_node, _seen) + [m for a in e.args[1:] for m in method_refs(a, W, fn_node, _seen)]
    if isinstance(e, ast.Name) and e.id not in _seen and fn_node is not None:
        out = []
        for n in ast.walk(fn_node):
            if isinstance(n, (ast.Assign, ast.AnnAssign)) and n.value is not None:
                for t in (n.targets if isinstance(n, ast.Assign) else [n.target]):
                    if isinstance(t, ast.Name) and t.id == e.id:
                        out += method_refs(n.value, W, fn_node, _seen + (e.id,))
            elif isinstance(n, (ast.For, ast.comprehension)) and any(isinstance(x, ast.Name) and x.id == e.id for x in ast.walk(n.target)):
                out += method_refs(n.iter, W, fn_node, _seen + (e.id,))
        return out
    return []


def writer_callees(c, W, fn_node=None):
    """the writer functions a call may reach: `cls.M(..)` / `H5Writer.M(..)`, or a function value picked from a table of them"""
    if not isinstance(c, ast.Call):
        return []
    m = writer_callee(c, W)
    if m is not None:
        return [m]
    if isinstance(c.func, ast.Attribute) and isinstance(c.func.value, ast.Name) and c.func.value.id in ("cls", "H5Writer"):
        return []
    seen, out = set(), []
    for m in method_refs(c.func, W, fn_node):
        if m.name not in seen:
            seen.add(m.name)
            out.append(m)
    return out


def bind(callee, call):
    """parameter name -> actual argument expression, for the parameters that can be told: positional arguments up to the first
    `*args`, named keywords (`**kwargs` passes options on: it names no parameter that can be followed).  The caller checks that
    every parameter a summarised mutation reads IS bound."""
    names = own_params(callee)
    out = {}
    for nm, a in zip(names, call.args):
        if isinstance(a, ast.Starred):
            break
        out[nm] = a
    for k in call.keywords:
        if k.arg is not None:
            out[k.arg] = k.value
    return out


def substitute(e, mapping):
    class R(ast.NodeTransformer):
        def visit_Name(self, n):
            if isinstance(n.ctx, ast.Load) and n.id in mapping:
                return ast.copy_location(copy.deepcopy(mapping[n.id]), n)
            return n

    return ast.fix_missing_locations(R().visit(copy.deepcopy(e)))


class Summaries:
    def __init__(self, ctx, W, Who, mutation_sites, handle_like):
        self.ctx = ctx
        self.W = W
        self.Who = Who
        self.mutation_sites = mutation_sites
        self.handle_like = handle_like  # (parameter name) -> bool : spelled like a file / target, never a handed-in node
        self._cache: dict = {}
        self.modelled = {"create_dataset"}  # cls.create_dataset(handle, ..) is a mutation site of its own in mutation_sites

    def of(self, m0, depth=0):
        """[(what, base expr, key expr|None, names of M's parameters the expressions read)] for writer function m0"""
        if m0.name in self._cache:
            return self._cache[m0.name]
        self._cache[m0.name] = []  # recursion guard
        fn = self.ctx.view(m0)
        who = self.Who(fn, self.ctx.p)
        params = set(own_params(fn))
        defs = single_assignments(fn.node)
        out = []
        sites = list(self.mutation_sites(fn))
        if depth < 2:
            sites += self.instantiate(fn, depth + 1)
        for node, base, what, key in sites:
            w = who.who(base)
            if not w or not all(x.startswith("param:") and x[6:] in who.handle_params for x in w):
                continue
            b = expanded(base, fn.node, defs)
            k = expanded(key, fn.node, defs) if key is not None else None
            free = {x.id for e in (b, k) if e is not None for x in ast.walk(e) if isinstance(x, ast.Name)}
            out.append((what, b, k, free & params))
        self._cache[m0.name] = out
        return out

    def pure(self, m0) -> bool:
        """a helper that reaches the file only through the nodes it is handed (no file, no entity to fetch a handle from)"""
        fn = self.ctx.view(m0)
        who = self.Who(fn, self.ctx.p)
        ps = own_params(fn)
        if any(self.handle_like(x) for x in ps):
            return False
        return bool(who.handle_params) and not any(writer_callees(c, self.W, fn.node) for c in ast.walk(fn.node))

    def instantiate(self, fn, depth=0):
        """mutation sites (call node, base, what, key) that the calls of summarised helpers in `fn` stand for"""
        out = []
        for c, callee in [(c, m) for c in ast.walk(fn.node) for m in writer_callees(c, self.W, fn.node)]:
            if callee.name == fn.name or callee.name in self.modelled:
                continue
            summ = self.of(callee, depth)
            if not summ:
                continue
            mapping = bind(callee, c)
            if mapping is None:
                continue
            for what, b, k, needs in summ:
                if not needs <= set(mapping):
                    continue
                out.append((c, substitute(b, mapping), f"{what} (in {callee.name})", substitute(k, mapping) if k is not None else None))
        return out
