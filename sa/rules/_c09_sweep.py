"""C09.GIVEN and C09.TYPESWEEP — the Workspace-side requests that end in a writer call on SOMEBODY ELSE'S stored node.

C09.GIVEN      a container hands ITSELF to the workspace as the parent to act on (`self.workspace.<m>(self, children)`): every
               writer call the workspace method makes for a child is relative to that parent — the call receives it, or a test
               that reads it decides the call.  Otherwise a child that is stored under ANOTHER parent is rewritten by a request
               made to this one.
C09.TYPESWEEP  type nodes are shared: several stored entities point to one.  Wherever the container name 'Types' can reach the
               writer's node removal, the removal is decided by a test on the identifier that is removed (some evidence about
               THAT type: still referenced from the file or not) — the death of a weak reference says nothing about the entities
               that were never loaded.
"""

from __future__ import annotations

import ast

from ..cfg import CFG
from ..kinds import reach, tv
from ..model import AnalysisError, chain, unparse
from ..normalize import expanded, single_assignments
from ..report import RuleResult
from ..roles import const_values

SHARED = "Types"


# ------------------------------------------------------------------------------------------------------------ common
def writer_call(c):
    """(writer function name, argument list after the file, keywords) of `X._io_call(H5Writer.f, a, ..)` / `H5Writer.f(file, a, ..)`"""
    f = c.func
    if isinstance(f, ast.Attribute) and f.attr == "_io_call" and c.args:
        t = chain(c.args[0])
        if t and len(t) == 2 and t[0] == "H5Writer":
            return t[1], list(c.args[1:]), list(c.keywords)
    if isinstance(f, ast.Attribute) and chain(f.value) == ["H5Writer"] and c.args:
        return f.attr, list(c.args[1:]), list(c.keywords)
    return None


def site_of(g, call):
    for n in g.nodes:
        if n.ast is not None and not isinstance(n.ast, list) and n.kind != "with" and any(x is call for x in ast.walk(n.ast)):
            return n
    return None


def deciding_tests(g, site, var=None, facts=None):
    """test nodes that lie on every (feasible) path from the entry to `site` and of which exactly one outcome can lead to it"""
    feasible = reach(g, [g.entry], var, facts)
    if site not in feasible:
        return None
    out = []
    for t in g.nodes:
        if t.kind != "test" or t not in feasible or t is site:
            continue
        if var is not None and tv(t.ast, var, facts or {}) is not None:
            continue  # settled by the value assumed for the parameter: it decides nothing here
        if site in reach(g, [g.entry], var, facts, avoid=lambda n, t=t: n is t):
            continue  # a path goes round it
        lead = [lab for m, lab in t.succ if lab in ("true", "false") and site in reach(g, [m], var, facts, avoid=lambda n, t=t: n is t)]
        if len(lead) == 1:
            out.append(t)
    return out


def residual(e, var, facts):
    """what is left of a test once the facts have settled what they can: True / False, or the expression still to be evaluated
    (`rtype == "PropertyGroups" or (keep is not None and key in keep)` under rtype = 'Types', keep = None  ->  False)"""
    v = tv(e, var, facts)
    if v is not None:
        return v
    if isinstance(e, ast.UnaryOp) and isinstance(e.op, ast.Not):
        r = residual(e.operand, var, facts)
        return (not r) if isinstance(r, bool) else ast.UnaryOp(op=ast.Not(), operand=r)
    if isinstance(e, ast.BoolOp):
        is_and = isinstance(e.op, ast.And)
        parts = []
        for x in e.values:
            r = residual(x, var, facts)
            if isinstance(r, bool):
                if r != is_and:
                    return r  # False in a conjunction / True in a disjunction settles it
                continue
            parts.append(r)
        if not parts:
            return is_and
        return parts[0] if len(parts) == 1 else ast.BoolOp(op=e.op, values=parts)
    return e


def actual_or_default(f0, cc, prm):
    """the expression a call binds to parameter `prm` of f0: the argument, else the default of the signature; None when neither"""
    off = 1 if f0.kind in ("method", "classmethod") else 0
    slot = f0.params.index(prm) - off
    for k in cc.keywords:
        if k.arg == prm:
            return k.value
    if 0 <= slot < len(cc.args) and not any(isinstance(a, ast.Starred) for a in cc.args[: slot + 1]):
        return cc.args[slot]
    if any(isinstance(a, ast.Starred) for a in cc.args) or any(k.arg is None for k in cc.keywords):
        return None
    a = f0.node.args
    pos = a.posonlyargs + a.args
    d = dict(zip([x.arg for x in pos][::-1], a.defaults[::-1]))
    d.update({x.arg: v for x, v in zip(a.kwonlyargs, a.kw_defaults) if v is not None})
    return d.get(prm)


def names_in(e, fn_node, defs) -> set:
    return {x.id for x in ast.walk(expanded(e, fn_node, defs)) if isinstance(x, ast.Name)}


# ------------------------------------------------------------------------------------------------------------ C09.GIVEN
def rule_given(ctx) -> RuleResult:
    res = RuleResult(
        "C09.GIVEN",
        "C09",
        "a Workspace method that a container calls with ITSELF as the parent to act on (`self.workspace.<m>(self, children)`) makes "
        "every writer call relative to that parent: the call receives the given parent, or it is decided by a test that reads it "
        "(a child stored under another parent is not touched by a request made to this one)",
        floor=2,
    )
    p = ctx.p
    ws = p.cls("Workspace")
    base = p.cls("EntityContainer")
    given: dict = {}  # workspace method name -> {index of the parameter that receives the container}
    for K in [base, *p.subclasses(base)]:
        for fn in K.methods.values():
            if not fn.params:
                continue
            me = fn.params[0]
            defs = single_assignments(fn.node)
            for c in ast.walk(fn.node):
                if not (isinstance(c, ast.Call) and isinstance(c.func, ast.Attribute) and c.func.attr in ws.methods):
                    continue
                recv = chain(expanded(c.func.value, fn.node, defs))
                if not recv or recv[-1] != "workspace" or recv[0] != me:
                    continue
                for i, a in enumerate(c.args):
                    if isinstance(a, ast.Name) and a.id == me:
                        given.setdefault(c.func.attr, set()).add(i)
    if not given:
        raise AnalysisError("C09.GIVEN: no container method hands itself to a Workspace method")
    n_calls = 0
    for mname in sorted(given):
        m0 = ws.methods[mname]
        fn = ctx.view(m0)
        defs = single_assignments(fn.node)
        g = CFG(fn.node)
        off = 1 if fn.kind in ("method", "classmethod") else 0
        for idx in sorted(given[mname]):
            if idx + off >= len(fn.params):
                continue
            prm = fn.params[idx + off]
            for c in [x for x in ast.walk(fn.node) if isinstance(x, ast.Call)]:
                wc = writer_call(c)
                if wc is None:
                    continue
                wname, args, kws = wc
                n_calls += 1
                where = f"{fn.module.relpath}:{c.lineno}"
                passed = any(prm in names_in(a, fn.node, defs) for a in args + [k.value for k in kws])
                how = "receives it"
                ok = passed
                if not ok:
                    site = site_of(g, c)
                    if site is None:
                        raise AnalysisError(f"C09.GIVEN: writer call at {where} not found in the flow graph of Workspace.{mname}")
                    tests = deciding_tests(g, site) or []
                    ok = any(prm in names_in(t.ast, fn.node, defs) for t in tests)
                    how = "decided by a test on it" if ok else "neither receives it nor is decided by a test on it"
                res.inst(f"Workspace.{mname}:{c.lineno} H5Writer.{wname} — the container that handed itself over ({idx + 1}. parameter): {how}", nontrivial=True, ok=ok)
                if not ok:
                    res.find("Workspace", mname, f"writer call {wname} neither receives nor is decided by the parent the container gave", where,
                             f"Workspace.{mname} is asked by a container to act on ITS children, but H5Writer.{wname} is called for a child whatever "
                             "its parent is: a child stored under another parent is rewritten / removed by a request made to this one")
    if n_calls < 2:
        raise AnalysisError(f"C09.GIVEN: only {n_calls} writer calls found in the Workspace methods containers hand themselves to")
    return res


# ------------------------------------------------------------------------------------------------------------ C09.TYPESWEEP
def _removal(c):
    """(identifier argument, container argument) of a call that removes a node through H5Writer.remove_entity"""
    wc = writer_call(c)
    if wc is None or wc[0] != "remove_entity" or len(wc[1]) < 2:
        return None
    return wc[1][0], wc[1][1]


def _returned_constants(p, fn, e):
    """constants `self.f(..)` / `cls.f(..)` / `f(..)` can return when every return of f is a constant; None when it cannot be told"""
    if isinstance(e, ast.Name):
        e = single_assignments(fn.node).get(e.id, e)
    if not isinstance(e, ast.Call):
        return None
    f, target = e.func, None
    if isinstance(f, ast.Attribute) and isinstance(f.value, ast.Name) and fn.cls is not None:
        owner = fn.cls if f.value.id in ("self", "cls", fn.params[0] if fn.params else "self") else None
        if owner is None:
            r = p.resolve_name(fn.module, f.value.id)
            owner = r[1] if r and r[0] == "class" else None
        m = owner.lookup(f.attr) if owner is not None else None
        if m and m[1] == "method":
            target = m[2]
    elif isinstance(f, ast.Name):
        r = p.resolve_name(fn.module, f.id)
        if r and r[0] == "func":
            target = r[1]
    if target is None:
        return None
    out = set()
    for r in ast.walk(target.node):
        if isinstance(r, ast.Return) and r.value is not None:
            vs = const_values(r.value, target.node)
            if vs is None:
                return None
            out |= {v for v in vs if v is not None}
    return out or None


def _filter_evidence(fn_node, call, key_names, defs) -> bool:
    """the loop that makes the call iterates a collection that was FILTERED on its elements by a membership test"""
    loops = [lp for lp in ast.walk(fn_node) if isinstance(lp, ast.For) and any(x is call for b in lp.body for x in ast.walk(b))
             and key_names & {x.id for x in ast.walk(lp.target) if isinstance(x, ast.Name)}]
    for lp in loops:
        its = [expanded(lp.iter, fn_node, defs)]
        if isinstance(its[0], ast.Name):
            # a collection bound on several paths (the plain one, and the filtered one for the shared container)
            its = [expanded(a.value, fn_node, defs) for a in ast.walk(fn_node)
                   if isinstance(a, ast.Assign) and any(isinstance(t, ast.Name) and t.id == its[0].id for t in a.targets)]
        for comp in [c for it in its for c in ast.walk(it)]:
            if isinstance(comp, (ast.ListComp, ast.SetComp, ast.GeneratorExp, ast.DictComp)):
                for gen in comp.generators:
                    tv = {x.id for x in ast.walk(gen.target) if isinstance(x, ast.Name)}
                    for cond in gen.ifs:
                        for cmp_ in ast.walk(cond):
                            if isinstance(cmp_, ast.Compare) and any(isinstance(o, (ast.In, ast.NotIn)) for o in cmp_.ops) \
                                    and tv & {x.id for x in ast.walk(cmp_.left) if isinstance(x, ast.Name)}:
                                return True
    return False


def rule_typesweep(ctx) -> RuleResult:
    res = RuleResult(
        "C09.TYPESWEEP",
        "C09",
        "type nodes are shared by the stored entities that point to them: wherever the container 'Types' can reach the writer's node "
        "removal (a constant at the call, or a value some caller passes for the parameter it is taken from, on a path the tests on "
        "that parameter leave open), the removal is decided by a test on the identifier being removed — evidence about THAT type, "
        "in the function that makes the call or in a caller that hands the identifier down; a dead weak reference alone says "
        "nothing about entities that were never loaded",
        floor=2,
    )
    p = ctx.p
    W = p.cls("H5Writer")
    funcs = [f for f in p.all_functions() if f.cls is None or f.cls is not W]
    graphs: dict = {}
    from ._c09_consts import Consts

    consts = Consts(p, ctx.view)

    def call_sites(f0):
        """calls of f0 by name in the other functions: (caller, call)"""
        out = []
        for caller in funcs:
            for cc in ast.walk(caller.node):
                if isinstance(cc, ast.Call) and ((isinstance(cc.func, ast.Attribute) and cc.func.attr == f0.name) or (isinstance(cc.func, ast.Name) and cc.func.id == f0.name)):
                    out.append((caller, cc))
        return out

    def passed(f0, cc, prm):
        slot = f0.params.index(prm) - (1 if f0.kind in ("method", "classmethod") else 0)
        return next((k.value for k in cc.keywords if k.arg == prm), cc.args[slot] if 0 <= slot < len(cc.args) else None)

    def trace(f0, call, key, arg, depth):
        """[(status, function, where, note)], status: 'no' ('Types' does not get here) | 'ok' (decided by a test on the identifier) | 'bad'"""
        if depth > 4:
            raise AnalysisError(f"C09.TYPESWEEP: container of the removal forwarded through more than 4 functions ({f0.qualname})")
        node = f0.node
        where = f"{f0.module.relpath}:{call.lineno}"
        g = graphs.setdefault(id(node), CFG(node))
        site = site_of(g, call)
        if site is None:
            raise AnalysisError(f"C09.TYPESWEEP: call at {where} not found in the flow graph of {f0.qualname}")
        defs = single_assignments(node)
        me = {f0.params[0]} if f0.kind in ("method", "classmethod") and f0.params else set()
        vals = {arg.value} if isinstance(arg, ast.Constant) else const_values(arg, node)
        if vals is None:
            vals = _returned_constants(p, f0, arg)
        if vals is None:
            vals = consts.strs(arg, f0) or None  # a helper scanning a module table, tables put together, ...
        q = None
        if vals is None:
            a = expanded(arg, node, defs)
            if not (isinstance(a, ast.Name) and a.id in f0.params):
                raise AnalysisError(f"C09.TYPESWEEP: container argument {unparse(arg)[:40]} at {where} is neither a constant nor a parameter")
            q = a.id
        elif SHARED not in vals:
            return [("no", f0, where, f"removes from {sorted(map(str, vals))}: no shared node")]
        qfacts = {"const:" + q: SHARED} if q else None
        if q:
            # loop-invariant tests on the container read once into a flag (`may_be_used = rtype == "Types"`): the flag is as settled
            # as the test it stands for
            for _ in range(2):
                for nm, val in defs.items():
                    v = tv(val, q, qfacts)
                    if v is not None:
                        qfacts["truthy:" + nm] = v
        tests = deciding_tests(g, site, q, qfacts)
        if tests is None:
            return [("no", f0, where, f"'{SHARED}' is kept away from the removal by the tests on the container")]
        key_param = None
        if key is not None:
            key_names = ({x.id for x in ast.walk(key) if isinstance(x, ast.Name)} | names_in(key, node, defs)) - me
            ev = [t for t in tests if key_names & names_in(t.ast, node, defs)]
            if ev:
                # the test may consult the identifier only when ANOTHER parameter allows it (`keep is not None and key in keep`):
                # then it is evidence only for the callers whose argument (or the default they leave) keeps that part alive
                own = set(f0.params) - me - {q} - key_names
                gate = {r for t in ev for r in names_in(t.ast, node, defs) & own}
                if not gate:
                    return [("ok", f0, where, f"'{SHARED}' reaches the removal: decided by a test on the identifier (line {ev[0].lineno})")]
                out, base = [], dict(qfacts) if q else {}
                for caller, cc in call_sites(f0):
                    a2 = passed(f0, cc, q) if q else ast.Constant(SHARED)
                    if a2 is None or (q and caller.node is node and isinstance(a2, ast.Name) and a2.id == q):
                        continue
                    if all(st == "no" for st, *_ in trace(caller, cc, None, a2, depth + 1)):
                        continue  # this caller never has 'Types' here
                    facts = dict(base)
                    rebound = {x.id for x in ast.walk(node) if isinstance(x, ast.Name) and isinstance(x.ctx, (ast.Store, ast.Del))}
                    for r in gate - rebound:  # (a parameter the function re-binds, `if keep is None: keep = ...`, is not what the caller passed)
                        v = actual_or_default(f0, cc, r)
                        if isinstance(v, ast.Constant) and v.value is None:
                            facts["notnone:" + r] = False
                            facts["truthy:" + r] = False
                        elif isinstance(v, ast.Constant) and isinstance(v.value, bool):
                            facts["truthy:" + r] = v.value
                    live = [t for t in ev if not isinstance(rs := residual(expanded(t.ast, node, defs), q, facts), bool)
                            and key_names & {x.id for x in ast.walk(rs) if isinstance(x, ast.Name)}]
                    cwhere = f"{caller.module.relpath}:{cc.lineno}"
                    if live:
                        out.append(("ok", f0, where, f"'{SHARED}' reaches the removal from {caller.qualname}: decided by a test on the identifier (line {live[0].lineno}) that its arguments keep alive"))
                    else:
                        out.append(("bad", f0, where, f"'{SHARED}' reaches the removal from {caller.qualname} ({cwhere}): what it passes for {sorted(gate)} switches the test on the identifier off"))
                if out:
                    return out
                return [("ok", f0, where, f"'{SHARED}' reaches the removal: decided by a test on the identifier (line {ev[0].lineno})")]
            if _filter_evidence(node, call, key_names, defs):
                return [("ok", f0, where, f"'{SHARED}' reaches the removal: the identifiers were filtered by a membership test")]
            k = expanded(key, node, defs)
            if isinstance(k, ast.Name) and k.id in f0.params and k.id not in me:
                key_param = k.id
        if q is None and key_param is None:
            return [("bad", f0, where, f"'{SHARED}' reaches the removal: no test on the identifier decides it")]
        out = []
        found = False
        for caller, cc in call_sites(f0):
            a2 = passed(f0, cc, q) if q else ast.Constant(SHARED)
            if a2 is None:
                continue
            if q and caller.node is node and isinstance(a2, ast.Name) and a2.id == q:
                continue  # recursion handing the parameter on
            found = True
            out += trace(caller, cc, passed(f0, cc, key_param) if key_param else None, a2, depth + 1)
        if not found:
            if q:
                raise AnalysisError(f"C09.TYPESWEEP: no caller of {f0.qualname} found for its container parameter {q}")
            return [("bad", f0, where, f"'{SHARED}' reaches the removal: no test on the identifier decides it")]
        if key_param is None:
            # the identifier is made here: no caller can have tested it
            if any(st != "no" for st, *_ in out):
                return [("bad", f0, where, f"'{SHARED}' reaches the removal (from {', '.join(sorted({x[1].qualname for x in out if x[0] != 'no'}))}): no test on the identifier decides it")]
            return [("no", f0, where, f"no caller passes '{SHARED}' on an open path")]
        return out

    n_sites = 0
    for fn0 in funcs:
        for c in [x for x in ast.walk(fn0.node) if isinstance(x, ast.Call)]:
            rm = _removal(c)
            if rm is None:
                continue
            n_sites += 1
            for st, f, where, note in trace(fn0, c, rm[0], rm[1], 0):
                owner = f.cls.name if f.cls else f.module.short
                res.inst(f"{owner}.{f.name}:{where.rsplit(':', 1)[1]} {note}", nontrivial=st != "no" or f is not fn0, ok=st != "bad")
                if st == "bad":
                    res.find(owner, f.name, f"'{SHARED}' reaches the writer's node removal and no test on the removed identifier decides it", where,
                             f"{owner}.{f.name} deletes type nodes from the file on the sole evidence its other tests give (a dead weak reference): "
                             "a type whose users were never loaded in this session (concatenated data, copies made in the file) is deleted "
                             "although stored entities still point to it")
    if n_sites < 1:
        raise AnalysisError("C09.TYPESWEEP: no call of H5Writer.remove_entity found outside the writer")
    return res
