"""Helpers of the C10 rules that decide by meaning instead of spelling.

* `Paths`      — path-sensitive reachability on the CFG of a (normalised) function under an assumption such as
                 "the handle's mode is 'r' and the requested mode is 'r+'": conditions are evaluated three-valued
                 (locals bound once are replaced by their definition, helper results are followed flow-sensitively),
                 so a guard may be written merged, split into guard clauses, negated (De Morgan), moved into a helper,
                 or use a hoisted table of modes.
* `entry_roots`— the members through which a private helper can be entered (its transitive callers), so that a site
                 that is allowed in a gateway member stays allowed when it is moved into a private helper of that member.
* `callee_of`  — resolution of a call to a private helper (also the ones the normaliser cannot expand in place).
* `mode_sources` — where the value of a mode expression can come from (constants, the function's own argument,
                 `self._mode`), through locals, conditional expressions, `or`-defaults and helper parameters.
"""

from __future__ import annotations

import ast

from ..cfg import CFG
from ..model import unparse
from ..normalize import expanded, single_assignments


# ---------------------------------------------------------------------------------------------- three-valued evaluation
class _U:
    def __init__(self, name):
        self.name = name

    def __repr__(self):  # pragma: no cover
        return self.name


UNKNOWN = _U("UNKNOWN")
TRUTHY = _U("TRUTHY")  # value unknown, truthiness known
FALSY = _U("FALSY")


def truth(v):
    if v is UNKNOWN:
        return None
    if v is TRUTHY:
        return True
    if v is FALSY:
        return False
    if isinstance(v, list):
        return bool(v)
    return bool(v)


def _concrete(v) -> bool:
    return not isinstance(v, _U)


def _from_truth(t):
    return UNKNOWN if t is None else (TRUTHY if t else FALSY)


class Paths:
    """Reachability on the CFG of `fn` (a FuncInfo, normally a normalised view) under assumptions.

    `texts`: {expression text (after alias expansion): value} e.g. {"self.geoh5.mode": "r"}
    `names`: {parameter name: value} — ignored (unknown) when the name is re-bound in the function.
    `hook`:  callable(expression, paths) -> value | None, asked first for calls / comparisons (facts such as
             "isinstance(<the handle>, <h5py.File>) holds")."""

    def __init__(self, fn, texts=None, names=None, project=None, hook=None):
        self.fn = fn
        self.p = project
        self.hook = hook
        self.node = fn.node
        self.g = CFG(fn.node)
        self.texts = dict(texts or {})
        self.defs = single_assignments(fn.node)
        stored = {x.id for x in ast.walk(fn.node) if isinstance(x, ast.Name) and isinstance(x.ctx, (ast.Store, ast.Del))}
        a = fn.node.args
        self.bound = stored | {x.arg for x in a.posonlyargs + a.args + a.kwonlyargs} | ({a.vararg.arg} if a.vararg else set()) | ({a.kwarg.arg} if a.kwarg else set())
        self.names = {k: v for k, v in (names or {}).items() if k not in stored}
        self._reach = None

    # -------------------------------------------------------------------------------------------- evaluation
    def text(self, e) -> str:
        return unparse(expanded(e, self.node, self.defs))

    def value(self, e, env=None, _depth=0):
        env = env or {}
        if _depth > 12:
            return UNKNOWN
        V = lambda x: self.value(x, env, _depth + 1)  # noqa: E731
        if isinstance(e, ast.Constant):
            return e.value
        if isinstance(e, (ast.List, ast.Tuple, ast.Set)):
            return [V(x) for x in e.elts]
        if isinstance(e, ast.Dict):
            if any(k is None for k in e.keys):
                return UNKNOWN
            return [V(k) for k in e.keys]  # membership / truthiness only
        if isinstance(e, ast.Name):
            if e.id in env:
                return env[e.id]
            if e.id in self.names:
                return self.names[e.id]
            if e.id in self.defs:
                # expanded out of its flow context: only facts that hold everywhere may be used
                return self.value(self.defs[e.id], {}, _depth + 1)
            if e.id not in self.bound:
                return self._hoisted(e, env, _depth)
            return UNKNOWN
        if isinstance(e, ast.UnaryOp) and isinstance(e.op, ast.Not):
            t = truth(V(e.operand))
            return UNKNOWN if t is None else (not t)
        if isinstance(e, ast.BoolOp):
            ts = [truth(V(x)) for x in e.values]
            if isinstance(e.op, ast.And):
                if any(t is False for t in ts):
                    return FALSY
                return TRUTHY if all(t is True for t in ts) else UNKNOWN
            if any(t is True for t in ts):
                return TRUTHY
            return FALSY if all(t is False for t in ts) else UNKNOWN
        if isinstance(e, ast.IfExp):
            t = truth(V(e.test))
            if t is True:
                return V(e.body)
            if t is False:
                return V(e.orelse)
            return UNKNOWN
        if self.hook is not None and isinstance(e, (ast.Compare, ast.Call)):
            h = self.hook(e, self)
            if h is not None:
                return h
        if isinstance(e, ast.Call) and isinstance(e.func, ast.Name) and e.func.id == "bool" and "bool" not in self.bound and len(e.args) == 1 and not e.keywords:
            return _from_truth(truth(V(e.args[0])))
        if isinstance(e, ast.Compare):
            left = V(e.left)
            res = True
            for op, right_e in zip(e.ops, e.comparators):
                right = V(right_e)
                r = self._compare(op, left, right)
                if r is False:
                    return False
                if r is None:
                    res = None
                left = right
            return UNKNOWN if res is None else True
        if isinstance(e, (ast.Attribute, ast.Subscript, ast.Call)):
            txt = self.text(e)
            if txt in self.texts:
                return self.texts[txt]
            if isinstance(e, ast.Call) and self.p is not None:
                r = self._helper_result(e, env, _depth)
                if r is not UNKNOWN:
                    return r
            if isinstance(e, ast.Call) and isinstance(e.func, ast.Name) and e.func.id in ("frozenset", "set", "tuple", "list") and e.func.id not in self.bound \
                    and len(e.args) == 1 and not e.keywords:
                return V(e.args[0])  # membership / truthiness only
            if isinstance(e, ast.Attribute):
                h = self._hoisted(e, env, _depth)
                if h is not UNKNOWN:
                    return h
            # an attribute of self stored earlier on this path (`self._was = self.geoh5.mode`), see _transfer
            if isinstance(e, ast.Attribute) and isinstance(e.value, ast.Name) and e.value.id == self.fn.self_name and ("." + e.attr) in env:
                return env["." + e.attr]
            return UNKNOWN
        return UNKNOWN

    def _helper_result(self, e, env, _depth):
        """Value (or truthiness) returned by a call to a private helper that the normaliser left in place (e.g. the later
        operand of an `and`): the helper is explored under the same assumptions; every value it can return must agree."""
        if getattr(self, "_nesting", 0) >= 3:
            return UNKNOWN
        fn, p = self.fn, self.p
        t = callee_of(p, fn, e)
        if t is None or t.node is fn.node or t.node.args.vararg or t.node.args.kwarg:
            return UNKNOWN
        if any(isinstance(x, (ast.Yield, ast.YieldFrom, ast.Lambda, ast.FunctionDef, ast.Global, ast.Nonlocal)) for s in t.node.body for x in ast.walk(s)):
            return UNKNOWN
        if t.node.decorator_list and any(unparse(d) not in ("staticmethod", "classmethod") for d in t.node.decorator_list):
            return UNKNOWN
        texts = self.texts
        if t.cls is not None and t.kind == "method":
            # the same object on both sides: facts about self carry over (re-spelled when the receiver is named differently)
            if not (isinstance(e.func, ast.Attribute) and isinstance(e.func.value, ast.Name) and e.func.value.id == fn.self_name and fn.self_name):
                return UNKNOWN
            if t.cls is not fn.cls and (fn.cls is None or t.cls not in fn.cls.mro):
                return UNKNOWN
            if t.self_name != fn.self_name:
                texts = {}
                for k, v in self.texts.items():
                    texts[(t.self_name + k[len(fn.self_name):]) if k.startswith(fn.self_name + ".") else k] = v
        elif t.cls is not None:
            texts = {}
        init = {}
        for prm, arg in bind_args(fn, e, t).items():
            v = self.value(arg, env, _depth + 1)
            if v is not UNKNOWN and not isinstance(v, list):
                init[prm] = v
        sub = Paths(t, texts=texts, project=p, hook=self.hook)
        sub._nesting = getattr(self, "_nesting", 0) + 1
        got = []

        def observe(n, env2):
            if n.kind == "return":
                got.append(None if n.ast is None else sub.value(n.ast, env2))

        reach = sub.reachable(init_env=init, observe=observe)
        if any(m in reach and m.kind != "return" for m, _ in sub.g.exit.pred):
            got.append(None)  # falls off the end
        if not got:
            return UNKNOWN
        if all(_concrete(v) and not isinstance(v, list) and type(v) is type(got[0]) and v == got[0] for v in got):
            return got[0]
        ts = {truth(v) for v in got}
        if len(ts) == 1 and None not in ts:
            return TRUTHY if ts.pop() else FALSY
        return UNKNOWN

    def _hoisted(self, e, env, _depth):
        """Value of a module-level name / class-level self.name, Class.name bound once to a literal (or frozenset(literal) ...)."""
        p, fn = self.p, self.fn
        if p is None:
            return UNKNOWN
        v = None
        if isinstance(e, ast.Name):
            r = p.resolve_name(fn.module, e.id)
            if r and r[0] == "assign":
                v = r[1][1]
        elif isinstance(e, ast.Attribute) and isinstance(e.value, ast.Name) and (e.attr.isupper() or e.attr.startswith("_")):
            owner = None
            if fn.cls is not None and e.value.id in ("self", "cls", fn.self_name or ""):
                owner = fn.cls
            elif e.value.id not in self.bound:
                r = p.resolve_name(fn.module, e.value.id)
                if r and r[0] == "class":
                    owner = r[1]
            if owner is not None and e.attr not in _stored_attributes(p):
                m = owner.lookup(e.attr)
                if m and m[1] == "assign":
                    v = m[2]
        if v is None:
            return UNKNOWN
        ok = isinstance(v, (ast.Constant, ast.List, ast.Tuple, ast.Set, ast.Dict)) or (
            isinstance(v, ast.Call) and isinstance(v.func, ast.Name) and v.func.id in ("frozenset", "set", "tuple", "list") and len(v.args) == 1 and not v.keywords
        )
        if not ok:
            return UNKNOWN
        lit = v.args[0] if isinstance(v, ast.Call) else v
        if any(isinstance(x, (ast.Name, ast.Attribute, ast.Call)) for x in ast.walk(lit)):
            return UNKNOWN
        return self.value(lit, {}, _depth + 1)

    @staticmethod
    def _compare(op, a, b):
        if isinstance(op, (ast.Eq, ast.NotEq)):
            if _concrete(a) and _concrete(b) and not isinstance(a, list) and not isinstance(b, list):
                r = a == b
                return r if isinstance(op, ast.Eq) else not r
            return None
        if isinstance(op, (ast.In, ast.NotIn)):
            if isinstance(b, str) and isinstance(a, str):
                r = a in b
            elif isinstance(b, list) and _concrete(a) and not isinstance(a, list):
                if any(_concrete(x) and not isinstance(x, list) and x == a for x in b):
                    r = True
                elif all(_concrete(x) for x in b):
                    r = False
                else:
                    return None
            else:
                return None
            return r if isinstance(op, ast.In) else not r
        if isinstance(op, (ast.Is, ast.IsNot)):
            if b is None:
                if a is TRUTHY:
                    r = False
                elif _concrete(a):
                    r = a is None
                else:
                    return None
                return r if isinstance(op, ast.Is) else not r
            return None
        return None

    # -------------------------------------------------------------------------------------------- exploration
    def reachable(self, avoid=None, init_env=None, observe=None) -> set:
        """CFG nodes reachable from the entry along edges that do not contradict the assumptions.
        `avoid`: ids of nodes that do not complete normally under the assumptions (only their 'exc' edges are followed).
        `init_env`: values of parameters at the entry (flow-sensitive: a later re-binding replaces them).
        `observe`: callable(node, environment) called for every visited (node, environment) state."""
        plain = not avoid and not init_env and observe is None
        if self._reach is not None and plain:
            return self._reach
        avoid = set(avoid or ())
        g = self.g
        seen_states = set()
        seen_nodes = set()
        stack = [(g.entry, tuple(sorted((init_env or {}).items())))]
        steps = 0
        while stack:
            n, envt = stack.pop()
            key = (n.id, envt)
            if key in seen_states:
                continue
            seen_states.add(key)
            seen_nodes.add(n)
            steps += 1
            if steps > 20000:  # give up on precision, never on soundness
                return g.reachable()
            env = dict(envt)
            if observe is not None:
                observe(n, env)
            succ = n.succ
            if n.kind == "test" and n.ast is not None:
                t = truth(self.value(n.ast, env))
                if t is True:
                    succ = [(m, l) for m, l in succ if l != "false"]
                elif t is False:
                    succ = [(m, l) for m, l in succ if l != "true"]
            elif n.kind == "assert" and n.ast is not None:
                t = truth(self.value(n.ast, env))
                if t is True:
                    succ = [(m, l) for m, l in succ if l != "false"]
            if n.id in avoid:
                succ = [(m, l) for m, l in succ if l == "exc"]
            out_env = self._transfer(n, env)
            oe = tuple(sorted(out_env.items(), key=lambda kv: kv[0]))
            for m, lab in succ:
                # an exception raised while the statement runs: its own binding did not happen
                stack.append((m, envt if lab == "exc" else oe))
        if plain:
            self._reach = seen_nodes
        return seen_nodes

    def _transfer(self, n, env):
        a = n.ast
        if a is None or isinstance(a, list):
            return env
        src = a
        if n.kind == "with":
            src = [it.optional_vars for it in a.items if it.optional_vars is not None]
        elif n.kind in ("test", "return", "raise", "foriter", "assert"):
            src = a
        stores = set()
        me = self.fn.self_name
        for s in (src if isinstance(src, list) else [src]):
            for x in ast.walk(s):
                if isinstance(x, ast.Name) and isinstance(x.ctx, (ast.Store, ast.Del)):
                    stores.add(x.id)
                elif isinstance(x, ast.Attribute) and not isinstance(x.ctx, ast.Load) and isinstance(x.value, ast.Name) and x.value.id == me:
                    stores.add("." + x.attr)
                elif isinstance(x, ast.Call) and me and env and (
                    (isinstance(x.func, ast.Attribute) and isinstance(x.func.value, ast.Name) and x.func.value.id == me)
                    or any(isinstance(y, ast.Name) and y.id == me for y in list(x.args) + [k.value for k in x.keywords])
                    or (isinstance(x.func, ast.Name) and x.func.id in ("setattr", "delattr"))
                ):
                    # a method of self (or a function given self) may re-bind attributes remembered on this path
                    stores |= {k for k in env if k.startswith(".")}
        if not stores:
            return env
        new = {k: v for k, v in env.items() if k not in stores}
        if n.kind == "stmt" and isinstance(a, (ast.Assign, ast.AnnAssign)) and a.value is not None and me:
            tgs = a.targets if isinstance(a, ast.Assign) else [a.target]
            if len(tgs) == 1 and isinstance(tgs[0], ast.Attribute) and isinstance(tgs[0].value, ast.Name) and tgs[0].value.id == me:
                v = self.value(a.value, env)
                if v is not UNKNOWN and not isinstance(v, list):
                    new["." + tgs[0].attr] = v
                return new
        if n.kind == "stmt" and isinstance(a, (ast.Assign, ast.AnnAssign)) and a.value is not None:
            tgs = a.targets if isinstance(a, ast.Assign) else [a.target]
            if all(isinstance(t, ast.Name) for t in tgs):
                v = self.value(a.value, env)
                if isinstance(v, list):
                    v = UNKNOWN if any(not _concrete(x) or isinstance(x, list) for x in v) else v
                if v is not UNKNOWN and not isinstance(v, list):
                    for t in tgs:
                        new[t.id] = v
        return new

    def nodes_with(self, pred):
        """CFG nodes whose own expression / statement contains an AST node satisfying pred (bodies of compound statements excluded)."""
        out = []
        for n in self.g.nodes:
            a = n.ast
            if a is None or isinstance(a, list):
                continue
            parts = [it.context_expr for it in a.items] if n.kind == "with" else ([a.type] if n.kind == "except" and a.type is not None else ([] if n.kind == "except" else [a]))
            hits = [x for part in parts for x in ast.walk(part) if pred(x)]
            if hits:
                out.append((n, hits))
        return out


# ---------------------------------------------------------------------------------------------- private helpers
def is_private_helper(fn) -> bool:
    return fn.name.startswith("_") and not fn.name.startswith("__") and fn.kind in ("function", "method", "classmethod", "staticmethod")


def callee_of(p, fn, call):
    """FuncInfo of the private helper called by `call` inside `fn` (self._h / cls._h / Class._h / module-level _h), else None."""
    f = call.func
    name = f.attr if isinstance(f, ast.Attribute) else getattr(f, "id", None)
    if not name or not name.startswith("_") or name.startswith("__"):
        return None
    if isinstance(f, ast.Attribute) and isinstance(f.value, ast.Name):
        recv = f.value.id
        if fn.cls is not None and recv in ("self", "cls", fn.self_name):
            m = fn.cls.lookup(name)
            if m and m[1] == "method":
                return m[2]
            return None
        r = p.resolve_name(fn.module, recv)
        if r and r[0] == "class":
            m = r[1].lookup(name)
            if m and m[1] == "method":
                return m[2]
        return None
    if isinstance(f, ast.Name):
        r = p.resolve_name(fn.module, name)
        if r and r[0] == "func":
            return r[1]
    return None


def bind_args(fn, call, callee) -> dict:
    """parameter name of `callee` -> argument expression (or default) at `call`; missing -> None."""
    a = callee.node.args
    params = [x.arg for x in a.posonlyargs + a.args]
    defaults = dict(zip(params[len(params) - len(a.defaults):], a.defaults))
    for k, d in zip(a.kwonlyargs, a.kw_defaults):
        if d is not None:
            defaults[k.arg] = d
    pos = list(params)
    if callee.kind in ("method", "classmethod") and isinstance(call.func, ast.Attribute):
        recv = call.func.value
        recv_is_class = isinstance(recv, ast.Name) and recv.id not in ("self", "cls", fn.self_name or "")
        if not (callee.kind == "method" and recv_is_class):
            pos = pos[1:]
    out = {}
    for prm, arg in zip(pos, call.args):
        if isinstance(arg, ast.Starred):
            break
        out[prm] = arg
    for k in call.keywords:
        if k.arg is not None:
            out[k.arg] = k.value
    for prm in params + [k.arg for k in a.kwonlyargs]:
        if prm not in out and prm in defaults:
            out[prm] = defaults[prm]
    return out


def helper_closure(p, fn, depth=6) -> list:
    """`fn` and the private helpers it reaches (transitively), in discovery order."""
    out, seen = [], set()
    stack = [(fn, 0)]
    while stack:
        f, d = stack.pop(0)
        if id(f.node) in seen:
            continue
        seen.add(id(f.node))
        out.append(f)
        if d >= depth:
            continue
        for c in ast.walk(f.node):
            if isinstance(c, ast.Call):
                t = callee_of(p, f, c)
                if t is not None:
                    stack.append((t, d + 1))
    return out


TOPLEVEL = "<module level>"


def _ref_index(ctx) -> dict:
    """private name -> list of FuncInfo (or TOPLEVEL) in which the name is mentioned (as attribute or bare name)."""
    idx = ctx.cache.get("c10.refindex")
    if idx is not None:
        return idx
    idx = {}
    p = ctx.p
    in_fn = set()
    for fn in p.all_functions(scope_only=False):
        for n in ast.walk(fn.node):
            nm = n.attr if isinstance(n, ast.Attribute) else (n.id if isinstance(n, ast.Name) else None)
            if nm and nm.startswith("_") and not nm.startswith("__"):
                in_fn.add(id(n))
                if n is not fn.node:
                    lst = idx.setdefault(nm, [])
                    if fn not in lst:
                        lst.append(fn)
    for mod in p.modules.values():
        for n in ast.walk(mod.tree):
            nm = n.attr if isinstance(n, ast.Attribute) else (n.id if isinstance(n, ast.Name) else None)
            if nm and nm.startswith("_") and not nm.startswith("__") and id(n) not in in_fn:
                lst = idx.setdefault(nm, [])
                if TOPLEVEL not in lst:
                    lst.append(TOPLEVEL)
    ctx.cache["c10.refindex"] = idx
    return idx


def entry_roots(ctx, fn, stop=lambda f: False) -> list:
    """The functions through which `fn` is entered: `fn` itself when it is public (or `stop(fn)`), otherwise the
    transitive callers of the private helper (every function that mentions its name — an over-approximation)."""
    idx = _ref_index(ctx)
    out, seen = [], set()
    stack = [fn]
    while stack:
        f = stack.pop()
        if f is TOPLEVEL:
            if f not in out:
                out.append(f)
            continue
        if id(f.node) in seen:
            continue
        seen.add(id(f.node))
        if stop(f) or not is_private_helper(f):
            out.append(f)
            continue
        refs = [r for r in idx.get(f.name, []) if r is TOPLEVEL or r.node is not f.node]
        if not refs:
            out.append(f)
            continue
        stack.extend(refs)
    return out


def entered_only_through(ctx, fn, allowed) -> bool:
    """`allowed(f)` holds for `fn` or, when `fn` is a private helper, for every member through which it can be entered."""
    if allowed(fn):
        return True
    if not is_private_helper(fn):
        return False
    roots = entry_roots(ctx, fn, stop=allowed)
    return bool(roots) and all(r is not TOPLEVEL and allowed(r) for r in roots)


# ---------------------------------------------------------------------------------------------- constants
def const_value(p, fn, e, _depth=0):
    """The constant a mode expression denotes: literal, single-assignment local, module / class level constant. Else None."""
    if _depth > 6 or e is None:
        return None
    if isinstance(e, ast.Constant):
        return e
    if isinstance(e, ast.Name):
        defs = single_assignments(fn.node)
        stored = any(isinstance(x, ast.Name) and x.id == e.id and isinstance(x.ctx, (ast.Store, ast.Del)) for x in ast.walk(fn.node))
        a = fn.node.args
        if e.id in defs:
            return const_value(p, fn, defs[e.id], _depth + 1)
        if stored or e.id in {x.arg for x in a.posonlyargs + a.args + a.kwonlyargs}:
            return None
        r = p.resolve_name(fn.module, e.id)
        if r and r[0] == "assign" and isinstance(r[1][1], ast.Constant):
            return r[1][1]
        return None
    if isinstance(e, ast.Attribute) and isinstance(e.value, ast.Name):
        owner = None
        if fn.cls is not None and e.value.id in ("self", "cls", fn.self_name or ""):
            owner = fn.cls
        else:
            r = p.resolve_name(fn.module, e.value.id)
            if r and r[0] == "class":
                owner = r[1]
            elif r and r[0] == "module":
                r2 = p.resolve_name(r[1], e.attr)
                if r2 and r2[0] == "assign" and isinstance(r2[1][1], ast.Constant):
                    return r2[1][1]
        if owner is not None:
            m = owner.lookup(e.attr)
            if m and m[1] == "assign" and isinstance(m[2], ast.Constant) and e.attr not in _stored_attributes(p):
                # a class-level constant that no function re-binds on an instance
                return m[2]
    return None


def _stored_attributes(p) -> set:
    """Names of attributes that some function of the package stores / deletes (`x.attr = ...`, setattr with a literal name)."""
    got = p.__dict__.get("_c10_stored_attributes")
    if got is None:
        got = set()
        for fn in p.all_functions(scope_only=False):
            for n in ast.walk(fn.node):
                if isinstance(n, ast.Attribute) and not isinstance(n.ctx, ast.Load):
                    got.add(n.attr)
                elif isinstance(n, ast.Call) and isinstance(n.func, ast.Name) and n.func.id == "setattr" and len(n.args) >= 2:
                    got.add(n.args[1].value if isinstance(n.args[1], ast.Constant) else "*")
        p.__dict__["_c10_stored_attributes"] = got
    return got


# ---------------------------------------------------------------------------------------------- mode sources
def mode_sources(ctx, fn, e, bindings=None, _depth=0, _seen=frozenset()) -> set:
    """Where the value of `e` (evaluated inside `fn`) can come from, as a set of tags:
    "'r'" (a constant, by repr), "<arg:function:parameter>" (with `bindings` None: the function's own parameter),
    "self.<attribute>", or "?<text>" for anything else.  `bindings`: {parameter: set of tags} for a helper entered
    from a known call site."""
    p = ctx.p
    if _depth > 10 or e is None:
        return {"?" + unparse(e)}
    if isinstance(e, ast.Name):
        if e.id in _seen:
            return set()  # `mode = self._mode if mode is None else mode`: the name's own sources are being collected already
        _seen = _seen | {e.id}
    S = lambda x: mode_sources(ctx, fn, x, bindings, _depth + 1, _seen)  # noqa: E731
    c = const_value(p, fn, e)
    if c is not None:
        return {repr(c.value)}
    if isinstance(e, ast.IfExp):
        return S(e.body) | S(e.orelse)
    if isinstance(e, ast.BoolOp):
        out = set()
        for v in e.values:
            out |= S(v)
        return out
    if isinstance(e, ast.Name):
        a = fn.node.args
        params = {x.arg for x in a.posonlyargs + a.args + a.kwonlyargs}
        out = set()
        if e.id in params:
            if bindings is not None:
                out |= bindings.get(e.id, {"?unbound parameter " + e.id})
            else:
                out.add(f"<arg:{fn.name}:{e.id}>")
        found = False
        for n in ast.walk(fn.node):
            if isinstance(n, (ast.Assign, ast.AnnAssign)) and n.value is not None:
                tgs = n.targets if isinstance(n, ast.Assign) else [n.target]
                if any(isinstance(t, ast.Name) and t.id == e.id for t in tgs):
                    found = True
                    out |= S(n.value)
                elif any(isinstance(x, ast.Name) and x.id == e.id for t in tgs for x in ast.walk(t)):
                    found = True
                    out.add("?" + unparse(n))
            elif isinstance(n, (ast.AugAssign, ast.For, ast.comprehension, ast.NamedExpr)):
                if any(isinstance(x, ast.Name) and x.id == e.id for x in ast.walk(n.target)):
                    found = True
                    out.add("?" + unparse(n.target))
            elif isinstance(n, ast.With):
                for it in n.items:
                    if it.optional_vars is not None and any(isinstance(x, ast.Name) and x.id == e.id for x in ast.walk(it.optional_vars)):
                        found = True
                        out.add("?" + unparse(it.context_expr))
        if not found and e.id not in params:
            out.add("?" + e.id)
        return out
    if isinstance(e, ast.Attribute) and isinstance(e.value, ast.Name) and e.value.id == fn.self_name and fn.self_name:
        return {"self." + e.attr}  # canonical spelling of the receiver
    return {"?" + unparse(e)}
