"""C11 helpers: three-valued evaluation of tests under stated facts about expressions (after alias expansion), CFG
reachability with the contradicted edges pruned, recognisers that go by what a statement does (the receiver it closes,
the value it returns) and not by the spelling of locals or the layout of the guards."""

from __future__ import annotations

import ast
from collections import deque

from ..model import unparse
from ..normalize import expanded, single_assignments


class Facts:
    """Assumed facts about (alias-expanded) expressions of one function:
    truthy[text] -> bool, notnone[text] -> bool, value[text] -> constant."""

    def __init__(self, fn_node, truthy=None, notnone=None, value=None):
        self.fn_node = fn_node
        self.defs = single_assignments(fn_node)
        self.truthy = dict(truthy or {})
        self.notnone = dict(notnone or {})
        self.value = dict(value or {})

    def x(self, expr):
        return expanded(expr, self.fn_node, self.defs)

    def text(self, expr) -> str:
        return unparse(self.x(expr))

    # ------------------------------------------------------------------ evaluation
    def ev(self, test):
        """True / False / None (unknown) for a test expression."""
        return self._ev(self.x(test))

    def _const(self, e):
        """(known, value) of an expanded expression."""
        if isinstance(e, ast.Constant):
            return True, e.value
        t = unparse(e)
        if t in self.value:
            return True, self.value[t]
        if isinstance(e, (ast.List, ast.Tuple, ast.Set)):
            vals = [self._const(x) for x in e.elts]
            if all(k for k, _ in vals):
                return True, [v for _, v in vals]
        return False, None

    def _ev(self, e):
        if isinstance(e, ast.UnaryOp) and isinstance(e.op, ast.Not):
            v = self._ev(e.operand)
            return None if v is None else (not v)
        if isinstance(e, ast.BoolOp):
            vals = [self._ev(v) for v in e.values]
            if isinstance(e.op, ast.And):
                if any(v is False for v in vals):
                    return False
                return True if all(v is True for v in vals) else None
            if any(v is True for v in vals):
                return True
            return False if all(v is False for v in vals) else None
        if isinstance(e, ast.Call) and isinstance(e.func, ast.Name) and e.func.id == "bool" and len(e.args) == 1 and not e.keywords:
            return self._ev(e.args[0])
        if isinstance(e, ast.Compare) and len(e.ops) == 1:
            op, left, right = e.ops[0], e.left, e.comparators[0]
            if isinstance(op, (ast.Is, ast.IsNot)):
                for a, b in ((left, right), (right, left)):
                    if isinstance(b, ast.Constant) and b.value is None:
                        if isinstance(a, ast.Constant):
                            nn = a.value is not None
                        else:
                            nn = self.notnone.get(unparse(a))
                        if nn is None:
                            return None
                        return nn if isinstance(op, ast.IsNot) else (not nn)
                return None
            kl, vl = self._const(left)
            kr, vr = self._const(right)
            if kl and kr:
                try:
                    if isinstance(op, ast.Eq):
                        return vl == vr
                    if isinstance(op, ast.NotEq):
                        return vl != vr
                    if isinstance(op, ast.In):
                        return vl in vr
                    if isinstance(op, ast.NotIn):
                        return vl not in vr
                except TypeError:
                    return None
            return None
        if isinstance(e, ast.Constant):
            return bool(e.value)
        if isinstance(e, (ast.Name, ast.Attribute, ast.Subscript)):
            return self.truthy.get(unparse(e))
        return None


def reach3(g, starts, facts: Facts | None = None, avoid=lambda n: False):
    """Nodes reachable from `starts` without entering a node with avoid(n); edges of tests decided by `facts` are pruned."""
    seen = set()
    dq = deque(starts)
    while dq:
        n = dq.popleft()
        if n in seen or avoid(n):
            continue
        seen.add(n)
        succ = n.succ
        if facts is not None and n.kind == "test" and n.ast is not None:
            v = facts.ev(n.ast)
            if v is True:
                succ = [(m, l) for m, l in succ if l != "false"]
            elif v is False:
                succ = [(m, l) for m, l in succ if l != "true"]
        for m, _ in succ:
            if m not in seen:
                dq.append(m)
    return seen


def node_exprs(n):
    """The expressions a CFG node evaluates itself (a `with` node: only its context expressions)."""
    if n.ast is None or isinstance(n.ast, list):
        return []
    if n.kind == "with":
        return [it.context_expr for it in n.ast.items]
    if n.kind == "except":
        return []
    return [n.ast]


def node_calls(n):
    return [c for e in node_exprs(n) for c in ast.walk(e) if isinstance(c, ast.Call)]


def call_name(c):
    f = c.func
    return f.attr if isinstance(f, ast.Attribute) else getattr(f, "id", None)


def node_of(g, target):
    """The CFG node whose own expressions contain the AST node `target`."""
    for n in g.nodes:
        for e in node_exprs(n):
            if any(x is target for x in ast.walk(e)):
                return n
    return None


def path_aliases(fn_node) -> dict:
    """single-assignment locals bound to a call-free path (name / attribute / subscript chain): pure aliases."""
    return {k: v for k, v in single_assignments(fn_node).items()
            if isinstance(v, (ast.Name, ast.Attribute, ast.Subscript)) and not any(isinstance(x, (ast.Call, ast.Await, ast.Yield, ast.YieldFrom, ast.NamedExpr)) for x in ast.walk(v))}


def path_text(expr, fn_node, defs=None) -> str:
    """Text of `expr` with pure aliases replaced by the path they stand for (`ws = self.workspace; ws.x` -> `self.workspace.x`)."""
    return unparse(expanded(expr, fn_node, defs if defs is not None else path_aliases(fn_node)))


def closer(fn_node, handles: set):
    """Predicate on CFG nodes: the node releases one of `handles` (texts of the expressions denoting the handle, compared
    modulo pure aliases): `<h>.close()`, or the exit of `with closing(<h>)` / `with <h>`."""
    defs = path_aliases(fn_node)
    hs = set(handles) | {path_text(ast.parse(h, mode="eval").body, fn_node, defs) for h in handles}

    def denotes(e):
        return unparse(e) in hs or path_text(e, fn_node, defs) in hs

    def releases_item(e):
        if isinstance(e, ast.Call) and call_name(e) == "closing" and len(e.args) == 1:
            return denotes(e.args[0])
        return denotes(e)

    def pred(n):
        if n.kind == "withexit" and isinstance(n.stmt, (ast.With, ast.AsyncWith)):
            return any(releases_item(it.context_expr) for it in n.stmt.items)
        return any(isinstance(c.func, ast.Attribute) and c.func.attr == "close" and not c.args and denotes(c.func.value) for c in node_calls(n))

    pred.denotes = denotes
    pred.releases_item = releases_item
    return pred


def falsy_result(expr, fn_node, _depth=0) -> bool:
    """The expression can only evaluate to None / False (a constant, or a local bound to such constants only)."""
    if expr is None:
        return True
    if isinstance(expr, ast.Constant):
        return expr.value is None or expr.value is False
    if isinstance(expr, ast.Name) and _depth < 4:
        vals = []
        for a in ast.walk(fn_node):
            if isinstance(a, (ast.Assign, ast.AnnAssign)) and a.value is not None:
                tgs = a.targets if isinstance(a, ast.Assign) else [a.target]
                for t in tgs:
                    if isinstance(t, ast.Name) and t.id == expr.id:
                        vals.append(a.value)
                    elif any(isinstance(x, ast.Name) and x.id == expr.id and isinstance(x.ctx, ast.Store) for x in ast.walk(t)):
                        return False
            elif isinstance(a, (ast.For, ast.comprehension, ast.AugAssign, ast.NamedExpr)):
                if any(isinstance(x, ast.Name) and x.id == expr.id for x in ast.walk(a.target)):
                    return False
            elif isinstance(a, ast.withitem) and a.optional_vars is not None:
                if any(isinstance(x, ast.Name) and x.id == expr.id for x in ast.walk(a.optional_vars)):
                    return False
        params = {x.arg for x in fn_node.args.posonlyargs + fn_node.args.args + fn_node.args.kwonlyargs}
        return bool(vals) and expr.id not in params and all(falsy_result(v, fn_node, _depth + 1) for v in vals)
    return False


def truthy_source(expr, fn_node, _depth=0):
    """For a result that is not provably None / False: the value behind it (a local is followed to the first of its
    bindings that is not None / False), so that messages name the value and not a temporary."""
    if isinstance(expr, ast.Name) and _depth < 4:
        for a in ast.walk(fn_node):
            if isinstance(a, (ast.Assign, ast.AnnAssign)) and a.value is not None:
                tgs = a.targets if isinstance(a, ast.Assign) else [a.target]
                if any(isinstance(t, ast.Name) and t.id == expr.id for t in tgs) and not falsy_result(a.value, fn_node):
                    return truthy_source(a.value, fn_node, _depth + 1)
    return expr
