"""C11 helpers: three-valued evaluation of tests under stated facts about expressions (after alias expansion), CFG
reachability with the contradicted edges pruned, recognisers that go by what a statement does (the receiver it closes,
the value it returns) and not by the spelling of locals or the layout of the guards."""

from __future__ import annotations

import ast
import copy
from collections import deque

from ..model import unparse
from ..normalize import expanded, single_assignments


def with_result_temporaries(fn_node, defs: dict) -> dict:
    """`defs` plus the normaliser's result temporaries of expanded helpers (`_ret__iN = None` followed by exactly one
    `_ret__iN = <expr>`: a helper with a single return): they stand for that expression."""
    vals: dict = {}
    for holder in ast.walk(fn_node):
        for fld in ("body", "orelse", "finalbody"):
            blk = getattr(holder, fld, None)
            if not (isinstance(blk, list) and blk and isinstance(blk[0], ast.stmt)):
                continue
            for a in blk:
                if isinstance(a, ast.Assign) and len(a.targets) == 1 and isinstance(a.targets[0], ast.Name) and a.targets[0].id.startswith("_ret__i"):
                    vals.setdefault(a.targets[0].id, []).append((a.value, id(blk)))
    out = dict(defs)
    for name, vs in vals.items():
        real = [v for v, _b in vs if not (isinstance(v, ast.Constant) and v.value is None)]
        # initialiser and the one result in the same statement list: the result is bound unconditionally
        if len(real) == 1 and len(vs) == 2 and len({b for _v, b in vs}) == 1 and name not in out:
            out[name] = real[0]
    return out


class Facts:
    """Assumed facts about (alias-expanded) expressions of one function:
    truthy[text] -> bool, notnone[text] -> bool, value[text] -> constant."""

    def __init__(self, fn_node, truthy=None, notnone=None, value=None, fields=None):
        self.fn_node = fn_node
        self.defs = with_result_temporaries(fn_node, single_assignments(fn_node))
        self.truthy = dict(truthy or {})
        self.notnone = dict(notnone or {})
        self.value = dict(value or {})
        # text of an attribute of self -> the expression it stands for (a property's result, the only value a cached field
        # is ever given): substituted after the locals, not expanded again (its free names belong to another function)
        self.fields = dict(fields or {})

    def x(self, expr):
        e = expanded(expr, self.fn_node, self.defs)
        if not self.fields:
            return e
        fields = self.fields

        class F(ast.NodeTransformer):
            def visit_Attribute(self, n):
                t = unparse(n)
                if t in fields and isinstance(n.ctx, ast.Load):
                    return ast.copy_location(copy.deepcopy(fields[t]), n)
                self.generic_visit(n)
                return n

            def visit_Call(self, n):
                t = unparse(n)
                if t in fields:
                    return ast.copy_location(copy.deepcopy(fields[t]), n)
                self.generic_visit(n)
                return n

        for _ in range(3):  # a property over a cached field over ...
            before = ast.dump(e)
            e = F().visit(e)
            if ast.dump(e) == before:
                break
        return e

    def text(self, expr) -> str:
        return unparse(self.x(expr))

    # ------------------------------------------------------------------ evaluation
    def ev(self, test):
        """True / False / None (unknown) for a test expression."""
        return self._ev(self.x(test))

    def _const(self, e):
        """(known, value) of an expanded expression."""
        if isinstance(e, ast.Constant):
            return True, e.value
        t = unparse(e)
        if t in self.value:
            return True, self.value[t]
        if isinstance(e, (ast.List, ast.Tuple, ast.Set)):
            vals = [self._const(x) for x in e.elts]
            if all(k for k, _ in vals):
                return True, [v for _, v in vals]
        return False, None

    def _ev(self, e):
        if isinstance(e, ast.UnaryOp) and isinstance(e.op, ast.Not):
            v = self._ev(e.operand)
            return None if v is None else (not v)
        if isinstance(e, ast.BoolOp):
            vals = [self._ev(v) for v in e.values]
            if isinstance(e.op, ast.And):
                if any(v is False for v in vals):
                    return False
                return True if all(v is True for v in vals) else None
            if any(v is True for v in vals):
                return True
            return False if all(v is False for v in vals) else None
        if isinstance(e, ast.Call) and isinstance(e.func, ast.Name) and e.func.id == "bool" and len(e.args) == 1 and not e.keywords:
            return self._ev(e.args[0])
        if isinstance(e, ast.Compare) and len(e.ops) == 1:
            op, left, right = e.ops[0], e.left, e.comparators[0]
            if isinstance(op, (ast.Is, ast.IsNot)):
                for a, b in ((left, right), (right, left)):
                    if isinstance(b, ast.Constant) and b.value is None:
                        if isinstance(a, ast.Constant):
                            nn = a.value is not None
                        else:
                            nn = self.notnone.get(unparse(a))
                        if nn is None:
                            return None
                        return nn if isinstance(op, ast.IsNot) else (not nn)
                return None
            kl, vl = self._const(left)
            kr, vr = self._const(right)
            if kl and kr:
                try:
                    if isinstance(op, ast.Eq):
                        return vl == vr
                    if isinstance(op, ast.NotEq):
                        return vl != vr
                    if isinstance(op, ast.In):
                        return vl in vr
                    if isinstance(op, ast.NotIn):
                        return vl not in vr
                except TypeError:
                    return None
            return None
        if isinstance(e, ast.Constant):
            return bool(e.value)
        if isinstance(e, (ast.Name, ast.Attribute, ast.Subscript)):
            return self.truthy.get(unparse(e))
        return None


def reach3(g, starts, facts: Facts | None = None, avoid=lambda n: False, normal_only=False):
    """Nodes reachable from `starts` without entering a node with avoid(n); edges of tests decided by `facts` are pruned;
    with normal_only the edges taken by a raised exception are not followed."""
    seen = set()
    dq = deque(starts)
    while dq:
        n = dq.popleft()
        if n in seen or avoid(n):
            continue
        seen.add(n)
        succ = n.succ
        if facts is not None and n.kind == "test" and n.ast is not None:
            v = facts.ev(n.ast)
            if v is True:
                succ = [(m, l) for m, l in succ if l != "false"]
            elif v is False:
                succ = [(m, l) for m, l in succ if l != "true"]
        for m, lab in succ:
            if normal_only and lab in ("exc", "raise"):
                continue
            if m not in seen:
                dq.append(m)
    return seen


def node_exprs(n):
    """The expressions a CFG node evaluates itself (a `with` node: only its context expressions)."""
    if n.ast is None or isinstance(n.ast, list):
        return []
    if n.kind == "with":
        return [it.context_expr for it in n.ast.items]
    if n.kind == "except":
        return []
    return [n.ast]


def node_calls(n):
    return [c for e in node_exprs(n) for c in ast.walk(e) if isinstance(c, ast.Call)]


def call_name(c):
    f = c.func
    return f.attr if isinstance(f, ast.Attribute) else getattr(f, "id", None)


def node_of(g, target):
    """The CFG node whose own expressions contain the AST node `target`."""
    for n in g.nodes:
        for e in node_exprs(n):
            if any(x is target for x in ast.walk(e)):
                return n
    return None


def path_aliases(fn_node) -> dict:
    """single-assignment locals bound to a call-free path (name / attribute / subscript chain): pure aliases."""
    return {k: v for k, v in single_assignments(fn_node).items()
            if isinstance(v, (ast.Name, ast.Attribute, ast.Subscript)) and not any(isinstance(x, (ast.Call, ast.Await, ast.Yield, ast.YieldFrom, ast.NamedExpr)) for x in ast.walk(v))}


def path_text(expr, fn_node, defs=None) -> str:
    """Text of `expr` with pure aliases replaced by the path they stand for (`ws = self.workspace; ws.x` -> `self.workspace.x`)."""
    return unparse(expanded(expr, fn_node, defs if defs is not None else path_aliases(fn_node)))


def closer(fn_node, handles: set, released_by=None):
    """Predicate on CFG nodes: the node releases one of `handles` (texts of the expressions denoting the handle, compared
    modulo pure aliases): `<h>.close()`, or the exit of `with closing(<h>)` / `with <h>` / `with <cm>(.., <h>, ..)` where
    `released_by(call)` lists the arguments a context-manager call closes on every way out of its block."""
    defs = path_aliases(fn_node)
    hs = set(handles) | {path_text(ast.parse(h, mode="eval").body, fn_node, defs) for h in handles}

    def denotes(e):
        return unparse(e) in hs or path_text(e, fn_node, defs) in hs

    def releases_item(e):
        if isinstance(e, ast.Call) and call_name(e) == "closing" and len(e.args) == 1:
            return denotes(e.args[0])
        if isinstance(e, ast.Call) and released_by is not None and any(denotes(a) for a in released_by(e)):
            return True
        return denotes(e)

    def pred(n):
        if n.kind == "withexit" and isinstance(n.stmt, (ast.With, ast.AsyncWith)):
            return any(releases_item(it.context_expr) for it in n.stmt.items)
        return any(isinstance(c.func, ast.Attribute) and c.func.attr == "close" and not c.args and denotes(c.func.value) for c in node_calls(n))

    pred.denotes = denotes
    pred.releases_item = releases_item
    return pred


def falsy_result(expr, fn_node, _depth=0) -> bool:
    """The expression can only evaluate to None / False (a constant, or a local bound to such constants only)."""
    if expr is None:
        return True
    if isinstance(expr, ast.Constant):
        return expr.value is None or expr.value is False
    if isinstance(expr, ast.Name) and _depth < 4:
        vals = []
        for a in ast.walk(fn_node):
            if isinstance(a, (ast.Assign, ast.AnnAssign)) and a.value is not None:
                tgs = a.targets if isinstance(a, ast.Assign) else [a.target]
                for t in tgs:
                    if isinstance(t, ast.Name) and t.id == expr.id:
                        vals.append(a.value)
                    elif any(isinstance(x, ast.Name) and x.id == expr.id and isinstance(x.ctx, ast.Store) for x in ast.walk(t)):
                        return False
            elif isinstance(a, (ast.For, ast.comprehension, ast.AugAssign, ast.NamedExpr)):
                if any(isinstance(x, ast.Name) and x.id == expr.id for x in ast.walk(a.target)):
                    return False
            elif isinstance(a, ast.withitem) and a.optional_vars is not None:
                if any(isinstance(x, ast.Name) and x.id == expr.id for x in ast.walk(a.optional_vars)):
                    return False
        params = {x.arg for x in fn_node.args.posonlyargs + fn_node.args.args + fn_node.args.kwonlyargs}
        return bool(vals) and expr.id not in params and all(falsy_result(v, fn_node, _depth + 1) for v in vals)
    return False


def truthy_source(expr, fn_node, _depth=0):
    """For a result that is not provably None / False: the value behind it (a local is followed to the first of its
    bindings that is not None / False), so that messages name the value and not a temporary."""
    if isinstance(expr, ast.Name) and _depth < 4:
        for a in ast.walk(fn_node):
            if isinstance(a, (ast.Assign, ast.AnnAssign)) and a.value is not None:
                tgs = a.targets if isinstance(a, ast.Assign) else [a.target]
                if any(isinstance(t, ast.Name) and t.id == expr.id for t in tgs) and not falsy_result(a.value, fn_node):
                    return truthy_source(a.value, fn_node, _depth + 1)
    return expr


def resolve_callee(p, fn, call):
    """FuncInfo of the function / method a call in `fn` goes to (`self.m(..)`, `cls.m(..)`, `Class.m(..)`, module-level
    `f(..)`, `module.f(..)`), or None."""
    f = call.func
    if isinstance(f, ast.Attribute) and isinstance(f.value, ast.Name):
        owner = None
        if fn.cls is not None and f.value.id in ("self", "cls", fn.self_name):
            owner = fn.cls
        else:
            r = p.resolve_name(fn.module, f.value.id)
            if r and r[0] == "class":
                owner = r[1]
            elif r and r[0] == "module":
                r2 = p.resolve_name(r[1], f.attr)
                return r2[1] if r2 and r2[0] == "func" else None
        if owner is not None:
            m = owner.lookup(f.attr)
            if m and hasattr(m[2], "node") and isinstance(m[2].node, (ast.FunctionDef, ast.AsyncFunctionDef)):
                return m[2]
        return None
    if isinstance(f, ast.Name):
        r = p.resolve_name(fn.module, f.id)
        return r[1] if r and r[0] == "func" else None
    return None


def is_generator_cm(fi) -> bool:
    """Decorated with contextlib.contextmanager (a generator used as a context manager)."""
    return any(unparse(d).split(".")[-1] in ("contextmanager", "asynccontextmanager") for d in fi.node.decorator_list)


def own_nodes(fn_node):
    """AST nodes of a function, not descending into nested functions / classes / lambdas."""
    stack = list(fn_node.body)
    while stack:
        n = stack.pop()
        yield n
        if isinstance(n, (ast.FunctionDef, ast.AsyncFunctionDef, ast.ClassDef, ast.Lambda)):
            continue
        stack.extend(ast.iter_child_nodes(n))


def handlers_around(p, fn, catches, view=lambda f: f, _depth=0):
    """The exception handlers that intercept an exception (selected by `catches(handler)`) raised in the body of `fn`:
    `except` clauses of its own try statements, and - for `with <cm>(..):` where <cm> is a generator context manager of the
    package - the `except` clauses of the try statement its `yield` sits in (an exception leaving the with-body is thrown
    in at that yield), transitively.  `view(FuncInfo)` gives the form of a callee to look into (normalised view).
    Returns [(owner FuncInfo as looked into, Try, handler)]."""
    out = []
    for n in own_nodes(fn.node):
        if isinstance(n, ast.Try):
            out += [(fn, n, h) for h in n.handlers if catches(h)]
        elif isinstance(n, (ast.With, ast.AsyncWith)) and _depth < 3:
            for it in n.items:
                if not isinstance(it.context_expr, ast.Call):
                    continue
                callee = resolve_callee(p, fn, it.context_expr)
                if callee is None or callee.node is fn.node or not is_generator_cm(callee):
                    continue
                callee = view(callee)
                for t in own_nodes(callee.node):
                    if isinstance(t, ast.Try) and any(isinstance(y, (ast.Yield, ast.YieldFrom)) for b in t.body for y in ast.walk(b)):
                        out += [(callee, t, h) for h in t.handlers if catches(h)]
                out += [x for x in handlers_around(p, callee, catches, view, _depth + 1) if x[0] is not callee]
    return out


def protected(g, node, releases) -> bool:
    """Exceptions raised at `node` are intercepted (try / with frame) and every path out of it, normal or exceptional,
    passes a release before leaving the function."""
    if not any(l == "exc" for _, l in node.succ):
        return False
    after = reach3(g, [m for m, _ in node.succ], avoid=releases)
    return g.exit not in after and g.rexit not in after


def cm_released_args(p, fn, call, _depth=0):
    """For `with <cm>(args):` where <cm> is a generator context manager of the package: the argument expressions (of the
    call, receiver included) that the generator closes on every way out of each of its yields (`try: yield .. finally:
    <param>.close()`, `with closing(<param>): yield`, ...).  Empty when the callee is not such a generator."""
    from ..cfg import CFG

    callee = resolve_callee(p, fn, call)
    if callee is None or callee.node is fn.node or not is_generator_cm(callee) or _depth > 2:
        return []
    a = callee.node.args
    if a.vararg or a.kwarg or any(isinstance(x, ast.Starred) for x in call.args) or any(k.arg is None for k in call.keywords):
        return []
    params = [x.arg for x in a.posonlyargs + a.args]
    binding = {}
    if callee.cls is not None and callee.kind in ("method", "classmethod") and params and isinstance(call.func, ast.Attribute):
        recv_is_class = isinstance(call.func.value, ast.Name) and call.func.value.id not in ("self", "cls", fn.self_name or "")
        if not (callee.kind == "method" and recv_is_class):
            binding[params[0]] = call.func.value
            params = params[1:]
    binding.update(zip(params, call.args))
    for k in call.keywords:
        binding[k.arg] = k.value
    g = CFG(callee.node)
    yields = [node_of(g, y) for y in own_nodes(callee.node) if isinstance(y, (ast.Yield, ast.YieldFrom))]
    if not yields or any(y is None for y in yields):
        return []
    out = []
    for prm, arg in binding.items():
        rel = closer(callee.node, {prm}, released_by=lambda c, callee=callee: cm_released_args(p, callee, c, _depth + 1))
        if all(protected(g, yn, rel) for yn in yields):
            out.append(arg)
    return out


_EMPTY_MAKERS = {"dict", "OrderedDict", "WeakValueDictionary", "defaultdict"}


def is_empty_mapping(e) -> bool:
    """`{}` / `dict()` (a fresh empty mapping)."""
    if isinstance(e, ast.Dict):
        return not e.keys
    return isinstance(e, ast.Call) and call_name(e) in _EMPTY_MAKERS and not e.keywords and \
        (not e.args or (call_name(e) == "defaultdict" and len(e.args) == 1))


def _self_field(e, sn):
    return e.attr if isinstance(e, ast.Attribute) and isinstance(e.value, ast.Name) and e.value.id == sn else None


def _stmt_resets(st, sn, names_of) -> set:
    """Fields of `sn` (self) that the simple statement `st` re-binds to a fresh empty mapping (or empties in place):
    `self.x = {}`, `self.x = self.y = {}`, `self.x, self.y = {}, {}`, `setattr(self, "x", {})`, `self.x.clear()`.
    `names_of(expr)` gives the strings a field-name expression can stand for (None: unknown)."""
    out = set()
    if isinstance(st, (ast.Assign, ast.AnnAssign)) and st.value is not None:
        tgs = st.targets if isinstance(st, ast.Assign) else [st.target]
        for t in tgs:
            if is_empty_mapping(st.value) and _self_field(t, sn):
                out.add(_self_field(t, sn))
            elif isinstance(t, (ast.Tuple, ast.List)) and isinstance(st.value, (ast.Tuple, ast.List)) and len(t.elts) == len(st.value.elts):
                out |= {_self_field(a, sn) for a, b in zip(t.elts, st.value.elts) if _self_field(a, sn) and is_empty_mapping(b)}
    elif isinstance(st, ast.Expr) and isinstance(st.value, ast.Call):
        c = st.value
        if isinstance(c.func, ast.Name) and c.func.id == "setattr" and len(c.args) == 3 and isinstance(c.args[0], ast.Name) and c.args[0].id == sn and is_empty_mapping(c.args[2]):
            out |= set(names_of(c.args[1]) or ())
        elif isinstance(c.func, ast.Attribute) and c.func.attr == "clear" and not c.args and _self_field(c.func.value, sn):
            out.add(_self_field(c.func.value, sn))
    return out


def field_resets(g, fn_node, sn) -> dict:
    """CFG node -> set of fields of self reset to an empty mapping by that node.  A loop `for v in (<names>): setattr(self, v,
    {})` over a non-empty literal sequence of names counts as a whole (at its head) for every listed name."""
    facts = Facts(fn_node)

    def literal_names(e):
        e = facts.x(e)
        if isinstance(e, (ast.List, ast.Tuple, ast.Set)) and e.elts and all(isinstance(x, ast.Constant) and isinstance(x.value, str) for x in e.elts):
            return [x.value for x in e.elts]
        if isinstance(e, ast.Dict) and e.keys and all(isinstance(x, ast.Constant) and isinstance(x.value, str) for x in e.keys):
            return [x.value for x in e.keys]
        return None

    def const_name(e):
        return [e.value] if isinstance(e, ast.Constant) and isinstance(e.value, str) else None

    out = {}
    for n in g.nodes:
        if n.kind == "stmt" and n.ast is not None and not isinstance(n.ast, list):
            r = _stmt_resets(n.ast, sn, const_name)
            if r:
                out[n] = r
        elif n.kind == "foriter" and isinstance(n.stmt, ast.For) and isinstance(n.stmt.target, ast.Name) and not n.stmt.orelse:
            names = literal_names(n.stmt.iter)
            if not names:
                continue
            var = n.stmt.target.id
            r = set()
            for st in n.stmt.body:
                if any(isinstance(x, (ast.Break, ast.Continue, ast.Return, ast.Raise)) for x in ast.walk(st)):
                    break
                r |= _stmt_resets(st, sn, lambda e, var=var, names=names: names if isinstance(e, ast.Name) and e.id == var else None)
            if r:
                out[n] = r
    return out


def self_field_meaning(p, cls, field, sn="self"):
    """What `self.<field>` of class `cls` stands for, when that is one expression: the result of a property getter with a
    single `return <expr>`, or the only non-constant value the field is ever assigned in the class's methods (a cached
    flag; the constant default of __init__ is ignored).  The expression is alias-expanded in the function it comes from and
    spelled with `sn` for self; names of that function's parameters / unresolved locals are renamed apart (`<name>@<function>`
    is not a valid identifier in any other function, so they can never be mistaken for a local of the reader).  Returns
    (expr, owner FuncInfo) or None."""
    def foreign(e, fi):
        osn = fi.self_name or "self"

        class R(ast.NodeTransformer):
            def visit_Name(self, n):
                if n.id == osn:
                    return ast.copy_location(ast.Name(id=sn, ctx=n.ctx), n)
                return ast.copy_location(ast.Name(id=f"{n.id}@{fi.name}", ctx=n.ctx), n)

        return R().visit(copy.deepcopy(e))

    pr = cls.props.get(field) if hasattr(cls, "props") else None
    meth = cls.lookup(field)
    if pr is None and meth is not None and meth[1] == "method" and len(meth[2].params) == 1:
        # an argument-less method with a single `return <expr>` read as `self.<field>()`
        rets = [r for r in own_nodes(meth[2].node) if isinstance(r, ast.Return)]
        if len(rets) == 1 and rets[0].value is not None:
            return foreign(Facts(meth[2].node).x(rets[0].value), meth[2]), meth[2]
        return None
    if pr is not None and pr.getter is not None:
        rets = [r for r in own_nodes(pr.getter.node) if isinstance(r, ast.Return)]
        if len(rets) == 1 and rets[0].value is not None:
            return foreign(Facts(pr.getter.node).x(rets[0].value), pr.getter), pr.getter
        return None
    vals = []
    members = list(cls.methods.values()) + [f for q in cls.props.values() for f in (q.getter, q.setter) if f is not None]
    for fi in members:
        osn = fi.self_name
        if osn is None:
            continue
        for a in own_nodes(fi.node):
            if isinstance(a, (ast.Assign, ast.AnnAssign)) and a.value is not None:
                tgs = a.targets if isinstance(a, ast.Assign) else [a.target]
                if any(_self_field(t, osn) == field for t in tgs):
                    if fi.name == "__init__" and isinstance(a.value, ast.Constant):
                        continue
                    vals.append((Facts(fi.node).x(a.value), fi))
            elif isinstance(a, (ast.AugAssign,)) and _self_field(a.target, osn) == field:
                return None
    if not vals or len({unparse(v) for v, _ in vals}) != 1:
        return None
    return foreign(vals[0][0], vals[0][1]), vals[0][1]


_STACK_MAKERS = {"ExitStack", "AsyncExitStack"}


def exit_stacks(fn_node) -> dict:
    """name -> [With statements] for the exit stacks of a function: `with ExitStack() as <name>:`, or `<name> = ExitStack()`
    followed by `with <name>:`.  Callbacks registered on <name> run at the exit of those with-blocks."""
    made = {t.id for a in ast.walk(fn_node) if isinstance(a, ast.Assign) and isinstance(a.value, ast.Call) and call_name(a.value) in _STACK_MAKERS
            for t in a.targets if isinstance(t, ast.Name)}
    out: dict = {}
    for w in ast.walk(fn_node):
        if isinstance(w, (ast.With, ast.AsyncWith)):
            for it in w.items:
                if isinstance(it.context_expr, ast.Call) and call_name(it.context_expr) in _STACK_MAKERS and isinstance(it.optional_vars, ast.Name):
                    out.setdefault(it.optional_vars.id, []).append(w)
                elif isinstance(it.context_expr, ast.Name) and it.context_expr.id in made:
                    out.setdefault(it.context_expr.id, []).append(w)
    return out


class ReleaseModel:
    """Is the handle opened at one acquisition released on every way out of the function?  Explores (CFG node, held?,
    exit stacks the release is registered on): the handle is released by `<h>.close()`, by the exit of `with <h>` /
    `with closing(<h>)` / a generator context manager of the package over it, by whatever `extra(node)` says, and by the
    exit of `with ExitStack() as s:` (or `s.close()`) on the paths where `s.callback(<h>.close)` / `s.enter_context(<h>)` /
    `s.push(<h>)` was executed before and not cancelled by `s.pop_all()`.
    A registration that names the RECEIVER of `<ws>.open(..)` counts wherever it is executed (it is the same object before and
    after); one that names the local the handle is bound to counts only after the acquisition (before it, the name stands
    for another object)."""

    def __init__(self, g, fn_node, acq_node, recv_handles, tgt_handles, released_by=None, extra=None):
        self.g, self.acq = g, acq_node
        self.all = closer(fn_node, set(recv_handles) | set(tgt_handles), released_by)
        self.recv = closer(fn_node, set(recv_handles), released_by) if recv_handles else None
        self.extra = extra or (lambda n: False)
        self.stacks = exit_stacks(fn_node)
        self._with_of = {id(w): name for name, ws in self.stacks.items() for w in ws}
        self.acq_yields = acq_node is not None and any(isinstance(x, (ast.Yield, ast.YieldFrom)) for e in node_exprs(acq_node) for x in ast.walk(e))
        self._full = None

    # ---------------------------------------------------------------- per-node facts
    def _stack_call(self, c):
        f = c.func
        if isinstance(f, ast.Attribute) and isinstance(f.value, ast.Name) and f.value.id in self.stacks:
            return f.value.id, f.attr
        return None, None

    def _registers(self, n, held) -> set:
        out = set()
        for c in node_calls(n):
            name, attr = self._stack_call(c)
            if name is None or not c.args:
                continue
            a0 = c.args[0]
            if attr == "callback":
                obj = a0.value if isinstance(a0, ast.Attribute) and a0.attr in ("close", "__exit__") else None
                if obj is not None and ((self.recv is not None and self.recv.denotes(obj)) or (held and self.all.denotes(obj))):
                    out.add(name)
            elif attr in ("enter_context", "push", "enter_async_context", "push_async_exit"):
                if (self.recv is not None and self.recv.releases_item(a0)) or (held and self.all.releases_item(a0)):
                    out.add(name)
        return out

    def _cancels(self, n) -> set:
        return {name for c in node_calls(n) for name, attr in [self._stack_call(c)] if name is not None and attr == "pop_all"}

    def _runs_now(self, n) -> set:
        return {name for c in node_calls(n) for name, attr in [self._stack_call(c)] if name is not None and attr in ("close", "aclose") and not c.args}

    def _stack_exit(self, n):
        if n.kind == "withexit" and n.stmt is not None:
            return self._with_of.get(id(n.stmt))
        return None

    def releases(self, n, regs) -> bool:
        if self.all(n) or self.extra(n):
            return True
        se = self._stack_exit(n)
        if se is not None and se in regs:
            return True
        return bool(self._runs_now(n) & regs)

    # ---------------------------------------------------------------- exploration
    def explore(self, starts):
        """visited (node, held, regs) from starts = [(node, held, regs)] (state on ENTERING the node)"""
        seen = set()
        dq = deque(starts)
        while dq:
            n, held, regs = dq.popleft()
            if held and self.releases(n, regs):
                held = False
            key = (n, held, regs)
            if key in seen:
                continue
            seen.add(key)
            if n is self.g.exit or n is self.g.rexit:
                continue
            held_after = held or (n is self.acq)
            regs_after = (regs | frozenset(self._registers(n, held_after))) - frozenset(self._cancels(n))
            se = self._stack_exit(n)
            if se is not None:
                regs_after = regs_after - {se}
            for m, lab in n.succ:
                if lab == "exc":
                    # the statement did not complete: nothing it registers counts, and an acquisition that raised acquired
                    # nothing (unless the node hands control out at a yield after acquiring)
                    h2 = held_after if (n is not self.acq or self.acq_yields) else held
                    dq.append((m, h2, regs))
                else:
                    dq.append((m, held_after, regs_after))
        return seen

    def full(self):
        if self._full is None:
            self._full = self.explore([(self.g.entry, False, frozenset())])
        return self._full

    def leaks(self):
        """(normal exit reached while held, exceptional exit reached while held)"""
        seen = self.full()
        return any(n is self.g.exit and h for n, h, _ in seen), any(n is self.g.rexit and h for n, h, _ in seen)

    def held_at(self, node) -> bool:
        return node is self.acq or any(n is node and h for n, h, _ in self.full())

    def protected(self, node) -> bool:
        """exceptions raised at `node` are intercepted and every way out of it, normal or exceptional, passes a release"""
        if not any(l == "exc" for _, l in node.succ):
            return False
        starts = [(n, h, r) for n, h, r in self.full() if n is node and (h or node is self.acq)]
        if not starts:
            return True
        seen = self.explore(starts)
        return not any((n is self.g.exit or n is self.g.rexit) and h for n, h, _ in seen)


def surely_evaluated(e, outcome=None):
    """Sub-expressions of `e` that are evaluated whenever `e` is evaluated (outcome None) or whenever it is evaluated and comes
    out truthy / falsy (outcome True / False): the operands a short-circuit can skip are left out.  Yields AST nodes."""
    if isinstance(e, ast.BoolOp):
        yield e
        all_when = isinstance(e.op, ast.And)  # an `and` that is true / an `or` that is false evaluated every operand
        if outcome is not None and outcome == all_when:
            for v in e.values:
                yield from surely_evaluated(v, outcome)
        else:
            yield from surely_evaluated(e.values[0], None)
        return
    if isinstance(e, ast.UnaryOp) and isinstance(e.op, ast.Not):
        yield e
        yield from surely_evaluated(e.operand, None if outcome is None else (not outcome))
        return
    if isinstance(e, ast.IfExp):
        yield e
        yield from surely_evaluated(e.test, None)
        return
    if isinstance(e, (ast.Lambda, ast.ListComp, ast.SetComp, ast.DictComp, ast.GeneratorExp)):
        yield e
        if not isinstance(e, ast.Lambda):
            yield from surely_evaluated(e.generators[0].iter, None)
        return
    if isinstance(e, ast.Compare) and len(e.ops) > 1:
        yield e
        yield from surely_evaluated(e.left, None)
        yield from surely_evaluated(e.comparators[0], None)
        return
    yield e
    for c in ast.iter_child_nodes(e):
        if isinstance(c, ast.expr):
            yield from surely_evaluated(c, None)
        elif isinstance(c, ast.keyword):
            yield from surely_evaluated(c.value, None)


def must_pass(g, facts, event, normal_only=True):
    """Nodes that can be ENTERED on a path from the entry on which `event` has not happened yet.  `event(node, outcome)` says
    whether executing the node (for a test: with that outcome, else outcome None) makes it happen.  Test edges decided by
    `facts` are pruned; exceptional edges are not followed."""
    seen = set()
    dq = deque([g.entry])
    while dq:
        n = dq.popleft()
        if n in seen:
            continue
        seen.add(n)
        succ = n.succ
        v = None
        if n.kind == "test" and n.ast is not None:
            v = facts.ev(n.ast) if facts is not None else None
        for m, lab in succ:
            if normal_only and lab in ("exc", "raise"):
                continue
            if n.kind == "test" and lab in ("true", "false"):
                out = lab == "true"
                if v is not None and v != out:
                    continue
                if event(n, out):
                    continue
            elif event(n, None):
                continue
            if m not in seen:
                dq.append(m)
    return seen
