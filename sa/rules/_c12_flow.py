"""C12 helpers: where a value comes from (flow-insensitive, over a normalised function body), so that the C12 rules can
identify their sites by WHAT they do — "the dict returned by the attribute harvest", "a child of the copied entity",
"the strings this omit list certainly contains" — and not by the spelling of locals or the layout of statements.

Nothing here is C12 specific in itself; it lives in this file because the rules of other properties are edited separately.
"""

from __future__ import annotations

import ast

from ..model import unparse


# ------------------------------------------------------------------------------------------------ bindings
class Flow:
    """Bindings of one function body (normally a ctx.view(...) node: private helpers expanded, constants substituted)."""

    def __init__(self, fn_node, record_fields=None):
        """record_fields(call) -> the field names when `call` constructs a small record (NamedTuple / dataclass), else None"""
        self.node = fn_node
        self.record_fields = record_fields
        self._deferred: list = []  # tuple targets bound from something that is not a tuple display: resolved once all bindings are known
        a = fn_node.args
        self.params = [x.arg for x in a.posonlyargs + a.args + a.kwonlyargs]
        self.kwarg = a.kwarg.arg if a.kwarg else None
        self.vararg = a.vararg.arg if a.vararg else None
        self.defs: dict = {}  # name -> [value expr]            simple `x = e`, `x: T = e`, `x := e`, `with e as x`
        self.loops: dict = {}  # name -> [(iter expr, position in the target | None)]   for / comprehension targets
        self.shrunk: set = set()  # names whose container loses elements in place (.remove / .pop / del x[i])
        self.grown: set = set()  # names extended in place by `+=` / `|=`
        self.opaque: set = set()  # names also bound in a way that is not followed (tuple unpacking of a call, except .. as, +=)
        for n in ast.walk(fn_node):
            if isinstance(n, (ast.Assign, ast.AnnAssign)) and n.value is not None:
                for t in (n.targets if isinstance(n, ast.Assign) else [n.target]):
                    self._bind(t, n.value)
            elif isinstance(n, ast.NamedExpr):
                self._bind(n.target, n.value)
            elif isinstance(n, ast.With):
                for it in n.items:
                    if it.optional_vars is not None:
                        self._bind(it.optional_vars, it.context_expr)
            elif isinstance(n, ast.AugAssign):
                for x in ast.walk(n.target):
                    if isinstance(x, ast.Name):
                        # `x += more` / `x |= more` only ever ADD to a sequence / set: the earlier bindings still tell what it certainly holds
                        (self.grown if isinstance(n.op, (ast.Add, ast.BitOr)) and x is n.target else self.opaque).add(x.id)
            elif isinstance(n, (ast.For, ast.AsyncFor, ast.comprehension)):
                self._bind_loop(n.target, n.iter)
            elif isinstance(n, ast.ExceptHandler) and n.name:
                self.opaque.add(n.name)
            elif isinstance(n, ast.Call) and isinstance(n.func, ast.Attribute) and isinstance(n.func.value, ast.Name) \
                    and n.func.attr in ("remove", "pop", "clear", "discard", "difference_update", "intersection_update", "symmetric_difference_update"):
                self.shrunk.add(n.func.value.id)
            elif isinstance(n, ast.Delete):
                for t in n.targets:
                    if isinstance(t, ast.Subscript) and isinstance(t.value, ast.Name):
                        self.shrunk.add(t.value.id)
        for target, value in self._deferred:
            rows = self.unpacked(value, len(target.elts))
            if rows is None:
                for x in ast.walk(target):
                    if isinstance(x, ast.Name):
                        self.opaque.add(x.id)
            else:
                for row in rows:
                    for t, v in zip(target.elts, row):
                        self._bind(t, v)

    def _fields_of(self, o):
        """[(field name | None, value expr)] of a tuple display / a record construction, else None"""
        if isinstance(o, (ast.Tuple, ast.List)) and not any(isinstance(e, ast.Starred) for e in o.elts):
            return [(None, e) for e in o.elts]
        if isinstance(o, ast.Call) and self.record_fields is not None:
            names = self.record_fields(o)
            if names and not any(isinstance(a, ast.Starred) for a in o.args) and all(k.arg in names for k in o.keywords):
                given = dict(zip(names, o.args))
                given.update({k.arg: k.value for k in o.keywords})
                if all(nm in given for nm in names):
                    return [(nm, given[nm]) for nm in names]
        return None

    def unpacked(self, value, n):
        """the rows of n expressions that `a, b = value` may bind positionally — value followed to tuple displays / record
        constructions (CopyAttributes(x, y)); None when some possible value is anything else"""
        rows = []
        for o in self.origins(value):
            fs = self._fields_of(o)
            if fs is None or len(fs) != n:
                return None
            rows.append([v for _nm, v in fs])
        return rows or None

    def field_values(self, expr, _seen=None):
        """for `<record>.<field>`: the expressions the field was constructed from, else None"""
        if not (isinstance(expr, ast.Attribute) and self.record_fields is not None and isinstance(expr.value, ast.Name)):
            return None
        if _seen is not None and ("field", expr.value.id) in _seen:
            return None
        seen = set() if _seen is None else _seen
        seen.add(("field", expr.value.id))
        out = []
        for o in self.origins(expr.value, True, set(x for x in seen if isinstance(x, str))):
            fs = self._fields_of(o) if isinstance(o, ast.Call) else None
            hit = next((v for nm, v in fs or [] if nm == expr.attr), None)
            if hit is None:
                return None
            out.append(hit)
        return out or None

    def _bind(self, target, value):
        if isinstance(target, ast.Name):
            self.defs.setdefault(target.id, []).append(value)
        elif isinstance(target, (ast.Tuple, ast.List)):
            if isinstance(value, (ast.Tuple, ast.List)) and len(value.elts) == len(target.elts) and not any(isinstance(e, ast.Starred) for e in list(value.elts) + list(target.elts)):
                for t, v in zip(target.elts, value.elts):
                    self._bind(t, v)
            elif not any(isinstance(e, ast.Starred) for e in target.elts) and all(isinstance(e, ast.Name) for e in target.elts):
                self._deferred.append((target, value))
            else:
                for x in ast.walk(target):
                    if isinstance(x, ast.Name):
                        self.opaque.add(x.id)

    def _bind_loop(self, target, it):
        if isinstance(target, ast.Name):
            self.loops.setdefault(target.id, []).append((it, None))
        else:
            direct = {t.id: i for i, t in enumerate(getattr(target, "elts", [])) if isinstance(t, ast.Name)}
            for x in ast.walk(target):
                if isinstance(x, ast.Name):
                    self.loops.setdefault(x.id, []).append((it, direct.get(x.id, -1)))

    # -------------------------------------------------------------------------------------------- origins
    def origins(self, expr, skip_none=True, _seen=None) -> list:
        """The expressions `expr` may evaluate to, following local names through ALL their bindings (any branch), conditional
        expressions, `a or b`, walrus.  Leaves are nodes of the analysed tree itself (compare them with `is`): calls, attributes,
        literals, and Name nodes for parameters, loop variables, globals and names bound opaquely."""
        seen = _seen if _seen is not None else set()
        out = []
        if expr is None:
            return out
        if isinstance(expr, ast.Name):
            nm = expr.id
            local = nm in self.defs
            if not local or nm in self.params or nm in self.loops or nm in self.opaque or nm in self.grown or nm in (self.kwarg, self.vararg):
                out.append(expr)
            if local and nm not in seen:
                seen.add(nm)
                for v in self.defs[nm]:
                    out += self.origins(v, skip_none, seen)
            return out
        if isinstance(expr, ast.IfExp):
            return self.origins(expr.body, skip_none, seen) + self.origins(expr.orelse, skip_none, seen)
        if isinstance(expr, ast.BoolOp):
            for v in expr.values:
                out += self.origins(v, skip_none, seen)
            return out
        if isinstance(expr, ast.NamedExpr):
            return self.origins(expr.value, skip_none, seen)
        if isinstance(expr, ast.Attribute):
            vals = self.field_values(expr, seen)
            if vals is not None:
                for v in vals:
                    out += self.origins(v, skip_none, seen)
                return out
        if skip_none and isinstance(expr, ast.Constant) and expr.value is None:
            return out
        return [expr]

    # -------------------------------------------------------------------------------------------- flow-sensitive origins
    def _reaching(self):
        """Reaching definitions on the statement-level CFG: IN sets of (name, index into self._vals) per CFG node, and the CFG
        node that evaluates each expression node of the body."""
        if getattr(self, "_rd", None) is not None:
            return self._rd
        from ..cfg import CFG, forward

        g = CFG(self.node)
        vals: list = []  # value expr | ("param",) | ("opaque",) | ("loop", iter)
        index: dict = {}

        def key(v):
            k = id(v) if not isinstance(v, tuple) else v[0] if len(v) == 1 else (v[0], id(v[1]))
            if k not in index:
                index[k] = len(vals)
                vals.append(v)
            return index[k]

        def binds(target, value, out):
            if isinstance(target, ast.Name):
                out.append((target.id, key(value)))
            elif isinstance(target, (ast.Tuple, ast.List)):
                if not isinstance(value, tuple) and isinstance(value, (ast.Tuple, ast.List)) and len(value.elts) == len(target.elts) \
                        and not any(isinstance(e, ast.Starred) for e in list(value.elts) + list(target.elts)):
                    for t, v in zip(target.elts, value.elts):
                        binds(t, v, out)
                else:
                    rows = None if isinstance(value, tuple) else self.unpacked(value, len(target.elts))
                    if rows is not None and all(isinstance(e, ast.Name) for e in target.elts):
                        for row in rows:
                            for t, v in zip(target.elts, row):
                                binds(t, v, out)
                        return
                    for x in ast.walk(target):
                        if isinstance(x, ast.Name):
                            out.append((x.id, key(value if isinstance(value, tuple) else ("opaque",))))

        gen: dict = {}
        where: dict = {}
        for n in g.nodes:
            out: list = []
            exprs: list = []
            st = n.ast
            if n.kind == "stmt" and st is not None:
                exprs = [st]
                if isinstance(st, ast.Assign):
                    for t in st.targets:
                        binds(t, st.value, out)
                elif isinstance(st, ast.AnnAssign) and st.value is not None:
                    binds(st.target, st.value, out)
                elif isinstance(st, ast.AugAssign):
                    binds(st.target, ("opaque",), out)
                elif isinstance(st, (ast.Import, ast.ImportFrom)):
                    for al in st.names:
                        out.append(((al.asname or al.name).split(".")[0], key(("opaque",))))
            elif n.kind == "fornext":
                exprs = [st]
                binds(st, ("loop", n.stmt.iter), out)
            elif n.kind == "with":
                for it in st.items:
                    exprs.append(it.context_expr)
                    if it.optional_vars is not None:
                        exprs.append(it.optional_vars)
                        binds(it.optional_vars, it.context_expr, out)
            elif n.kind == "except":
                if st.type is not None:
                    exprs = [st.type]
                if st.name:
                    out.append((st.name, key(("opaque",))))
            elif n.kind in ("test", "foriter", "return", "raise", "assert") and st is not None:
                exprs = [st]
            for e in exprs:
                for x in ast.walk(e):
                    where[id(x)] = n
                    if isinstance(x, ast.NamedExpr) and isinstance(x.target, ast.Name):
                        out.append((x.target.id, key(x.value)))
            gen[n] = out

        init = frozenset((nm, key(("param",))) for nm in self.params + [x for x in (self.kwarg, self.vararg) if x])

        def transfer(n, state):
            out = gen.get(n)
            if not out:
                return state
            killed = {nm for nm, _ in out}
            return frozenset(d for d in state if d[0] not in killed) | frozenset(out)

        IN = forward(g, init, transfer, lambda a, b: a | b)
        self._rd = (IN, where, vals)
        self._cfg = g
        return self._rd

    def origins_at(self, expr, skip_none=True, _seen=None) -> list:
        """Like origins(), but a local name stands only for the bindings that REACH the place where it is read (so
        `x = f(x); return x` comes from f(..), not from the parameter).  `expr` must be a node of the analysed tree."""
        IN, where, vals = self._reaching()
        seen = _seen if _seen is not None else set()
        out = []
        if expr is None:
            return out
        if isinstance(expr, ast.Name):
            at = where.get(id(expr))
            if at is None or at not in IN:
                return self.origins(expr, skip_none)  # not located (unreachable statement): every binding counts
            reaching = [k for nm, k in IN[at] if nm == expr.id]
            if not reaching:
                return [expr]  # a global, a comprehension variable
            for k in reaching:
                v = vals[k]
                if isinstance(v, tuple):
                    if expr not in out:
                        out.append(expr)
                elif (expr.id, k) not in seen:
                    seen.add((expr.id, k))
                    out += self.origins_at(v, skip_none, seen)
            return out
        if isinstance(expr, ast.IfExp):
            return self.origins_at(expr.body, skip_none, seen) + self.origins_at(expr.orelse, skip_none, seen)
        if isinstance(expr, ast.BoolOp):
            for v in expr.values:
                out += self.origins_at(v, skip_none, seen)
            return out
        if isinstance(expr, ast.NamedExpr):
            return self.origins_at(expr.value, skip_none, seen)
        if isinstance(expr, ast.Attribute):
            vals = self.field_values(expr, seen)
            if vals is not None:
                for v in vals:
                    out += self.origins_at(v, skip_none, seen)
                return out
        if skip_none and isinstance(expr, ast.Constant) and expr.value is None:
            return out
        return [expr]

    def may_run_after(self, later, earlier) -> bool:
        """Some execution evaluates expression node `later` after expression node `earlier` (a path of the control-flow graph leads
        from the statement of `earlier` to the statement of `later`; within one statement: never decided, False)."""
        _IN, where, _vals = self._reaching()
        a, b = where.get(id(earlier)), where.get(id(later))
        if a is None or b is None or a is b:
            return False
        seen, todo = set(), [m for m, _ in a.succ]
        while todo:
            n = todo.pop()
            if n is b:
                return True
            if n in seen:
                continue
            seen.add(n)
            todo += [m for m, _ in n.succ]
        return False

    def is_param(self, expr, name) -> bool:
        """expr may be the (un-rebound) parameter `name`."""
        return any(isinstance(o, ast.Name) and o.id == name for o in self.origins(expr))

    def refers(self, expr, node) -> bool:
        """expr may evaluate to the value built by `node` (a node of this tree)."""
        return any(o is node for o in self.origins(expr))

    def holds_entries_of(self, expr, node, _depth=0) -> bool:
        """expr may be the mapping built by `node`, or a (shallow / deep) copy of it: dict(m), m.copy(), {**m, ..}, copy(m) —
        its entries are the entries of `node`'s result."""
        for o in self.origins(expr):
            if o is node:
                return True
            if _depth > 6:
                continue
            inner = []
            if isinstance(o, ast.Call):
                nm = call_name(o)
                if nm in ("dict", "copy", "deepcopy", "OrderedDict") and len(o.args) == 1:
                    inner.append(o.args[0])
                elif nm == "copy" and isinstance(o.func, ast.Attribute) and not o.args:
                    inner.append(o.func.value)
            elif isinstance(o, ast.Dict):
                inner += [v for k, v in zip(o.keys, o.values) if k is None]
            elif isinstance(o, ast.DictComp) and len(o.generators) == 1:
                # {k: f(v) for k, v in m.items()}: the same keys, the entries (possibly copied) of m
                it = o.generators[0].iter
                while isinstance(it, ast.Call) and isinstance(it.func, ast.Name) and it.func.id in ("list", "tuple") and len(it.args) == 1:
                    it = it.args[0]
                if isinstance(it, ast.Call) and isinstance(it.func, ast.Attribute) and it.func.attr == "items" and not it.args:
                    inner.append(it.func.value)
            if any(self.holds_entries_of(i, node, _depth + 1) for i in inner):
                return True
        return False

    def names_on_the_way(self, expr) -> set:
        """Every local name followed while resolving expr (for 'was it converted on the way' questions)."""
        seen: set = set()
        self.origins(expr, True, seen)
        if isinstance(expr, ast.Name):
            seen.add(expr.id)
        return seen

    def text(self, expr, fs=False) -> str:
        """Text of expr with every local that has exactly ONE possible non-None origin replaced by it (aliases, values read once
        into a local, results of expanded helpers).  fs: use the bindings reaching the place of the read."""
        return unparse(self.subst(expr, fs))

    def subst(self, expr, fs=False, _depth=0):
        import copy

        flow = self

        def rec(n):
            if isinstance(n, ast.Name) and isinstance(n.ctx, ast.Load) and n.id in flow.defs and _depth < 8:
                os_ = (flow.origins_at if fs else flow.origins)(n)
                if len(os_) == 1 and not (isinstance(os_[0], ast.Name) and os_[0].id == n.id):
                    return flow.subst(os_[0], fs, _depth + 1)
                return copy.copy(n)
            if isinstance(n, ast.AST):
                new = copy.copy(n)
                for f, v in ast.iter_fields(n):
                    if isinstance(v, list):
                        setattr(new, f, [rec(x) if isinstance(x, ast.AST) else x for x in v])
                    elif isinstance(v, ast.AST):
                        setattr(new, f, rec(v))
                return new
            return n

        return rec(expr)

    # -------------------------------------------------------------------------------------------- iteration
    def iterated_over(self, name) -> list:
        """iter expressions of the loops / comprehensions binding `name`."""
        return [it for it, _ in self.loops.get(name, [])]

    def mentions_attr(self, expr, attr, _seen=None) -> bool:
        """expr is computed from an attribute `.attr` (directly, through locals, or by iterating something that is)."""
        seen = _seen if _seen is not None else set()
        for x in ast.walk(expr):
            if isinstance(x, ast.Attribute) and x.attr == attr:
                return True
            if isinstance(x, ast.Name) and x.id not in seen:
                seen.add(x.id)
                for v in self.defs.get(x.id, []):
                    if self.mentions_attr(v, attr, seen):
                        return True
                for it in self.iterated_over(x.id):
                    if self.mentions_attr(it, attr, seen):
                        return True
        return False


# ------------------------------------------------------------------------------------------------ calls
def call_name(call) -> str | None:
    f = call.func
    return f.attr if isinstance(f, ast.Attribute) else getattr(f, "id", None)


def argument(call, index, name):
    """The argument bound to the parameter at `index` / called `name` (None when not given)."""
    for k in call.keywords:
        if k.arg == name:
            return k.value
    if index is not None and index < len(call.args) and not any(isinstance(a, ast.Starred) for a in call.args[: index + 1]):
        return call.args[index]
    return None


def parents(root) -> dict:
    out = {}
    for n in ast.walk(root):
        for c in ast.iter_child_nodes(n):
            out[c] = n
    return out


# ------------------------------------------------------------------------------------------------ string sequences
COPYING_SEQ = ("list", "tuple", "set", "frozenset", "sorted")


def certain_strings(expr, p, module, cls=None, flow: Flow | None = None, _seen=None) -> set:
    """String constants that the sequence expression certainly contains.  Understands literals, `a + b`, `[*a, *b]`,
    list(a) / tuple(a) / set(a), `a | b`, locals (every binding must contain the string), module / class level constants.
    Parts that cannot be evaluated (parameters, calls) contribute nothing — they can only ADD omissions."""
    seen = _seen if _seen is not None else set()
    if expr is None:
        return set()
    if isinstance(expr, (ast.List, ast.Tuple, ast.Set)):
        out = set()
        for e in expr.elts:
            if isinstance(e, ast.Constant) and isinstance(e.value, str):
                out.add(e.value)
            elif isinstance(e, ast.Starred):
                out |= certain_strings(e.value, p, module, cls, flow, seen)
        return out
    if isinstance(expr, ast.BinOp) and isinstance(expr.op, (ast.Add, ast.BitOr)):
        return certain_strings(expr.left, p, module, cls, flow, seen) | certain_strings(expr.right, p, module, cls, flow, seen)
    if isinstance(expr, ast.Call) and isinstance(expr.func, ast.Name) and expr.func.id in COPYING_SEQ and len(expr.args) == 1:
        return certain_strings(expr.args[0], p, module, cls, flow, seen)
    if isinstance(expr, ast.IfExp):
        return certain_strings(expr.body, p, module, cls, flow, seen) & certain_strings(expr.orelse, p, module, cls, flow, seen)
    if isinstance(expr, ast.Name):
        if flow is not None and (expr.id in flow.defs or expr.id in flow.params or expr.id in flow.loops or expr.id in flow.opaque):
            if expr.id in flow.params or expr.id in flow.loops or expr.id in flow.opaque or expr.id in flow.shrunk or ("L", expr.id) in seen:
                return set()
            seen.add(("L", expr.id))
            sets = [certain_strings(v, p, module, cls, flow, seen) for v in flow.defs[expr.id]]
            return set.intersection(*sets) if sets else set()
        if module is not None and ("G", module.name, expr.id) not in seen:
            seen.add(("G", module.name, expr.id))
            r = p.resolve_name(module, expr.id)
            if r and r[0] == "assign":
                return certain_strings(r[1][1], p, r[1][0], None, None, seen)
        return set()
    if isinstance(expr, ast.Attribute) and isinstance(expr.value, ast.Name):
        owner = None
        if cls is not None and expr.value.id in ("self", "cls"):
            owner = cls
        elif module is not None:
            r = p.resolve_name(module, expr.value.id)
            if r and r[0] == "class":
                owner = r[1]
            elif r and r[0] == "module":
                r2 = p.resolve_name(r[1], expr.attr)
                if r2 and r2[0] == "assign":
                    return certain_strings(r2[1][1], p, r2[1][0], None, None, seen)
        if owner is not None:
            m = owner.lookup(expr.attr)
            if m and m[1] == "assign" and m[2] is not None:
                return certain_strings(m[2], p, m[0].module, m[0], None, seen)
    return set()


# ------------------------------------------------------------------------------------------------ isinstance facts
def type_names(t) -> set:
    """names in the class argument of isinstance / in an annotation (last attribute of dotted names, names inside strings)"""
    out = set()
    for n in ast.walk(t):
        if isinstance(n, ast.Name):
            out.add(n.id)
        elif isinstance(n, ast.Attribute):
            out.add(n.attr)
        elif isinstance(n, ast.Constant) and isinstance(n.value, str):
            out |= {x for x in n.value.replace("|", " ").replace("[", " ").replace("]", " ").replace(",", " ").replace(".", " ").split()}
        elif isinstance(n, ast.Constant) and n.value is None:
            out.add("None")
    return out


def isinstance_of(test, is_subject):
    """(type names, positive?) when the test is `isinstance(<subject>, T)` / `not isinstance(<subject>, T)`, else None"""
    positive = True
    while isinstance(test, ast.UnaryOp) and isinstance(test.op, ast.Not):
        test, positive = test.operand, not positive
    if isinstance(test, ast.Call) and isinstance(test.func, ast.Name) and test.func.id == "isinstance" and len(test.args) == 2 and is_subject(test.args[0]):
        return type_names(test.args[1]), positive
    return None


JUMPS = (ast.Continue, ast.Break, ast.Return, ast.Raise)


def test_facts(test, want, is_subject, is_key=None, strict=True):
    """Facts that hold when `test` evaluates to `want`: a list of ("type", names) — isinstance(subject, names) — and
    ("key", constants) — the key variable equals one of the constants.  Conjunctions (and the De Morgan dual) are split.
    None when (strict) some part of the condition is of another kind, so that nothing can be said about which entries pass."""
    while isinstance(test, ast.UnaryOp) and isinstance(test.op, ast.Not):
        test, want = test.operand, not want
    if isinstance(test, ast.BoolOp) and isinstance(test.op, ast.And if want else ast.Or):
        out = []
        for part in test.values:
            sub = test_facts(part, want, is_subject, is_key, strict)
            if sub is None:
                return None
            out += sub
        return out
    t = isinstance_of(test, is_subject)
    if t is not None:
        if t[1] == want:
            return [("type", frozenset(t[0]))]
        return None if strict else []
    if is_key is not None and isinstance(test, ast.Compare) and len(test.ops) == 1 and is_key(test.left):
        op, rhs = test.ops[0], test.comparators[0]
        consts = None
        if isinstance(op, (ast.Eq, ast.NotEq)) and isinstance(rhs, ast.Constant):
            consts, positive = {rhs.value}, isinstance(op, ast.Eq)
        elif isinstance(op, (ast.In, ast.NotIn)) and isinstance(rhs, (ast.Tuple, ast.List, ast.Set)) and all(isinstance(e, ast.Constant) for e in rhs.elts):
            consts, positive = {e.value for e in rhs.elts}, isinstance(op, ast.In)
        if consts is not None and positive == want:
            return [("key", frozenset(consts))]
    return None if strict else []


def instance_facts(par, st, top, is_subject, strict=True, is_key=None, rebinds=None):
    """What the tests on the way tell about <subject> whenever statement `st` runs inside `top` (a loop or the function): a list
    of facts (see test_facts) — from enclosing ifs (body or else branch) and from earlier guard clauses: `if <test>: continue /
    return / raise`, or `if <test>: <subject re-bound>` (rebinds(stmt) says so: past it the ORIGINAL value only flows on when the
    test was false).  None when (strict) the statement is reached under any other kind of condition; [] when unconditionally.
    strict=False: other conditions are ignored (they can only narrow further) and just the usable facts are collected."""
    facts = []
    cur, child = par.get(st), st
    while cur is not None:
        blk = next((b for b in (getattr(cur, "body", None), getattr(cur, "orelse", None), getattr(cur, "finalbody", None))
                    if isinstance(b, list) and child in b), None)
        if blk is None:
            if strict:
                return None
            blk = [child]
        for prev in blk[: blk.index(child)]:
            leaves = isinstance(prev, ast.If) and not prev.orelse and (
                all(isinstance(x, JUMPS) for x in prev.body) or (rebinds is not None and all(rebinds(x) for x in prev.body)))
            if leaves:
                sub = test_facts(prev.test, False, is_subject, is_key, strict)
                if sub is None:
                    return None
                facts += sub
            elif strict and any(isinstance(x, JUMPS) for x in ast.walk(prev)):
                return None
        if cur is top:
            return facts
        if isinstance(cur, ast.If):
            sub = test_facts(cur.test, child in cur.body, is_subject, is_key, strict)
            if sub is None:
                return None
            facts += sub
        elif not isinstance(cur, (ast.With, ast.AsyncWith)) and strict:
            return None
        cur, child = par.get(cur), cur
    return None


def top_types(ann) -> set:
    """Names of the types an annotation admits at the TOP level: `dict | None`, Optional[dict], Union[dict, str], dict[str, Any]
    give dict (, None, str); `list[dict]` gives list only — what the value IS, not what it contains."""
    if ann is None:
        return set()
    if isinstance(ann, ast.Constant) and isinstance(ann.value, str):
        try:
            return top_types(ast.parse(ann.value, mode="eval").body)
        except SyntaxError:
            return set()
    if isinstance(ann, ast.Constant) and ann.value is None:
        return {"None"}
    if isinstance(ann, ast.BinOp) and isinstance(ann.op, ast.BitOr):
        return top_types(ann.left) | top_types(ann.right)
    if isinstance(ann, ast.Subscript):
        base = ann.value.attr if isinstance(ann.value, ast.Attribute) else getattr(ann.value, "id", None)
        if base in ("Optional", "Union", "Annotated", "Final", "ClassVar"):
            inner = ann.slice.elts if isinstance(ann.slice, ast.Tuple) else [ann.slice]
            if base == "Annotated":
                inner = inner[:1]
            out = set().union(*[top_types(x) for x in inner]) if inner else set()
            return out | ({"None"} if base == "Optional" else set())
        return {base} if base else set()
    if isinstance(ann, ast.Name):
        return {ann.id}
    if isinstance(ann, ast.Attribute):
        return {ann.attr}
    return set()


# ------------------------------------------------------------------------------------------------ local closures
def inline_closures(fn_node):
    """A copy of the function in which calls `x = f(a, b)` / `f(a)` / `return f(a)` to a LOCAL function `def f(p, q): ...` (a closure
    defined in the body: no decorators, plain positional parameters, no generator, not recursive) are replaced by the closure's body —
    parameters bound by assignments, its own locals renamed apart, `return` turned into an assignment — and the definition removed
    when nothing else refers to it.  The closure's free variables are the enclosing function's locals, so the result reads like the
    loop body the closure was extracted from.  Uses the normaliser's return elimination (read only)."""
    import copy

    from ..normalize import _CannotInline, _bound_names, _eliminate_returns

    node = copy.deepcopy(fn_node)
    counter = [0]

    def local_defs(body):
        return {st.name: st for st in body if isinstance(st, ast.FunctionDef)}

    def simple(f):
        a = f.args
        return not (f.decorator_list or a.vararg or a.kwarg or a.kwonlyargs or a.defaults or a.posonlyargs) \
            and not any(isinstance(x, (ast.Yield, ast.YieldFrom, ast.Global, ast.Nonlocal)) for st in f.body for x in ast.walk(st)) \
            and not any(isinstance(x, ast.Name) and x.id == f.name for st in f.body for x in ast.walk(st))

    def expand(call, f, taken):
        counter[0] += 1
        tag = f"__c{counter[0]}"
        own = _bound_names(f)
        ren = {nm: nm + tag for nm in own}

        class Ren(ast.NodeTransformer):
            def visit_Name(self, n):
                return ast.copy_location(ast.Name(id=ren[n.id], ctx=n.ctx), n) if n.id in ren else n

            def visit_FunctionDef(self, n):
                return n  # deeper closures keep their own scope

        body = [Ren().visit(copy.deepcopy(st)) for st in f.body
                if not (isinstance(st, ast.Expr) and isinstance(st.value, ast.Constant) and isinstance(st.value.value, str))]
        pre = [ast.copy_location(ast.Assign(targets=[ast.Name(id=ren[p.arg], ctx=ast.Store())], value=a, lineno=call.lineno), call)
               for p, a in zip(f.args.args, call.args)]
        ret = f"_ret{tag}"
        stmts, _t = _eliminate_returns(body, ret, call)
        init = ast.copy_location(ast.Assign(targets=[ast.Name(id=ret, ctx=ast.Store())], value=ast.Constant(value=None), lineno=call.lineno), call)
        out = pre + [init] + stmts
        for st in out:
            for x in ast.walk(st):
                if not hasattr(x, "lineno"):
                    ast.copy_location(x, call)
        return out, ret

    def block(stmts, closures):
        closures = dict(closures)
        closures.update({k: v for k, v in local_defs(stmts).items() if simple(v)})
        out = []
        for st in stmts:
            for fld in ("body", "orelse", "finalbody"):
                blk = getattr(st, fld, None)
                if isinstance(blk, list) and blk and isinstance(blk[0], ast.stmt) and not isinstance(st, (ast.FunctionDef, ast.AsyncFunctionDef, ast.ClassDef)):
                    setattr(st, fld, block(blk, closures))
            for h in getattr(st, "handlers", []) or []:
                h.body = block(h.body, closures)
            host = st.value if isinstance(st, (ast.Assign, ast.AnnAssign, ast.Expr, ast.Return)) else None
            if isinstance(host, ast.Call) and isinstance(host.func, ast.Name) and host.func.id in closures and not host.keywords \
                    and not any(isinstance(a, ast.Starred) for a in host.args) and len(host.args) == len(closures[host.func.id].args.args):
                try:
                    exp, ret = expand(host, closures[host.func.id], None)
                except _CannotInline:
                    out.append(st)
                    continue
                exp = block(exp, closures)
                out += exp
                if isinstance(st, ast.Expr):
                    continue
                st.value = ast.copy_location(ast.Name(id=ret, ctx=ast.Load()), host)
            out.append(st)
        return out

    node.body = block(node.body, {})

    # drop the definitions nothing refers to any more
    def prune(stmts):
        used = {x.id for st in ast.walk(node) for x in [st] if isinstance(x, ast.Name)}
        keep = []
        for st in stmts:
            if isinstance(st, ast.FunctionDef) and st.name not in used:
                continue
            for fld in ("body", "orelse", "finalbody"):
                blk = getattr(st, fld, None)
                if isinstance(blk, list) and blk and isinstance(blk[0], ast.stmt) and not isinstance(st, (ast.FunctionDef, ast.AsyncFunctionDef, ast.ClassDef)):
                    setattr(st, fld, prune(blk) or [ast.copy_location(ast.Pass(), st)])
            keep.append(st)
        return keep

    node.body = prune(node.body) or [ast.Pass()]
    ast.fix_missing_locations(node)
    return node
